"""CLI:  python -m ndverif check <ID> [--tier quick|thorough] [--repo PATH] [--no-evidence]
         python -m ndverif replay <file>
         python -m ndverif list
Exit codes: 0 property held (or only listed known findings), 1 + `VIOLATION property=<id> replay=<path>`,
2 + `ANALYSIS-ERROR ...` when the analysis itself cannot decide (never a verdict)."""
import argparse
import json
import os
import sys
import traceback


def main(argv=None):
    ap = argparse.ArgumentParser(prog='ndverif')
    sub = ap.add_subparsers(dest='cmd')
    c = sub.add_parser('check')
    c.add_argument('prop')
    c.add_argument('--tier', default=os.environ.get('VERIF_TIER', 'quick'), choices=['quick', 'thorough'])
    c.add_argument('--repo', default='/repo')
    c.add_argument('--no-evidence', action='store_true')
    c.add_argument('--no-selfcheck', action='store_true')
    c.add_argument('--only', default=None, help='replay filter rule|construct|key')
    r = sub.add_parser('replay')
    r.add_argument('path')
    sub.add_parser('list')
    s = sub.add_parser('selftest')
    s.add_argument('props', nargs='*')
    s.add_argument('--repo', default='/repo')
    s.add_argument('--jobs', type=int, default=0)
    cf = sub.add_parser('conformance')
    cf.add_argument('--repo', default='/repo')
    args = ap.parse_args(argv)
    if args.cmd == 'conformance':
        from . import conformance
        return 2 if conformance.run(args.repo) else 0
    from .engine import run_check, run_replay, list_props, run_selftest
    if args.cmd == 'check':
        return run_check(args.prop, args.tier, args.repo, write_evidence=not args.no_evidence,
                         selfcheck=not args.no_selfcheck)
    if args.cmd == 'replay':
        return run_replay(args.path)
    if args.cmd == 'list':
        return list_props()
    if args.cmd == 'selftest':
        return run_selftest(args.props, args.repo, args.jobs)
    ap.print_help()
    return 2


if __name__ == '__main__':
    try:
        code = main()
    except SystemExit:
        raise
    except BrokenPipeError:
        code = 2
    except BaseException as exc:   # never let a traceback look like a verdict
        traceback.print_exc()
        try:
            print('ANALYSIS-ERROR %s: %s' % (type(exc).__name__, exc))
        except BrokenPipeError:
            pass
        code = 2
    try:
        sys.stdout.flush()
    except BrokenPipeError:
        pass
    sys.exit(code)
