"""Abstract interpreter for the analysed package (E1/E3/E4 share it).

It interprets the *AST* of /repo's modules (the package is never imported or executed) over abstract
values: concrete python ints/strings/containers for configuration data, exact algebraic terms
(algebra.Poly / Rat) for numbers, symbolic arrays with concrete shapes (ndarr.Arr) and rule-specific
element types (function-value combinations, provenance sets).  Library functions (numpy, scipy) are
summaries from libmodels.  A branch on a value the analysis cannot determine, or any construct outside
the supported subset, raises AnalysisError (exit 2) - it is never turned into a verdict.
"""
import ast
import collections
import functools
from fractions import Fraction as Fr

from .srcmodel import AnalysisError, ClassInfo, qualname_of
from .algebra import Poly, Rat, Z8, AlgebraError, fr_of_float
from . import ndarr
from .ndarr import (Arr, Unk, Choice, InterpRaise, InterpValueError, InterpIndexError, InterpTypeError,
                    s_add, s_sub, s_mul, s_div, s_pow, s_neg, s_abs, s_cmp, s_floordiv, s_mod, s_not,
                    s_and, s_or)


class _Return(Exception):
    def __init__(self, value):
        self.value = value


class _Break(Exception):
    pass


class _Continue(Exception):
    pass


EXC_PARENTS = {'ValueError': 'Exception', 'IndexError': 'LookupError', 'KeyError': 'LookupError',
               'LookupError': 'Exception', 'TypeError': 'Exception', 'AttributeError': 'Exception',
               'ZeroDivisionError': 'ArithmeticError', 'ArithmeticError': 'Exception',
               'FloatingPointError': 'ArithmeticError', 'NotImplementedError': 'RuntimeError',
               'RuntimeError': 'Exception', 'StopIteration': 'Exception', 'Exception': 'BaseException',
               'AssertionError': 'Exception', 'OverflowError': 'ArithmeticError',
               'UserWarning': 'Warning', 'Warning': 'Exception', 'RuntimeWarning': 'Warning',
               'DeprecationWarning': 'Warning'}


class ExcClass(object):
    def __init__(self, name):
        self.name = self.__name__ = name

    def __call__(self, *args):
        return ExcValue(self, args)

    def matches(self, exc_name):
        n = exc_name
        while n is not None:
            if n == self.name:
                return True
            n = EXC_PARENTS.get(n)
        return False

    def __repr__(self):
        return '<exc %s>' % self.name


class ExcValue(object):
    def __init__(self, cls, args):
        self.cls, self.args = cls, args

    def __str__(self):
        return str(self.args[0]) if self.args else ''


class Obj(object):
    """Instance of an analysed class."""

    interp = None        # the interpreter that created the object (set by Interp.instantiate)

    def __init__(self, cls):
        object.__setattr__(self, 'cls', cls)
        object.__setattr__(self, 'attrs', {})

    def __repr__(self):
        return '<%s obj>' % self.cls.name

    def __call__(self, *args, **kwargs):
        if self.interp is None or not self.interp.has_dunder(self, '__call__'):
            raise InterpTypeError("'%s' object is not callable" % self.cls.name)
        return self.interp.call_dunder(self, '__call__', *args, **kwargs)

    # objects meant as keys - dataclasses with eq, classes that define __hash__ - behave as keys in the dicts and sets of the
    # analysed program (which are host dicts and sets); every other object keeps identity semantics, as in python
    def _key_like(self):
        I = self.interp
        if I is None:
            return None
        opts = [c.dataclass_options() for c in self.cls.mro()]
        if any(o is not None and o.get('eq', True) for o in opts) and not I.has_dunder(self, '__eq__'):
            return 'dataclass'
        if I.has_dunder(self, '__hash__') and I.has_dunder(self, '__eq__'):
            return 'dunder'
        return None

    def __eq__(self, other):
        kind = self._key_like()
        if kind is None or not isinstance(other, Obj):
            return self is other
        r = self.interp.compare(ast.Eq(), self, other)
        if not isinstance(r, bool):
            raise AnalysisError('equality of key objects of class %s is not a plain truth value' % self.cls.name)
        return r

    def __ne__(self, other):
        return not self.__eq__(other)

    def __hash__(self):
        kind = self._key_like()
        if kind == 'dunder':
            return int(self.interp.call_dunder(self, '__hash__'))
        if kind == 'dataclass':
            opts = {}
            for c in reversed(self.cls.mro()):
                opts.update(c.dataclass_options() or {})
            if not opts.get('frozen') and not opts.get('unsafe_hash'):
                raise InterpTypeError("unhashable type: '%s'" % self.cls.name)
            return hash(tuple(self.interp.builtins['hash'](self.attrs.get(f[0])) for f in self.cls.dataclass_fields()))
        return id(self) >> 4


class ClassRef(object):
    def __init__(self, interp, cls):
        self.interp, self.cls = interp, cls
        self.attr_cache = {}
        self.dyn = {}            # attributes installed on the class at run time

    def __call__(self, *args, **kwargs):
        return self.interp.instantiate(self.cls, args, kwargs)

    def __repr__(self):
        return '<classref %s>' % self.cls.qualname


class Closure(object):
    def __init__(self, interp, node, module, parent_frame=None, owner=None, name=None):
        self.interp, self.node, self.module = interp, node, module
        self.parent_frame, self.owner = parent_frame, owner
        self.name = name or getattr(node, 'name', '<lambda>')
        self.is_generator = any(isinstance(n, (ast.Yield, ast.YieldFrom)) for n in _walk_own(node))
        self.defaults = None
        # function attributes a decorator may copy (functools.wraps by hand); they do not change how the function is analysed
        self.__name__ = self.name
        self.__doc__ = ast.get_docstring(node) if isinstance(node, ast.FunctionDef) else None
        self.__wrapped__ = None

    @property
    def qualname(self):
        if self.owner is not None:
            return '%s.%s.%s' % (self.module.name, self.owner.name, self.name)
        return '%s.%s' % (self.module.name, self.name)

    def __call__(self, *args, **kwargs):
        return self.interp.call_closure(self, args, kwargs)

    def __get__(self, obj, objtype=None):
        return self

    def __repr__(self):
        return '<closure %s>' % self.qualname


def _walk_own(fn):
    """walk a function body without descending into nested function definitions"""
    stack = list(fn.body) if isinstance(fn.body, list) else [fn.body]
    while stack:
        n = stack.pop()
        yield n
        if isinstance(n, (ast.FunctionDef, ast.AsyncFunctionDef, ast.Lambda, ast.ClassDef)):
            continue            # a definition among the statements of the body: its own body is not this function's
        for c in ast.iter_child_nodes(n):
            if not isinstance(c, (ast.FunctionDef, ast.AsyncFunctionDef, ast.Lambda, ast.ClassDef)):
                stack.append(c)


class PropRef(object):
    """A property reached through the class (Cls.name): callable as its getter, with .fget / .fset."""

    def __init__(self, interp, cls, attr, fget):
        self.interp, self.cls, self.attr, self.fget = interp, cls, attr, fget

    @property
    def fset(self):
        r = self.cls.lookup(self.attr, want_setter=True)
        if r is None:
            return None
        kind, node, owner = r
        if kind == 'setter':
            return self.interp.closure_for(owner.module, node, owner)
        fset = _kw(node.value, 'fset', 1)
        return None if fset is None else self.interp.eval(fset, Frame(owner.module))

    def __call__(self, obj):
        return self.fget(obj)


class BoundMethod(object):
    def __init__(self, func, obj):
        self.func, self.obj = func, obj

    def __call__(self, *args, **kwargs):
        return self.func(self.obj, *args, **kwargs)

    def __repr__(self):
        return '<bound %r of %r>' % (self.func, self.obj)


class SuperProxy(object):
    def __init__(self, interp, obj, after):
        self.interp, self.obj, self.after = interp, obj, after


COVERAGE = None          # set of (module, line) of interpreted statements when tools/coverage.py asks for it


class _ClassBodyEnv(dict):
    """local names of a class body while one of its assignments is evaluated: the members defined before that statement"""

    def __init__(self, interp, cls, stmt):
        dict.__init__(self)
        self.interp, self.cls, self.stmt = interp, cls, stmt

    def _member(self, name):
        entries = self.cls.own_members().get(name) or []
        earlier = [(k, n) for k, n in entries if getattr(n, 'lineno', 0) < self.stmt.lineno]
        return earlier[-1] if earlier else None

    def __contains__(self, name):
        return dict.__contains__(self, name) or self._member(name) is not None

    def __getitem__(self, name):
        if dict.__contains__(self, name):
            return dict.__getitem__(self, name)
        kind, node = self._member(name)
        if kind == 'classattr':
            v = self.interp.class_attr_value(self.cls, node, name)
            return v[1] if isinstance(v, tuple) and len(v) == 2 and v[0] is True else v
        return self.interp.closure_for(self.cls.module, node, self.cls)


class Frame(object):
    def __init__(self, module, parent=None, owner=None, fn=None):
        self.env = {}
        self.module, self.parent, self.owner, self.fn = module, parent, owner, fn
        self.first_arg = None

    def lookup(self, name):
        f = self
        while f is not None:
            if name in f.env:
                return True, f.env[name]
            f = f.parent
        return False, None


class _GlobalOwner(object):
    """Frame-like owner of a name declared `global`: its environment is the namespace of the module."""

    def __init__(self, ns):
        self.env = ns.values


class ModuleNS(object):
    """Lazily evaluated module globals."""

    def __init__(self, interp, module):
        self.interp, self.module = interp, module
        self.values = {}
        self.in_progress = set()

    def get(self, name):
        if name in self.values:
            return True, self.values[name]
        interp, module = self.interp, self.module
        r = module.repo.resolve_global(module, name)
        if r is None:
            return False, None
        if name in self.in_progress:
            raise AnalysisError('circular module level definition of %s' % name)
        self.in_progress.add(name)
        try:
            if r[0] == 'class':
                v = interp.classref(r[1])
            elif r[0] == 'func':
                v = interp.closure_for(r[1], r[2])
            elif r[0] == 'assign':
                mod, st = r[1], r[2]
                if mod is not module:
                    ok, v = interp.ns(mod).get(_assigned_name(st, name, module, mod))
                    if not ok:
                        raise AnalysisError('cannot resolve %s' % name)
                else:
                    fr = Frame(module)
                    interp.run_stmt_sync(st, fr)
                    for k, val in fr.env.items():
                        self.values[k] = val
                    v = self.values[name]
            elif r[0] == 'external':
                v = interp.external(r[1], r[2], module, name)
            else:
                return False, None
        finally:
            self.in_progress.discard(name)
        self.values[name] = v
        return True, v

    def set(self, name, value):
        self.values[name] = value


def _assigned_name(st, name, module, mod):
    # name imported possibly under alias: find original
    imp = module.imports.get(name)
    if imp and imp[1]:
        return imp[1]
    return name


class Interp(object):
    MAX_STEPS = 4000000

    def __init__(self, repo, externals, branch_oracle=None):
        self.repo = repo
        self.externals = externals          # callable (modname, name, module, local) -> value
        self.branch_oracle = branch_oracle
        self._ns, self._classrefs, self._closures = {}, {}, {}
        self.steps = 0
        self.cur = None                      # (module, node) being evaluated
        self.call_trace = None               # list to record calls when enabled
        self.on_enter = None                 # callable(closure, args, kwargs): observer of every call of a package function
        self.on_return = None                # hook(closure, value): called when an analysed function returns
        self.loop_log = None                 # list: one record per finished `for` loop (how it ended, iterations) when enabled
        self.loop_stack = []                 # records of the `for` loops being executed (innermost last)
        self.call_depth = 0
        self.stack = []                      # qualnames of the analysed functions being interpreted
        self.builtins = self._make_builtins()

    # ------------------------------------------------------------------ plumbing
    def ns(self, module):
        if module.name not in self._ns:
            ns = self._ns[module.name] = ModuleNS(self, module)
            if module.toplevel:
                # statements with effects at import time, in source order; names they bind are module globals
                fr = Frame(module)
                fr.env = ns.values
                for st in module.toplevel:
                    self.run_stmt_sync(st, fr)
        return self._ns[module.name]

    def classref(self, cls):
        if cls.qualname not in self._classrefs:
            self._classrefs[cls.qualname] = ClassRef(self, cls)
        return self._classrefs[cls.qualname]

    def closure_for(self, module, node, owner=None):
        key = (module.name, id(node))
        if key not in self._closures:
            clo = Closure(self, node, module, owner=owner)
            self._closures[key] = clo            # (recursive reference from a decorator finds the plain function)
            self._closures[key] = self.apply_decorators(clo, node, Frame(module))
        return self._closures[key]

    def apply_decorators(self, fn, node, fr):
        """decorators other than the descriptor ones (those are resolved by the class model) are evaluated and applied"""
        for d in reversed(getattr(node, 'decorator_list', [])):
            text = ast.unparse(d)
            if text in ('property', 'staticmethod', 'classmethod') or text.endswith(('.setter', '.getter')):
                continue
            if text.split('.')[-1] == 'cached_property' and getattr(fn, 'owner', None) is not None:
                continue              # resolved by the class model (kind 'cachedprop')
            dec = self.eval(d, fr)
            if not callable(dec):
                raise self.err('decorator %s is not callable' % text)
            fn = dec(fn)
        return fn

    def external(self, modname, name, module, local):
        return self.externals(modname, name, module, local)

    def get_global(self, modname, name):
        ok, v = self.ns(self.repo.module(modname)).get(name)
        if not ok:
            raise AnalysisError('anchor vanished: %s.%s' % (modname, name))
        return v

    def where(self):
        if self.cur is None:
            return '?'
        module, node = self.cur
        return module.where(node)

    def err(self, msg):
        return AnalysisError('%s [at %s]' % (msg, self.where()))

    # ------------------------------------------------------------------ objects
    def exception_name(self, cls):
        """name under which instances of a class of the package are raised, when it derives from a builtin exception"""
        for c in cls.mro():
            for b in c.node.bases:
                nm = b.id if isinstance(b, ast.Name) else None
                if nm in EXC_PARENTS or nm in ('Exception', 'BaseException'):
                    EXC_PARENTS.setdefault(cls.name, nm if c is cls else c.name)
                    if c is not cls:
                        EXC_PARENTS.setdefault(c.name, nm)
                    return cls.name
        return None

    def external_bases(self, cls):
        """values of the base classes of cls (and of its bases in the package) that are not classes of the package"""
        out = []
        for c in cls.mro():
            for b in c.node.bases:
                if isinstance(b, ast.Name) and (b.id == 'object' or c.module.repo.resolve_class(c.module, b.id) is not None):
                    continue
                out.append(self.eval(b, Frame(c.module)))
        return out

    def instantiate(self, cls, args, kwargs):
        if self.exception_name(cls) is not None and cls.lookup('__init__') is None:
            return ExcValue(ExcClass(cls.name), tuple(args))
        ext = [b for b in self.external_bases(cls) if not isinstance(b, ExcClass)]
        nt = None
        if ext:
            import typing as _typing
            if len(ext) == 1 and ext[0] is _typing.NamedTuple and cls.lookup('__init__') is None and cls.lookup('__new__') is None:
                # class X(typing.NamedTuple): the annotated names of the class body are the fields, their values the defaults
                nt = getattr(cls, '_typed_record', None)
                if nt is None:
                    import collections as _collections
                    names, defaults = [], []
                    for st in cls.node.body:
                        if isinstance(st, ast.AnnAssign) and isinstance(st.target, ast.Name):
                            if st.value is not None:
                                defaults.append(self.eval(st.value, Frame(cls.module)))
                            elif defaults:
                                raise InterpTypeError('Non-default namedtuple field %s cannot follow default fields' % st.target.id)
                            names.append(st.target.id)
                    nt = _collections.namedtuple(cls.name, names, defaults=defaults or None)
                    cls._typed_record = nt
            elif len(ext) == 1 and isinstance(ext[0], type) and issubclass(ext[0], tuple) and hasattr(ext[0], '_fields') \
                    and cls.lookup('__init__') is None and cls.lookup('__new__') is None:
                nt = ext[0]           # class X(namedtuple(..)): a record with methods
            else:
                raise self.err('instances of %s, a class with the external base %r' % (cls.name, ext[0]))
        obj = Obj(cls)
        object.__setattr__(obj, 'interp', self)
        if nt is not None:
            try:
                val = nt(*args, **kwargs)
            except TypeError as exc:
                raise InterpTypeError(str(exc))
            object.__setattr__(obj, 'record', val)
            for k, v in zip(nt._fields, val):
                obj.attrs[k] = v
            return obj
        r = cls.lookup('__init__')
        fields = cls.dataclass_fields()
        if r is not None:
            kind, node, owner = r
            fn = self.closure_for(owner.module, node, owner)
            fn(obj, *args, **kwargs)
        elif fields is not None:
            self.dataclass_init(obj, cls, fields, args, kwargs)
        elif args or kwargs:
            raise InterpTypeError('%s() takes no arguments' % cls.name)
        return obj

    def dataclass_init(self, obj, cls, fields, args, kwargs):
        """the __init__ a @dataclass generates: positional by field order, keywords by name, defaults / default factories,
        then __post_init__"""
        from .libmodels import DataclassField
        if len(args) > len(fields):
            raise InterpTypeError('%s.__init__() takes %d positional arguments but %d were given' % (cls.name, len(fields) + 1, len(args) + 1))
        kwargs = dict(kwargs)
        for i, (name, default, owner) in enumerate(fields):
            spec = None
            if default is not None:
                fr = Frame(owner.module)
                spec = self.eval(default, fr)
            if isinstance(spec, DataclassField) and not spec.init:
                if name in kwargs:
                    raise InterpTypeError("%s.__init__() got an unexpected keyword argument '%s'" % (cls.name, name))
                val = spec.make(self, cls, name)
            elif i < len(args):
                if name in kwargs:
                    raise InterpTypeError("%s.__init__() got multiple values for argument '%s'" % (cls.name, name))
                val = args[i]
            elif name in kwargs:
                val = kwargs.pop(name)
            elif isinstance(spec, DataclassField):
                val = spec.make(self, cls, name)
            elif default is not None:
                val = spec
            else:
                raise InterpTypeError("%s.__init__() missing 1 required positional argument: '%s'" % (cls.name, name))
            obj.attrs[name] = val
        if kwargs:
            raise InterpTypeError("%s.__init__() got an unexpected keyword argument '%s'" % (cls.name, sorted(kwargs)[0]))
        if cls.lookup('__post_init__') is not None:
            self.getattr(obj, '__post_init__')()

    def class_attr_value(self, owner, node, name):
        """Evaluate (once) the right hand side of a class level assignment."""
        cref = self.classref(owner)
        if name in cref.attr_cache:
            return cref.attr_cache[name]
        val = node.value
        # alias of another member of the same class body (e.g. __radd__ = __add__)
        if isinstance(val, ast.Name) and val.id in owner.own_members():
            v = self.get_class_member(owner, val.id, via_instance=None, raw=True)
        else:
            # the right hand side sees the names bound earlier in the class body (x, y = _f, _g and the like)
            fr = Frame(owner.module)
            fr.env = _ClassBodyEnv(self, owner, node)
            v = self.eval(val, fr)
            if isinstance(node.targets[0], ast.Tuple):
                names = [t.id for t in node.targets[0].elts]
                v = list(v)[names.index(name)]
                if isinstance(v, tuple) and len(v) == 2 and v[0] is True:
                    v = v[1]
        cref.attr_cache[name] = v
        return v

    def get_class_member(self, cls, attr, via_instance, raw=False, after=None):
        """Python attribute lookup on the class (via_instance: the Obj, or None for class access)."""
        # attributes installed at run time (setattr(cls, name, value), cls.name = value): found on the first class of the
        # MRO that has one, before the class body definitions of that class and of the classes behind it
        mro = cls.mro()
        if after is not None:
            mro = mro[mro.index(after) + 1:]
        for c in mro:
            dyn = self.classref(c).dyn
            if attr in dyn:
                v = dyn[attr]
                if isinstance(v, staticmethod):
                    return True, v.__func__
                if isinstance(v, classmethod):
                    return True, BoundMethod(v.__func__, self.classref(cls))
                if isinstance(v, Closure) and via_instance is not None and not raw:
                    return True, BoundMethod(v, via_instance)
                if isinstance(v, property) and via_instance is not None:
                    return True, v.fget(via_instance)
                return True, v
            if attr in c.own_members():
                break
        r = cls.lookup(attr, after=after)
        if r is None:
            return False, None
        kind, node, owner = r
        if kind in ('property', 'getter'):
            fn = self.closure_for(owner.module, node, owner)
            if via_instance is None:
                return True, PropRef(self, cls, attr, fn)
            return True, fn(via_instance)
        if kind == 'propcall':
            fget = _kw(node.value, 'fget', 0)
            fn = self.eval(fget, Frame(owner.module))
            if via_instance is None:
                return True, PropRef(self, cls, attr, fn)
            return True, fn(via_instance)
        if kind == 'cachedprop':
            # functools.cached_property: computed at the first read and kept in the instance dictionary from then on
            # (getattr finds it there before it comes here again)
            fn = self.closure_for(owner.module, node, owner)
            if via_instance is None:
                return True, fn
            val = fn(via_instance)
            via_instance.attrs[attr] = val
            return True, val
        if kind in ('method',):
            fn = self.closure_for(owner.module, node, owner)
            if via_instance is None or raw:
                return True, fn
            return True, BoundMethod(fn, via_instance)
        if kind == 'static':
            return True, self.closure_for(owner.module, node, owner)
        if kind == 'classmethod':
            fn = self.closure_for(owner.module, node, owner)
            return True, BoundMethod(fn, self.classref(cls))
        if kind == 'classattr':
            v = self.class_attr_value(owner, node, attr)
            if isinstance(v, tuple) and len(v) == 2 and v[0] is True and raw:
                return v
            if isinstance(v, tuple) and len(v) == 2 and v[0] is True:
                v = v[1]
            if isinstance(v, staticmethod):
                return True, v.__func__
            if isinstance(v, classmethod):
                return True, BoundMethod(v.__func__, self.classref(cls))
            if isinstance(v, Closure) and via_instance is not None and _is_plain_method(v):
                # any function object found on the class is bound to the instance (the descriptor protocol does not ask where
                # the function was defined: a method made by a factory, a lambda, a module level function stored on the class)
                return True, BoundMethod(v, via_instance)
            if isinstance(v, property) and via_instance is not None:
                # a property object built by a call (a factory of properties): the descriptor protocol applies
                if v.fget is None:
                    raise InterpRaise('unreadable attribute %s' % attr, 'AttributeError')
                return True, v.fget(via_instance)
            return True, v
        raise self.err('unknown member kind %s' % kind)

    def _dynamic_property(self, r, attr):
        """the property object a class attribute evaluates to (name = make_property(..)), else None"""
        kind, node, owner = r
        if not isinstance(node, ast.Assign) or not isinstance(node.value, ast.Call):
            return None
        v = self.class_attr_value(owner, node, attr)
        if isinstance(v, tuple) and len(v) == 2 and v[0] is True:
            v = v[1]
        return v if isinstance(v, property) else None

    def getattr(self, obj, attr):
        if isinstance(obj, Obj):
            r = obj.cls.lookup(attr)
            if r is not None and r[0] in ('property', 'propcall', 'getter'):
                return self.get_class_member(obj.cls, attr, obj)[1]
            if r is not None and r[0] == 'classattr' and self._dynamic_property(r, attr) is not None:
                return self.get_class_member(obj.cls, attr, obj)[1]
            if attr in obj.attrs:
                if self.on_getattr is not None:
                    self.on_getattr(obj, attr)
                return obj.attrs[attr]
            ok, v = self.get_class_member(obj.cls, attr, obj)
            if ok:
                return v
            if attr == '__class__':
                return self.classref(obj.cls)
            if attr == '__dict__':
                return obj.attrs
            rec = getattr(obj, 'record', None)
            if rec is not None:
                if attr == '_fields':
                    return rec._fields
                if attr == '_asdict':
                    return lambda: dict(rec._asdict())
                if attr == '_replace':
                    return lambda **kw: self.instantiate(obj.cls, (), dict(rec._asdict(), **kw))
            if not self.stack:
                # asked for by a rule, not by the analysed program: the rule's anchor is gone
                raise AnalysisError('anchor vanished: attribute %s of a %s object' % (attr, obj.cls.name))
            raise InterpRaise("'%s' object has no attribute '%s'" % (obj.cls.name, attr), 'AttributeError')
        if isinstance(obj, ClassRef):
            if attr == '__name__':
                return obj.cls.name
            ok, v = self.get_class_member(obj.cls, attr, None)
            if ok:
                return v
            if not self.stack:
                raise AnalysisError('anchor vanished: attribute %s of class %s' % (attr, obj.cls.name))
            raise InterpRaise("type object '%s' has no attribute '%s'" % (obj.cls.name, attr), 'AttributeError')
        if isinstance(obj, SuperProxy):
            ok, v = self.get_class_member(obj.obj.cls, attr, obj.obj, after=obj.after)
            if ok:
                return v
            if attr == '__init__':
                return lambda *a, **k: None
            raise InterpRaise("'super' object has no attribute '%s'" % attr, 'AttributeError')
        if attr in _NDARRAY_ATTRS and (isinstance(obj, (int, Fr, Poly, Rat, Choice)) or hasattr(obj, 'is_elem_')):
            # numpy scalars behave like 0-d arrays
            res = getattr(Arr((), [obj]), attr)
            import types
            if isinstance(res, (types.MethodType, types.FunctionType)):
                return _unwrap0(res)
            return res.item() if isinstance(res, Arr) and res.ndim == 0 else res
        try:
            return getattr(obj, attr)
        except AttributeError:
            if isinstance(obj, (Closure, BoundMethod)) and not attr.startswith('__'):
                # a function object without that attribute (attributes are set by decorators): an AttributeError of the program
                raise InterpRaise("'function' object has no attribute '%s'" % attr, 'AttributeError')
            if isinstance(obj, Arr) or hasattr(obj, 'is_elem_') or isinstance(obj, (Poly, Rat, Fr)) or \
                    type(obj).__module__.startswith('ndverif') or \
                    (callable(obj) and str(getattr(obj, '__module__', '')).startswith('ndverif')):
                # a real ndarray / numpy scalar may well have it: the summary is missing, not the attribute (the same holds
                # for every stand-in object of the analysis itself: a masked selection, a data dependent index set, ...)
                raise AnalysisError('attribute %r of %s is not modelled [at %s]' % (attr, type(obj).__name__, self.where()))
            raise InterpRaise("'%s' object has no attribute '%s'" % (type(obj).__name__, attr), 'AttributeError')

    def setattr(self, obj, attr, value):
        if isinstance(obj, ClassRef):
            obj.dyn[attr] = value
            return
        if isinstance(obj, Obj):
            if any((c.dataclass_options() or {}).get('frozen') for c in obj.cls.mro()):
                raise InterpRaise("cannot assign to field '%s'" % attr, 'AttributeError')
            r = obj.cls.lookup(attr, want_setter=True)
            if r is not None:
                kind, node, owner = r
                if kind == 'setter':
                    self.closure_for(owner.module, node, owner)(obj, value)
                    return
                if kind == 'propcall':
                    fset = _kw(node.value, 'fset', 1)
                    if fset is None:
                        raise InterpRaise("can't set attribute", 'AttributeError')
                    self.eval(fset, Frame(owner.module))(obj, value)
                    return
            g = obj.cls.lookup(attr)
            if g is not None and g[0] in ('property', 'propcall', 'getter'):
                raise InterpRaise("can't set attribute '%s'" % attr, 'AttributeError')
            if g is not None and g[0] == 'classattr':
                dyn = self._dynamic_property(g, attr)
                if dyn is not None:
                    if dyn.fset is None:
                        raise InterpRaise("can't set attribute '%s'" % attr, 'AttributeError')
                    dyn.fset(obj, value)
                    return
            if self.on_setattr is not None:
                self.on_setattr(obj, attr, value)
            obj.attrs[attr] = value
            return
        if isinstance(obj, ClassRef):
            if self.on_setattr is not None:
                self.on_setattr(obj, attr, value)
            obj.attr_cache[attr] = value
            return
        if isinstance(obj, Arr) and attr in ('real', 'imag'):
            # a.real = v / a.imag = v: the other part of every element stays
            from . import libmodels
            m = libmodels.CURRENT
            if m is None:
                raise self.err('a.%s = .. without a model object' % attr)
            obj._check_writeable()
            vals = ndarr.broadcast_to(value, obj.shape).items() if isinstance(value, Arr) else [value] * obj.size
            unit = Poly.const(Z8.I)
            for pos, new in zip(obj.pos, vals):
                old = obj.buf.data[pos]
                fresh = (isinstance(old, (int, Fr)) and old == 0) or type(old).__name__ == '_Uninit'     # np.zeros / np.empty: nothing to keep
                re = new if attr == 'real' else (0 if fresh else m.scalar_fn('real', old))
                im = new if attr == 'imag' else (0 if fresh else m.scalar_fn('imag', old))
                obj.buf.data[pos] = ndarr.s_add(re, ndarr.s_mul(unit, im)) if not (isinstance(im, (int, Fr)) and im == 0) else re
                obj.buf.writes.append((pos, None))
            return
        try:
            setattr(obj, attr, value)
        except AttributeError:
            raise self.err('cannot set attribute %s on %r' % (attr, type(obj).__name__))

    on_setattr = None
    on_getattr = None        # instance attribute reads (not methods / properties)

    def has_dunder(self, obj, name):
        return isinstance(obj, Obj) and (obj.cls.lookup(name) is not None or
                                         any(name in self.classref(c).dyn for c in obj.cls.mro()))

    def call_dunder(self, obj, name, *args, **kwargs):
        return self.getattr(obj, name)(*args, **kwargs)

    # ------------------------------------------------------------------ calls
    def call_closure(self, clo, args, kwargs):
        node = clo.node
        self.call_depth += 1
        if self.call_depth > 120:
            raise AnalysisError('call depth exceeded in %s' % clo.qualname)
        self.stack.append(clo.qualname)
        try:
            fr = Frame(clo.module, parent=clo.parent_frame, owner=clo.owner, fn=clo)
            self.bind_args(clo, node.args, args, kwargs, fr)
            if self.call_trace is not None:
                self.call_trace.append(('enter', clo.qualname, self.cur))
            if self.on_enter is not None:
                self.on_enter(clo, args, kwargs)       # every call of a function of the package, however it was reached
            if isinstance(node, ast.Lambda):
                return self.eval(node.body, fr)
            if clo.is_generator:
                return self._gen_driver(clo, fr)
            saved = self.cur
            rv = None
            try:
                for _ in self.exec_block(node.body, fr):
                    raise self.err('yield outside generator')
            except _Return as r:
                rv = r.value
            finally:
                self.cur = saved
            if self.on_return is not None:
                self.on_return(clo, rv)
            return rv
        finally:
            self.call_depth -= 1
            self.stack.pop()

    def _gen_driver(self, clo, fr):
        gen = self.exec_block(clo.node.body, fr)
        while True:
            self.stack.append(clo.qualname)
            try:
                v = next(gen)
            except StopIteration:
                return
            except _Return:
                return
            finally:
                self.stack.pop()
            yield v

    def eval_defaults(self, clo, fr):
        """default values of a nested function / lambda are evaluated when it is defined (`lambda x, k=k: ..` in a loop)"""
        a = clo.node.args
        clo.defaults = ([self.eval(d, fr) for d in a.defaults],
                        [self.eval(d, fr) if d is not None else _NODEFAULT for d in a.kw_defaults])

    @staticmethod
    def bind_name(fr, name, val):
        owner = getattr(fr, 'nonlocals', {}).get(name)
        (owner if owner is not None else fr).env[name] = val

    def bind_args(self, clo, a, args, kwargs, fr):
        if clo.defaults is None:
            # (module level functions and methods: evaluated at the first call; module globals do not change under them)
            dfr = Frame(clo.module, parent=clo.parent_frame)
            if clo.owner is not None and clo.parent_frame is None and hasattr(clo.node, 'lineno'):
                # defaults of a method are evaluated in the class body: they see the class level names bound before the def
                dfr.env = _ClassBodyEnv(self, clo.owner, clo.node)
            clo.defaults = ([self.eval(d, dfr) for d in a.defaults],
                            [self.eval(d, dfr) if d is not None else _NODEFAULT for d in a.kw_defaults])
        defaults, kw_defaults = clo.defaults
        params = [p.arg for p in a.posonlyargs + a.args]
        env = fr.env
        args = list(args)
        kwargs = dict(kwargs)
        n = len(params)
        for i, p in enumerate(params):
            if i < len(args):
                if p in kwargs:
                    raise InterpTypeError('%s() got multiple values for argument %r' % (clo.name, p))
                env[p] = args[i]
            elif p in kwargs:
                env[p] = kwargs.pop(p)
            else:
                di = i - (n - len(defaults))
                if di < 0:
                    raise InterpTypeError('%s() missing required argument %r' % (clo.name, p))
                env[p] = defaults[di]
        if a.vararg is not None:
            env[a.vararg.arg] = tuple(args[n:])
        elif len(args) > n:
            raise InterpTypeError('%s() takes %d positional arguments but %d were given'
                                  % (clo.name, n, len(args)))
        for p, d in zip(a.kwonlyargs, kw_defaults):
            if p.arg in kwargs:
                env[p.arg] = kwargs.pop(p.arg)
            elif d is not _NODEFAULT:
                env[p.arg] = d
            else:
                raise InterpTypeError('%s() missing keyword-only argument %r' % (clo.name, p.arg))
        if a.kwarg is not None:
            env[a.kwarg.arg] = kwargs
        elif kwargs:
            raise InterpTypeError('%s() got an unexpected keyword argument %r' % (clo.name, sorted(kwargs)[0]))
        if params:
            fr.first_arg = env[params[0]]

    def call(self, fn, args, kwargs, node=None):
        if self.call_trace is not None and not isinstance(fn, (Closure, BoundMethod, ClassRef)):
            self.call_trace.append(('lib', getattr(fn, '__name__', repr(fn)), self.cur))
        if isinstance(fn, Obj):
            if self.has_dunder(fn, '__call__'):
                return self.call_dunder(fn, '__call__', *args, **kwargs)
            raise InterpTypeError("'%s' object is not callable" % fn.cls.name)
        if not callable(fn) or isinstance(fn, (Poly, Rat)):
            raise InterpTypeError("'%s' object is not callable" % type(fn).__name__)
        try:
            return fn(*args, **kwargs)
        except (KeyError, IndexError, ZeroDivisionError) as exc:
            if isinstance(exc, InterpRaise):
                raise
            raise InterpRaise(str(exc), type(exc).__name__)
        except AlgebraError as exc:
            raise self.err('algebra: %s' % exc)

    # ------------------------------------------------------------------ statements
    def run_stmt_sync(self, st, fr):
        for _ in self.exec_stmt(st, fr):
            raise self.err('yield at module level')

    def exec_block(self, stmts, fr):
        for st in stmts:
            yield from self.exec_stmt(st, fr)

    def tick(self, node, fr):
        self.steps += 1
        if self.steps > self.MAX_STEPS:
            raise AnalysisError('step budget exceeded (possible non-terminating loop) at %s' % fr.module.where(node))
        self.cur = (fr.module, node)
        if COVERAGE is not None:
            COVERAGE.add((fr.module.name, getattr(node, 'lineno', 0)))

    def exec_stmt(self, st, fr):
        self.tick(st, fr)
        T = type(st)
        if T is ast.Expr:
            v = st.value
            if isinstance(v, ast.Constant):
                return
            if isinstance(v, ast.Yield):
                yield (self.eval(v.value, fr) if v.value is not None else None)
                return
            if isinstance(v, ast.YieldFrom):
                for x in self.iterate(self.eval(v.value, fr)):
                    yield x
                return
            self.eval(v, fr)
            return
        if T is ast.Assign:
            val = self.eval(st.value, fr)
            for t in st.targets:
                self.assign(t, val, fr)
            return
        if T is ast.AugAssign:
            self.aug_assign(st, fr)
            return
        if T is ast.AnnAssign:
            if st.value is not None:
                self.assign(st.target, self.eval(st.value, fr), fr)
            return
        if T is ast.Return:
            raise _Return(self.eval(st.value, fr) if st.value is not None else None)
        if T is ast.If:
            if not st.orelse and len(st.body) == 1 and isinstance(st.body[0], ast.Assign) and len(st.body[0].targets) == 1 and \
                    isinstance(st.body[0].targets[0], (ast.Name, ast.Attribute)):
                # `if a > b: b = a` is b = max(a, b): the statement form of the selection idiom
                asg = st.body[0]
                kept = ast.copy_location(ast.parse(ast.unparse(asg.targets[0]), mode='eval').body, asg.targets[0])
                sel = self._selection_idiom(ast.IfExp(test=st.test, body=asg.value, orelse=kept), fr)
                if sel is not None:
                    self.assign(asg.targets[0], sel, fr)
                    return
            c = self.truth(self.eval(st.test, fr), st.test, fr)
            yield from self.exec_block(st.body if c else st.orelse, fr)
            return
        if T is ast.For:
            it = self.iterate(self.eval(st.iter, fr))
            broke = False
            rec = None
            if self.loop_log is not None:
                rec = {'node': st, 'where': fr.module.where(st), 'iterations': 0, 'exit': 'left early (return / exception)'}
                self.loop_stack.append(rec)
            try:
                for item in it:
                    self.tick(st, fr)
                    if rec is not None:
                        rec['iterations'] += 1
                    self.assign(st.target, item, fr)
                    try:
                        yield from self.exec_block(st.body, fr)
                    except _Break:
                        broke = True
                        break
                    except _Continue:
                        continue
                if rec is not None:
                    rec['exit'] = 'break' if broke else 'exhausted'
            finally:
                if rec is not None:
                    self.loop_stack.pop()
                    self.loop_log.append(rec)
            if not broke and st.orelse:
                yield from self.exec_block(st.orelse, fr)
            return
        if T is ast.While:
            broke = False
            while self.truth(self.eval(st.test, fr), st.test, fr):
                self.tick(st, fr)
                try:
                    yield from self.exec_block(st.body, fr)
                except _Break:
                    broke = True
                    break
                except _Continue:
                    continue
            if not broke and st.orelse:
                yield from self.exec_block(st.orelse, fr)
            return
        if T is ast.Break:
            raise _Break()
        if T is ast.Continue:
            raise _Continue()
        if T is ast.Pass:
            return
        if T is ast.FunctionDef:
            clo = Closure(self, st, fr.module, parent_frame=fr, owner=None)
            self.eval_defaults(clo, fr)
            self.bind_name(fr, st.name, self.apply_decorators(clo, st, fr))
            return
        if T is ast.With:
            entered = []
            try:
                for item in st.items:
                    ctx = self.eval(item.context_expr, fr)
                    if isinstance(ctx, Obj):
                        raise self.err('with statement on an object of the package')
                    val = ctx
                    if hasattr(ctx, '__enter__'):
                        val = ctx.__enter__()
                        entered.append(ctx)
                    if item.optional_vars is not None:
                        self.assign(item.optional_vars, val, fr)
                yield from self.exec_block(st.body, fr)
            finally:
                for ctx in reversed(entered):
                    ctx.__exit__(None, None, None)
            return
        if T is ast.Raise:
            if st.exc is None:
                raise self.err('bare raise')
            v = self.eval(st.exc, fr)
            if isinstance(v, ExcClass):
                v = v()
            if not isinstance(v, ExcValue):
                raise self.err('raise of non exception %r' % (v,))
            raise InterpRaise(str(v), v.cls.name, v)
        if T is ast.Try:
            # the finally block runs however the rest is left: normally, by an exception of the program (also one raised
            # inside a handler), by return / break / continue
            try:
                try:
                    yield from self.exec_block(st.body, fr)
                except InterpRaise as exc:
                    for h in st.handlers:
                        if self.handler_matches(h, exc, fr):
                            if h.name:
                                fr.env[h.name] = exc.value if exc.value is not None else ExcValue(ExcClass(exc.exc_name), (exc.msg,))
                            if self.on_except is not None:
                                self.on_except(h, exc, fr)
                            yield from self.exec_block(h.body, fr)
                            break
                    else:
                        raise
                else:
                    if st.orelse:
                        yield from self.exec_block(st.orelse, fr)
            except (InterpRaise, _Return, _Break, _Continue):
                if st.finalbody:
                    yield from self.exec_block(st.finalbody, fr)
                raise
            if st.finalbody:
                yield from self.exec_block(st.finalbody, fr)
            return
        if T in (ast.Import, ast.ImportFrom):
            for a in st.names:
                local = a.asname or a.name.split('.')[0]
                modname = st.module if T is ast.ImportFrom else a.name
                name = a.name if T is ast.ImportFrom else None
                fr.env[local] = self.import_value(modname, name, fr.module, local)
            return
        if T is ast.Assert:
            c = self.truth(self.eval(st.test, fr), st.test, fr)
            if not c:
                raise InterpRaise(str(self.eval(st.msg, fr)) if st.msg is not None else '', 'AssertionError')
            return
        if T is ast.Delete:
            for t in st.targets:
                if isinstance(t, ast.Name):
                    fr.env.pop(t.id, None)
                elif isinstance(t, ast.Subscript):
                    base = self.eval(t.value, fr)
                    if not isinstance(base, (list, dict)):
                        raise self.err('del of an item of %s' % type(base).__name__)
                    del base[self.eval_index(t.slice, fr)]
                elif isinstance(t, ast.Attribute):
                    base = self.eval(t.value, fr)
                    if not isinstance(base, Obj) or t.attr not in base.attrs:
                        raise self.err('del of attribute %s' % t.attr)
                    del base.attrs[t.attr]
                else:
                    raise self.err('unsupported del')
            return
        if T is ast.Nonlocal:
            # rebinding a variable of an enclosing function: alias the name to the frame that owns it
            for name in st.names:
                f = fr.parent
                while f is not None and name not in f.env:
                    f = f.parent
                if f is None:
                    raise self.err('nonlocal %s: no binding found' % name)
                fr.nonlocals = getattr(fr, 'nonlocals', {})
                fr.nonlocals[name] = f
            return
        if T is ast.Global:
            # the name is bound in (and read from) the namespace of the module
            ns = self.ns(fr.module)
            for name in st.names:
                fr.nonlocals = getattr(fr, 'nonlocals', {})
                fr.nonlocals[name] = _GlobalOwner(ns)
            return
        if T is ast.Match:
            subject = self.eval(st.subject, fr)
            for case in st.cases:
                binds = {}
                if self.match_pattern(case.pattern, subject, binds, fr):
                    for k_, v_ in binds.items():
                        self.bind_name(fr, k_, v_)
                    if case.guard is not None and not self.truth(self.eval(case.guard, fr), case.guard, fr):
                        continue
                    yield from self.exec_block(case.body, fr)
                    return
            return
        raise self.err('unsupported statement %s' % T.__name__)

    def match_pattern(self, p, subject, binds, fr):
        """Structural pattern matching (PEP 634) on concrete python values and objects of the package."""
        T = type(p)
        if T is ast.MatchValue:
            want = self.eval(p.value, fr)
            plain = (int, float, complex, str, bytes, tuple, list, dict, Fr, type(None), bool)
            if isinstance(subject, plain) and isinstance(want, plain):
                return subject == want
            r = self.compare(ast.Eq(), subject, want)
            return bool(self.truth(r, p.value, fr))
        if T is ast.MatchSingleton:
            return subject is p.value
        if T is ast.MatchAs:
            if p.pattern is not None and not self.match_pattern(p.pattern, subject, binds, fr):
                return False
            if p.name is not None:
                binds[p.name] = subject
            return True
        if T is ast.MatchOr:
            for alt in p.patterns:
                b = {}
                if self.match_pattern(alt, subject, b, fr):
                    binds.update(b)
                    return True
            return False
        if T is ast.MatchSequence:
            if isinstance(subject, Obj) and getattr(subject, 'record', None) is not None:
                subject = subject.record
            if not isinstance(subject, (list, tuple)):
                if isinstance(subject, (Arr, Obj)):
                    raise self.err('sequence pattern against %s' % type(subject).__name__)
                return False
            star = [i for i, q in enumerate(p.patterns) if isinstance(q, ast.MatchStar)]
            vals = list(subject)
            if star:
                k = star[0]
                after = len(p.patterns) - k - 1
                if len(vals) < len(p.patterns) - 1:
                    return False
                parts = vals[:k] + [vals[k:len(vals) - after]] + vals[len(vals) - after:]
            else:
                if len(vals) != len(p.patterns):
                    return False
                parts = vals
            for q, v in zip(p.patterns, parts):
                if isinstance(q, ast.MatchStar):
                    if q.name is not None:
                        binds[q.name] = list(v)
                elif not self.match_pattern(q, v, binds, fr):
                    return False
            return True
        if T is ast.MatchMapping:
            if not isinstance(subject, dict):
                return False
            used = []
            for k, q in zip(p.keys, p.patterns):
                key = self.eval(k, fr)
                if key not in subject:
                    return False
                used.append(key)
                if not self.match_pattern(q, subject[key], binds, fr):
                    return False
            if p.rest is not None:
                binds[p.rest] = {k: v for k, v in subject.items() if k not in used}
            return True
        if T is ast.MatchClass:
            cls = self.eval(p.cls, fr)
            if not self.truth(self.builtins['isinstance'](subject, cls), p.cls, fr):
                return False
            if p.patterns:
                if isinstance(cls, ClassRef):
                    try:
                        names = self.getattr(cls, '__match_args__')
                    except InterpRaise:
                        raise InterpTypeError('%s() accepts 0 positional sub-patterns' % cls.cls.name)
                    if len(p.patterns) > len(names):
                        raise InterpTypeError('%s() accepts %d positional sub-patterns' % (cls.cls.name, len(names)))
                    for q, name in zip(p.patterns, names):
                        if not self.match_pattern(q, self.getattr(subject, name), binds, fr):
                            return False
                else:
                    # builtin types match the subject itself with their single positional sub-pattern
                    if len(p.patterns) != 1 or not self.match_pattern(p.patterns[0], subject, binds, fr):
                        return False
            for name, q in zip(p.kwd_attrs, p.kwd_patterns):
                try:
                    v = self.getattr(subject, name)
                except InterpRaise:
                    return False
                if not self.match_pattern(q, v, binds, fr):
                    return False
            return True
        raise self.err('unsupported pattern %s' % T.__name__)

    on_except = None

    def import_value(self, modname, name, module, local):
        if modname and modname.startswith('numdifftools.'):
            sub = modname.split('.', 1)[1]
            if sub in self.repo.modules:
                ok, v = self.ns(self.repo.modules[sub]).get(name)
                if ok:
                    return v
        return self.external(modname, name, module, local)

    def handler_matches(self, h, exc, fr):
        if h.type is None:
            return True
        t = self.eval(h.type, fr)
        ts = t if isinstance(t, tuple) else (t,)
        ts = tuple(ExcClass(x.cls.name) if isinstance(x, ClassRef) and self.exception_name(x.cls) is not None else x for x in ts)
        return any(isinstance(x, ExcClass) and x.matches(exc.exc_name) for x in ts)

    def truth(self, v, node, fr):
        if isinstance(v, Unk) or (isinstance(v, Arr) and v.size == 1 and isinstance(v.item(), Unk)):
            if self.branch_oracle is not None:
                r = self.branch_oracle(self, node, fr, v)
                if r is not None:
                    return r
            raise AnalysisError('branch on undetermined value `%s` at %s (%r)'
                                % (ast.unparse(node), fr.module.where(node), v))
        if isinstance(v, Obj):
            if self.has_dunder(v, '__bool__'):
                return self.truth(self.call_dunder(v, '__bool__'), node, fr)
            if self.has_dunder(v, '__len__'):
                return self.call_dunder(v, '__len__') != 0
            return True
        if isinstance(v, (Poly, Rat)):
            if isinstance(v, Poly) and v.is_const():
                return not v.is_zero()
            r = ndarr.s_cmp('!=', v, 0)          # sign information / an ordering hypothesis may settle it
            if r is True or r is False:
                return r
            if self.branch_oracle is not None:
                r = self.branch_oracle(self, node, fr, v)
                if r is not None:
                    return r
            raise AnalysisError('branch on symbolic number `%s` at %s' % (ast.unparse(node), fr.module.where(node)))
        if isinstance(v, Choice):
            raise AnalysisError('branch on symbolic choice `%s` at %s' % (ast.unparse(node), fr.module.where(node)))
        return bool(v)

    def assign(self, t, val, fr):
        if isinstance(t, ast.Name):
            self.bind_name(fr, t.id, val)
        elif isinstance(t, (ast.Tuple, ast.List)):
            vals = list(self.iterate(val))
            star = [i for i, e in enumerate(t.elts) if isinstance(e, ast.Starred)]
            if star:
                k = star[0]
                after = len(t.elts) - k - 1
                if len(vals) < len(t.elts) - 1:
                    raise InterpValueError('not enough values to unpack')
                parts = vals[:k] + [vals[k:len(vals) - after]] + vals[len(vals) - after:]
                for e, v in zip(t.elts, parts):
                    self.assign(e.value if isinstance(e, ast.Starred) else e, v, fr)
                return
            if len(vals) != len(t.elts):
                raise InterpValueError('too many/few values to unpack (expected %d, got %d)' % (len(t.elts), len(vals)))
            for e, v in zip(t.elts, vals):
                self.assign(e, v, fr)
        elif isinstance(t, ast.Attribute):
            self.setattr(self.eval(t.value, fr), t.attr, val)
        elif isinstance(t, ast.Subscript):
            base = self.eval(t.value, fr)
            idx = self.eval_index(t.slice, fr)
            self.setitem(base, idx, val)
        else:
            raise self.err('unsupported assignment target')

    def setitem(self, base, idx, val):
        if isinstance(base, Obj):
            self.call_dunder(base, '__setitem__', idx, val)
            return
        if isinstance(base, Arr):
            base._where = self.where()
            if self.on_store is not None:
                self.on_store(base, idx, val)
        if isinstance(base, dict) and self.on_dict_store is not None:
            self.on_dict_store(base, idx, val)
        try:
            base[idx] = val
        except (IndexError, KeyError, TypeError) as exc:
            if isinstance(exc, InterpRaise):
                raise
            if isinstance(exc, TypeError) and type(base).__module__.startswith('ndverif') and not isinstance(base, Arr):
                # a stand-in object of the analysis that lacks item assignment: a gap of the model, not a behaviour
                raise AnalysisError('item assignment on %s is not modelled [at %s]' % (type(base).__name__, self.where()))
            raise InterpRaise(str(exc), type(exc).__name__)

    def _selection_idiom(self, n, fr):
        """`a if a > b else b` (and its three siblings) of two symbolic numbers is max(a, b) / min(a, b) - the value python's
        max / min return for these operands - and not a decision of the program: evaluated as the same canonical atom as
        the call.  Anything else (other operands, impure operands, concrete numbers) -> None, the ordinary evaluation."""
        t = n.test
        if not (isinstance(t, ast.Compare) and len(t.ops) == 1 and isinstance(t.ops[0], (ast.Gt, ast.GtE, ast.Lt, ast.LtE))):
            return None
        parts = (t.left, t.comparators[0], n.body, n.orelse)
        for p in parts:
            q = p
            while isinstance(q, ast.Attribute):
                q = q.value
            if not isinstance(q, ast.Name):
                return None
        dl, dr, db, de = (ast.dump(p) for p in parts)
        if dl == dr or {dl, dr} != {db, de}:
            return None
        lv, rv = self.eval(t.left, fr), self.eval(t.comparators[0], fr)
        vals = (lv, rv)
        if not all(isinstance(v, (int, Fr, Poly, Rat)) and not isinstance(v, bool) for v in vals):
            return None
        if all(ndarr.concrete_real(v) is not None for v in vals):
            return None
        greater = isinstance(t.ops[0], (ast.Gt, ast.GtE))
        takes_left = db == dl
        which = 'max' if greater == takes_left else 'min'
        return sym_minmax(which, list(vals))

    on_store = None
    on_dict_store = None

    def aug_assign(self, st, fr):
        t = st.target
        rhs = self.eval(st.value, fr)
        if isinstance(t, ast.Name):
            cur = self.eval(ast.Name(id=t.id, ctx=ast.Load()), fr)
            if isinstance(cur, Arr) and type(st.op) in _IOPS:
                cur._where = self.where()
                if self.on_store is not None:
                    self.on_store(cur, Ellipsis, rhs)
                self.bind_name(fr, t.id, getattr(cur, _IOPS[type(st.op)])(rhs))
            elif isinstance(cur, list) and isinstance(st.op, ast.Add):
                cur.extend(self.iterate(rhs))              # list += iterable extends in place (aliases see it)
            else:
                self.bind_name(fr, t.id, self.binop(st.op, cur, rhs))
        elif isinstance(t, ast.Attribute):
            o = self.eval(t.value, fr)
            cur = self.getattr(o, t.attr)
            if isinstance(cur, Arr) and type(st.op) in _IOPS:
                cur._where = self.where()
                if self.on_store is not None:
                    self.on_store(cur, Ellipsis, rhs)
                self.setattr(o, t.attr, getattr(cur, _IOPS[type(st.op)])(rhs))
            elif isinstance(cur, list) and isinstance(st.op, ast.Add):
                cur.extend(self.iterate(rhs))
            else:
                self.setattr(o, t.attr, self.binop(st.op, cur, rhs))
        elif isinstance(t, ast.Subscript):
            base = self.eval(t.value, fr)
            idx = self.eval_index(t.slice, fr)
            cur = self.getitem(base, idx)
            self.setitem(base, idx, self.binop(st.op, cur, rhs))
        else:
            raise self.err('unsupported augmented assignment')

    def iterate(self, v):
        if isinstance(v, Obj) and getattr(v, 'record', None) is not None and not self.has_dunder(v, '__iter__'):
            return iter(v.record)
        if isinstance(v, Obj):
            if self.has_dunder(v, '__iter__'):
                return self.iterate(self.call_dunder(v, '__iter__'))
            if self.has_dunder(v, '__getitem__') and self.has_dunder(v, '__len__'):
                n = self.call_dunder(v, '__len__')
                return (self.call_dunder(v, '__getitem__', i) for i in range(n))
            raise InterpTypeError("'%s' object is not iterable" % v.cls.name)
        if isinstance(v, (Poly, Rat, Fr, int)) and not isinstance(v, bool):
            raise InterpTypeError('object is not iterable')
        if isinstance(v, ndarr.MaskedSel) and self.branch_oracle is not None and self.cur is not None:
            # `for item in values[mask]` with an undetermined mask: whether an element takes part is a decision per element
            arr, mask = self.externals.np_asarray(v.arr), self.externals.np_asarray(v.mask)
            if arr.ndim == 1 and mask.shape == arr.shape:
                module, node = self.cur
                picked = []
                for k in range(arr.size):
                    mk = mask[k]
                    if mk is True or mk is False or (isinstance(mk, Unk) and _is_truth_value(mk.expr)) or hasattr(mk, 'truth_'):
                        if self.truth(mk, node, Frame(module)):
                            picked.append(arr[k])
                    else:
                        raise AnalysisError('iteration over a selection by a mask of %r [at %s]' % (mk, self.where()))
                return iter(picked)
        try:
            return iter(v)
        except TypeError as exc:
            if type(v).__module__.startswith('ndverif') and not isinstance(v, Arr) and not getattr(v, 'is_elem_', False):
                # a stand-in object of the analysis that cannot be iterated: a gap of the model, not a behaviour (a stand-in
                # for a *number* is not iterable in python either)
                raise AnalysisError('iteration over %s is not modelled [at %s]' % (type(v).__name__, self.where()))
            raise InterpTypeError(str(exc))

    # ------------------------------------------------------------------ expressions
    def eval(self, n, fr):
        T = type(n)
        if T is ast.Constant:
            v = n.value
            if isinstance(v, float):
                return fr_of_float(v)
            if isinstance(v, complex):
                return Poly.const(Z8.I * Z8.of(fr_of_float(v.imag))) + Poly.const(fr_of_float(v.real)) \
                    if v.real else Poly.const(Z8.I * Z8.of(fr_of_float(v.imag)))
            return v
        if T is ast.Name:
            return self.lookup_name(n.id, fr, n)
        if T is ast.Attribute:
            self.cur = (fr.module, n)
            return self.getattr(self.eval(n.value, fr), n.attr)
        if T is ast.Call:
            return self.eval_call(n, fr)
        if T is ast.BinOp:
            a, b = self.eval(n.left, fr), self.eval(n.right, fr)
            self.cur = (fr.module, n)
            return self.binop(n.op, a, b)
        if T is ast.UnaryOp:
            v = self.eval(n.operand, fr)
            if isinstance(n.op, ast.Not):
                if isinstance(v, Unk):
                    return Unk(('not', v.expr))
                return not self.truth(v, n.operand, fr)
            if isinstance(n.op, ast.USub):
                if isinstance(v, Obj):
                    return self.call_dunder(v, '__neg__')
                return ndarr.ew1(s_neg, v) if isinstance(v, (list, tuple)) else (-v if isinstance(v, Arr) else s_neg(v))
            if isinstance(n.op, ast.UAdd):
                return v
            if isinstance(n.op, ast.Invert):
                return ~v if isinstance(v, Arr) else s_not(v)
        if T is ast.BoolOp:
            is_and = isinstance(n.op, ast.And)
            v = None
            pending = None
            for k_, e in enumerate(n.values):
                v = self.eval(e, fr)
                if isinstance(v, Unk) or (isinstance(v, Arr) and v.size == 1 and isinstance(v.item(), Unk)):
                    if isinstance(v, Arr):
                        v = v.item()
                    pending = v if pending is None else Unk(('and' if is_and else 'or', pending.expr, v.expr))
                    continue
                if k_ == len(n.values) - 1 and pending is None:
                    return v                  # python returns the last operand as it is: its truth value is never taken
                t = self.truth(v, e, fr)
                if is_and and not t:
                    return v
                if not is_and and t:
                    return v
            if pending is not None:
                return pending
            return v
        if T is ast.Compare:
            left = self.eval(n.left, fr)
            result = True
            for op, c in zip(n.ops, n.comparators):
                right = self.eval(c, fr)
                r = self.compare(op, left, right)
                if isinstance(r, (Unk, Arr)):
                    if len(n.ops) > 1:
                        if isinstance(r, Unk):
                            result = r if result is True else Unk(('and', result.expr, r.expr))
                            left = right
                            continue
                        raise self.err('chained comparison of arrays')
                    return r
                if not r:
                    return False
                left = right
            return result
        if T is ast.IfExp:
            sel = self._selection_idiom(n, fr)
            if sel is not None:
                return sel
            c = self.truth(self.eval(n.test, fr), n.test, fr)
            return self.eval(n.body if c else n.orelse, fr)
        if T is ast.Subscript:
            base = self.eval(n.value, fr)
            idx = self.eval_index(n.slice, fr)
            self.cur = (fr.module, n)
            return self.getitem(base, idx)
        if T is ast.Tuple:
            return tuple(self.eval_elts(n.elts, fr))
        if T is ast.List:
            return list(self.eval_elts(n.elts, fr))
        if T is ast.Set:
            return set(self.eval_elts(n.elts, fr))
        if T is ast.Dict:
            d = {}
            for k, v in zip(n.keys, n.values):
                if k is None:
                    d.update(self.eval(v, fr))
                else:
                    d[self.eval(k, fr)] = self.eval(v, fr)
            return d
        if T is ast.Lambda:
            clo = Closure(self, n, fr.module, parent_frame=fr, owner=None)
            self.eval_defaults(clo, fr)
            return clo
        if T in (ast.ListComp, ast.GeneratorExp, ast.SetComp):
            out = []
            self.comprehension(n.generators, 0, fr, lambda f2: out.append(self.eval(n.elt, f2)))
            if T is ast.SetComp:
                return set(out)
            return out if T is ast.ListComp else iter(out)
        if T is ast.DictComp:
            d = {}

            def put(f2):
                d[self.eval(n.key, f2)] = self.eval(n.value, f2)
            self.comprehension(n.generators, 0, fr, put)
            return d
        if T is ast.JoinedStr:
            parts = []
            for v in n.values:
                if isinstance(v, ast.Constant):
                    parts.append(str(v.value))
                else:
                    parts.append(self.format_value(self.eval(v.value, fr), v.conversion,
                                                   self.eval(v.format_spec, fr) if v.format_spec is not None else ''))
            return ''.join(parts)
        if T is ast.Slice:
            return self.eval_index(n, fr)
        if T is ast.Starred:
            raise self.err('starred expression outside call/list')
        if T is ast.NamedExpr:
            v = self.eval(n.value, fr)
            fr.env[n.target.id] = v
            return v
        raise self.err('unsupported expression %s' % T.__name__)

    def format_value(self, val, conversion, spec):
        """one replacement field of an f-string: conversion (!r / !s / !a), then format(value, spec)"""
        if conversion == ord('r'):
            val = self.builtins['repr'](val)
        elif conversion == ord('s'):
            val = self.builtins['str'](val) if 'str' in self.builtins else str(val)
        elif conversion == ord('a'):
            val = ascii(self.builtins['repr'](val))
        if isinstance(val, Arr) and val.size == 1 and spec:
            val = val.item()
        if isinstance(val, Fr) and not isinstance(val, bool):
            # an exact rational stands for a float: presentation types of floats apply to its value
            val = int(val) if (val.denominator == 1 and spec and spec[-1] in 'dxXobc') else float(val)
            if not spec:
                return repr(val)
        if isinstance(val, (int, float, str, bool, complex, type(None))):
            try:
                return format(val, spec)
            except (ValueError, TypeError) as exc:
                raise InterpRaise(str(exc), type(exc).__name__)
        if spec:
            raise self.err('format specification %r applied to a symbolic value' % (spec,))
        if isinstance(val, Obj) and (self.has_dunder(val, '__str__') or self.has_dunder(val, '__repr__')):
            return self.call_dunder(val, '__str__' if self.has_dunder(val, '__str__') else '__repr__')
        return str(val)

    def eval_elts(self, elts, fr):
        out = []
        for e in elts:
            if isinstance(e, ast.Starred):
                out.extend(self.iterate(self.eval(e.value, fr)))
            else:
                out.append(self.eval(e, fr))
        return out

    def comprehension(self, gens, k, fr, emit):
        if k == 0:
            fr = Frame(fr.module, parent=fr, owner=fr.owner, fn=fr.fn)
            fr.first_arg = None
        if k == len(gens):
            emit(fr)
            return
        g = gens[k]
        for item in self.iterate(self.eval(g.iter, fr)):
            self.tick(g.iter, fr)
            self.assign(g.target, item, fr)
            if all(self.truth(self.eval(c, fr), c, fr) for c in g.ifs):
                self.comprehension(gens, k + 1, fr, emit)

    def lookup_name(self, name, fr, node=None):
        ok, v = fr.lookup(name)
        if ok:
            return v
        ok, v = self.ns(fr.module).get(name)
        if ok:
            return v
        if name in self.builtins:
            return self.builtins[name]
        import builtins as _bi
        if hasattr(_bi, name):
            raise self.err('python builtin %r is not modelled' % name)       # a gap of the analysis, not a NameError of the program
        raise InterpRaise("name '%s' is not defined" % name, 'NameError')

    def eval_index(self, s, fr):
        if isinstance(s, ast.Slice):
            lo = self.eval(s.lower, fr) if s.lower is not None else None
            hi = self.eval(s.upper, fr) if s.upper is not None else None
            st = self.eval(s.step, fr) if s.step is not None else None
            return slice(_idx_int(lo), _idx_int(hi), _idx_int(st))
        if isinstance(s, ast.Tuple):
            return tuple(self.eval_index(e, fr) for e in s.elts)
        return self.eval(s, fr)

    def getitem(self, base, idx):
        if isinstance(base, Obj):
            if getattr(base, 'record', None) is not None and not self.has_dunder(base, '__getitem__'):
                base = base.record
            else:
                return self.call_dunder(base, '__getitem__', idx)
        if isinstance(base, (list, tuple, str, range)):
            if isinstance(idx, Arr) and idx.size == 1:
                idx = idx.item()
            if isinstance(idx, Fr):
                raise InterpTypeError('list indices must be integers or slices, not float')
            if isinstance(idx, (Poly, Rat)):
                raise self.err('symbolic index into python sequence')
        try:
            return base[idx]
        except (IndexError, KeyError, TypeError) as exc:
            if isinstance(exc, InterpRaise):
                raise
            if isinstance(exc, TypeError) and type(base).__module__.startswith('ndverif') and not isinstance(base, Arr):
                raise self.err('subscript of the stand-in object %s is not modelled' % type(base).__name__)
            raise InterpRaise(str(exc), type(exc).__name__)

    def eval_call(self, n, fr):
        # super() without arguments
        if isinstance(n.func, ast.Name) and n.func.id == 'super':
            ok, _ = fr.lookup('super')
            if not ok:
                return self.make_super(n, fr)
        fn = self.eval(n.func, fr)
        args = []
        for a in n.args:
            if isinstance(a, ast.Starred):
                args.extend(self.iterate(self.eval(a.value, fr)))
            else:
                args.append(self.eval(a, fr))
        kwargs = {}
        for k in n.keywords:
            if k.arg is None:
                kwargs.update(self.eval(k.value, fr))
            else:
                kwargs[k.arg] = self.eval(k.value, fr)
        self.cur = (fr.module, n)
        if self.on_call is not None:
            r = self.on_call(fn, args, kwargs, n, fr)
            if r is not None:
                return r[0]
        return self.call(fn, args, kwargs, n)

    on_call = None

    def make_super(self, n, fr):
        f = fr
        while f is not None and f.fn is None:
            f = f.parent
        args = [self.eval(a, fr) for a in n.args]
        if args:
            cref, obj = args
            return SuperProxy(self, obj, cref.cls)
        # zero-arg form: owner class of the enclosing function, first positional argument
        g = fr
        while g is not None and (g.fn is None or g.fn.owner is None):
            g = g.parent
        if g is None:
            raise self.err('super() outside a method')
        return SuperProxy(self, g.first_arg, g.fn.owner)

    # ------------------------------------------------------------------ operators
    def binop(self, op, a, b):
        T = type(op)
        name, rname = _DUNDER[T]
        if isinstance(a, Arr) and isinstance(b, Obj) and T in _UFUNC_OF_OP and self.has_dunder(b, '__array_ufunc__'):
            # numpy: ndarray.__op__(obj) hands the operation to obj.__array_ufunc__(ufunc, '__call__', array, obj) when the
            # right operand defines it (the reflected dunder is never tried)
            return self.call_dunder(b, '__array_ufunc__', UfuncRef(_UFUNC_OF_OP[T]), '__call__', a, b)
        if isinstance(a, Obj) or isinstance(b, Obj):
            if isinstance(a, Obj) and self.has_dunder(a, name):
                r = self.call_dunder(a, name, b)
                if r is not NotImplemented:
                    return r
            if isinstance(b, Obj) and self.has_dunder(b, rname):
                r = self.call_dunder(b, rname, a)
                if r is not NotImplemented:
                    return r
            # py3 division falls back on __truediv__ only; nothing else to try
            raise InterpTypeError('unsupported operand type(s) for %s' % name)
        if isinstance(a, (list, tuple)) and isinstance(b, (list, tuple)) and T is ast.Add:
            return a + b
        if isinstance(a, (set, frozenset)) and isinstance(b, (set, frozenset)) and T in (ast.BitOr, ast.BitAnd, ast.Sub, ast.BitXor):
            return {ast.BitOr: a | b, ast.BitAnd: a & b, ast.Sub: a - b, ast.BitXor: a ^ b}[T]
        if isinstance(a, dict) and isinstance(b, dict) and T is ast.BitOr:
            return {**a, **b}
        if isinstance(a, (list, tuple, str)) and isinstance(b, int) and T is ast.Mult and not isinstance(a, Arr):
            return a * b
        if isinstance(a, str) and T is ast.Mod:
            return a % (b,) if not isinstance(b, (tuple, dict)) else a % b
        if isinstance(a, str) and isinstance(b, str) and T is ast.Add:
            return a + b
        if isinstance(a, (list, tuple)) and not isinstance(b, (list, tuple)):
            a = ndarr.asarr(a)
        if isinstance(b, (list, tuple)) and not isinstance(a, (list, tuple, str)):
            b = ndarr.asarr(b)
        if T is ast.MatMult:
            a2, b2 = ndarr.asarr(a) if not isinstance(a, Arr) else a, ndarr.asarr(b) if not isinstance(b, Arr) else b
            if a2.ndim == 0 or b2.ndim == 0:
                raise InterpValueError("matmul: Input operand does not have enough dimensions")
            if a2.ndim > 2 or b2.ndim > 2 or not hasattr(self.externals, 'np_dot'):
                raise self.err('matrix product of arrays of rank %d and %d' % (a2.ndim, b2.ndim))
            return self.externals.np_dot(a2, b2)           # for ranks 1 and 2 `@` is np.dot
        f = _SCALAR_OPS.get(T)
        if f is None:
            raise self.err('unsupported operator %s' % T.__name__)
        try:
            return ndarr.ew2(f, a, b)
        except AlgebraError as exc:
            raise self.err('algebra: %s' % exc)
        except ZeroDivisionError:
            raise InterpRaise('division by zero', 'ZeroDivisionError')

    def compare(self, op, a, b):
        T = type(op)
        if T in (ast.Is, ast.IsNot):
            r = a is b or (isinstance(a, (bool, type(None))) and a == b and type(a) is type(b))
            return r if T is ast.Is else not r
        if T in (ast.In, ast.NotIn):
            if isinstance(b, Arr):
                raise self.err('`in` on arrays')
            if isinstance(a, (Poly, Rat, Arr, Unk)):
                raise self.err('symbolic membership test')
            if isinstance(a, (bool, int)) and isinstance(b, (list, tuple)) and any(isinstance(e, Unk) for e in b):
                raise self.err('membership test in a container holding an undetermined value')
            if isinstance(b, Obj):
                if self.has_dunder(b, '__contains__'):
                    r = self.truth(self.call_dunder(b, '__contains__', a), op, Frame(None))
                else:
                    r = any(self.compare(ast.Eq(), a, e) is True for e in self.iterate(b))
                return r if T is ast.In else not r
            r = a in b
            return r if T is ast.In else not r
        sym = _CMP_SYM[T]
        for o in (a, b):
            if isinstance(o, Obj) and getattr(o, 'record', None) is not None and not self.has_dunder(o, '__eq__'):
                # a record (namedtuple subclass) compares like the tuple of its fields
                a2 = tuple(a.record) if (isinstance(a, Obj) and getattr(a, 'record', None) is not None) else a
                b2 = tuple(b.record) if (isinstance(b, Obj) and getattr(b, 'record', None) is not None) else b
                return self.compare(op, a2, b2)
        if isinstance(a, Obj) and isinstance(b, Obj) and sym in ('==', '!=') and not self.has_dunder(a, '__eq__') \
                and any(o is not None and o.get('eq', True) for o in (c.dataclass_options() for c in a.cls.mro())):
            # the __eq__ a @dataclass generates: same class and equal tuples of fields
            if a.cls is not b.cls:
                eq = False
            else:
                eq = True
                for name, _d, _o in a.cls.dataclass_fields():
                    r = self.compare(ast.Eq(), a.attrs.get(name), b.attrs.get(name))
                    if not isinstance(r, bool):
                        r = self.truth(r, op, Frame(None))
                    if not r:
                        eq = False
                        break
            return eq if sym == '==' else not eq
        if isinstance(a, Obj) or isinstance(b, Obj):
            dn = _CMP_DUNDER[sym]
            if isinstance(a, Obj) and self.has_dunder(a, dn[0]):
                return self.call_dunder(a, dn[0], b)
            if isinstance(b, Obj) and self.has_dunder(b, dn[1]):
                return self.call_dunder(b, dn[1], a)
            if sym == '!=':
                # python derives != from __eq__ when __ne__ is not defined
                for o, other in ((a, b), (b, a)):
                    if isinstance(o, Obj) and self.has_dunder(o, '__eq__'):
                        r = self.call_dunder(o, '__eq__', other)
                        if r is not NotImplemented:
                            return ndarr.s_not(r) if not isinstance(r, bool) else not r
                return a is not b
            if sym == '==':
                return a is b
            raise InterpTypeError('unorderable types')
        if isinstance(a, (str, type(None), dict, set, frozenset, type, ClassRef, ExcClass)) or \
                isinstance(b, (str, type(None), dict, set, frozenset, type, ClassRef, ExcClass)):
            return ndarr._CMP[sym](a, b)
        if sym in ('==', '!=') and any(isinstance(v, (TypeLike, NumType)) or (hasattr(v, 'kind') and hasattr(v, 'itemsize'))
                                       for v in (a, b)):
            # dtypes and type stand-ins compare like python objects (their __eq__ knows the numpy conventions)
            eq = (a == b) if not isinstance(b, NumType) else (b == a)
            if isinstance(a, TypeLike) and hasattr(b, 'kind') and hasattr(b, 'itemsize'):
                eq = b == a
            return bool(eq) if sym == '==' else not eq
        if isinstance(a, (list, tuple)) and isinstance(b, (list, tuple)) and sym in ('==', '!='):
            try:
                return ndarr._CMP[sym](a, b)
            except AnalysisError:
                raise
        if isinstance(a, (list, tuple)) and isinstance(b, (list, tuple)) and type(a) is type(b):
            # python orders sequences lexicographically (it does not compare them element by element like numpy)
            for x, y in zip(a, b):
                eq = self.compare(ast.Eq(), x, y)
                if not isinstance(eq, bool):
                    raise self.err('ordering of sequences with undetermined elements')
                if not eq:
                    r = self.compare(op, x, y)
                    if not isinstance(r, bool):
                        raise self.err('ordering of sequences with undetermined elements')
                    return r
            return ndarr._CMP[sym](len(a), len(b))
        return ndarr.ew2(lambda x, y: s_cmp(sym, x, y), a, b)

    # ------------------------------------------------------------------ builtins
    def _make_builtins(self):
        I = self

        def b_len(x):
            if isinstance(x, Obj) and getattr(x, 'record', None) is not None and not I.has_dunder(x, '__len__'):
                return len(x.record)
            if isinstance(x, Obj):
                return I.call_dunder(x, '__len__')
            if isinstance(x, (Poly, Rat, Fr, int)):
                raise InterpTypeError("object of type 'float' has no len()")
            try:
                return len(x)
            except TypeError as exc:
                raise InterpTypeError(str(exc))

        def b_int(x=0, *a, **kw):
            if kw:
                if list(kw) != ['base'] or a:
                    raise InterpTypeError('int() got an unexpected keyword argument')
                a = (kw['base'],)
            if isinstance(x, Arr) and x.size == 1:
                x = x.item()
            if isinstance(x, bool):
                return int(x)
            if isinstance(x, str):
                try:
                    return int(x, *a)
                except ValueError as exc:
                    raise InterpValueError(str(exc))
            if isinstance(x, int):
                return int(x, *a)
            if isinstance(x, Fr):
                return int(x)
            c = ndarr.concrete_real(x)
            if c is not None:
                return int(c)
            h = getattr(x, 'int_', None)
            if h is not None:
                return h(I)
            if isinstance(x, Unk) and not a and _is_truth_value(x.expr) and I.branch_oracle is not None and I.cur is not None:
                # int() of an undetermined truth value (`count += int(flag)`) is a decision point like bool()
                module, node = I.cur
                return 1 if I.truth(x, node, Frame(module)) else 0
            raise I.err('int() of symbolic value %r' % (x,))

        def b_float(x=0):
            if isinstance(x, Arr) and x.size == 1:
                x = x.item()
            if isinstance(x, bool):
                return int(x)
            if isinstance(x, (Poly, Rat)) and not (x.is_real() if isinstance(x, Poly) else (x.n.is_real() and x.d.is_real())):
                # float() of a complex number: a python complex refuses (TypeError), a numpy complex scalar hands back its
                # real part with a ComplexWarning - the analysis does not know which it is: decided per type world
                global TYPE_WORLD_USED
                TYPE_WORLD_USED = True
                if TYPE_WORLD == 'python':
                    raise InterpTypeError("float() argument must be a string or a real number, not 'complex'")
                return I.externals.scalar_fn('real', x) if hasattr(I.externals, 'scalar_fn') else x
            if isinstance(x, (int, Fr, Poly, Rat)):
                return x
            if isinstance(x, str):
                return fr_of_float(float(x))
            if isinstance(x, Arr):
                raise InterpTypeError('only length-1 arrays can be converted to Python scalars')
            raise I.err('float() of %r' % (x,))

        def b_abs(x):
            if isinstance(x, Obj):
                return I.call_dunder(x, '__abs__')
            return abs(x) if isinstance(x, Arr) else s_abs(x)

        def b_minmax(which):
            def f(*args, **kw):
                if len(args) == 1:
                    args = list(I.iterate(args[0]))
                if 'key' in kw:
                    return (min if which == 'min' else max)(args, key=kw['key'])
                args = [a.item() if isinstance(a, Arr) and a.size == 1 else a for a in args]
                if not args:
                    raise InterpValueError('%s() arg is an empty sequence' % which)
                if all(isinstance(a, str) for a in args) or all(isinstance(a, (tuple, list)) for a in args):
                    # strings and sequences are ordered by python itself (sequences of concrete values only)
                    try:
                        return (min if which == 'min' else max)(args)
                    except TypeError as exc:
                        raise I.err('%s() of sequences: %s' % (which, exc))
                conc = [ndarr.concrete_real(a) for a in args]
                if all(c is not None for c in conc):
                    best = 0
                    for i in range(1, len(args)):
                        if (conc[i] < conc[best]) if which == 'min' else (conc[i] > conc[best]):
                            best = i
                    return args[best]
                if all(isinstance(a, (int, Fr, Poly, Rat)) and not isinstance(a, bool) for a in args):
                    return sym_minmax(which, args)
                for a in args:
                    h = getattr(a, 'minmax_', None)
                    if h is not None:
                        return h(which, args)
                raise I.err('%s() of %r' % (which, args))
            return f

        def b_isinstance(x, t):
            ts = t if isinstance(t, tuple) else (t,)
            for c in ts:
                if isinstance(c, ClassRef):
                    if isinstance(x, Obj) and x.cls.is_subclass_of(c.cls):
                        return True
                elif c is float:
                    if isinstance(x, (Fr, Poly, Rat)):
                        return True
                elif c is int:
                    if isinstance(x, int) and not isinstance(x, bool):
                        return True
                elif c is complex:
                    if isinstance(x, Poly) and not x.is_real():
                        return True
                elif isinstance(c, type):
                    if isinstance(x, c):
                        return True
                elif isinstance(c, ExcClass):
                    if isinstance(x, ExcValue) and c.matches(x.cls.name):
                        return True
                elif hasattr(c, 'isinstance_'):
                    if c.isinstance_(x):
                        return True
                    if getattr(c, '__name__', '') == 'tuple' and isinstance(x, Obj) and getattr(x, 'record', None) is not None:
                        return True
                else:
                    raise I.err('isinstance with %r' % (c,))
            return False

        def b_issubclass(c, t):
            ts = t if isinstance(t, tuple) else (t,)
            for b in ts:
                if isinstance(c, ClassRef) and isinstance(b, ClassRef):
                    if c.cls.is_subclass_of(b.cls):
                        return True
                elif isinstance(c, type) and isinstance(b, type):
                    if issubclass(c, b):
                        return True
                elif isinstance(b, TypeLike) and b.__name__ == 'generic':
                    if isinstance(c, TypeLike) and c.__name__ in ('number', 'integer', 'floating', 'complexfloating', 'bool_', 'generic'):
                        return True              # the numpy scalar types; python's int / float / complex are not
                elif hasattr(c, 'kind') and hasattr(c, 'itemsize') and isinstance(b, TypeLike):
                    # a concrete numpy scalar type (float64, complex128, int64, bool) against an abstract one
                    fam = {'f': ('floating', 'inexact', 'number', 'generic'), 'c': ('complexfloating', 'inexact', 'number', 'generic'),
                           'i': ('integer', 'signedinteger', 'number', 'generic'), 'b': ('bool_', 'generic')}.get(c.kind, ())
                    if b.__name__ in fam:
                        return True
                elif isinstance(c, TypeLike) and isinstance(b, TypeLike):
                    if c is b:
                        return True
                    fam = {'int64': ('integer', 'signedinteger', 'number', 'generic'), 'intp': ('integer', 'number', 'generic')}.get(c.__name__, ())
                    if b.__name__ in fam:
                        return True
                elif isinstance(c, (type, TypeLike, ClassRef)) and isinstance(b, (type, TypeLike, ClassRef)):
                    continue
                else:
                    raise I.err('issubclass(%r, %r)' % (c, b))
            return False

        def b_hasattr(x, name):
            if isinstance(x, Obj):
                return name in x.attrs or x.cls.lookup(name) is not None
            if isinstance(x, ClassRef):
                return x.cls.lookup(name) is not None
            if name == '__call__':
                return callable(x)
            return hasattr(x, name)

        def b_getattr(x, name, *default):
            try:
                return I.getattr(x, name)
            except InterpRaise as exc:
                if exc.exc_name == 'AttributeError' and default:
                    return default[0]
                raise

        def b_setattr(x, name, v):
            I.setattr(x, name, v)

        def b_filter(pred, it):
            # lazily, like the builtin; the truth of pred(v) is a decision of the program like the test of an `if`
            # (undetermined values go to the branch oracle of the run, with the statement being executed as the place)
            for v in I.iterate(it):
                keep = v if pred is None else pred(v)
                mod, node = I.cur if I.cur is not None else (None, None)
                if node is None:
                    if I.truth(keep, ast.Name(id='filter', ctx=ast.Load()), Frame(None)):
                        yield v
                elif I.truth(keep, node, Frame(mod)):
                    yield v

        def b_sum(it, start=0):
            acc = start
            for v in I.iterate(it):
                acc = I.binop(ast.Add(), acc, v)
            return acc

        def b_str(x=''):
            if isinstance(x, Obj) and I.has_dunder(x, '__str__'):
                return I.call_dunder(x, '__str__')
            if isinstance(x, Obj) and I.has_dunder(x, '__repr__'):
                return I.call_dunder(x, '__repr__')
            return str(x)

        def b_round(x, nd=None):
            c = ndarr.concrete_real(x)
            if c is None:
                if isinstance(x, (Poly, Rat)):
                    return Poly.sym('round(%r, %r)' % (x, nd))
                raise I.err('round() of symbolic value')
            return round(c) if nd is None else round(c, nd)

        def b_bool(x=False):
            if isinstance(x, Unk) and I.branch_oracle is not None and I.cur is not None:
                # bool() of an undetermined value is a decision point like a branch: the result may be stored in a
                # container and tested later (`False in flags`), where an undetermined element would go unnoticed
                module, node = I.cur
                return I.truth(x, node, Frame(module))
            if isinstance(x, Unk):
                return x
            return I.truth(x, ast.Constant(value=None), Frame(None))

        def b_type(x):
            if isinstance(x, Obj):
                return I.classref(x.cls)
            if isinstance(x, ExcValue):
                return x.cls
            if isinstance(x, (Fr, Poly, Rat)) or hasattr(x, 'is_elem_'):
                cplx = (isinstance(x, Poly) and not x.is_real()) or getattr(x, 'kind', None) in ('c', 'z')
                return NumType('c' if cplx else 'f')
            if isinstance(x, (Unk, Choice)):
                raise I.err('type() of an undetermined value')
            return type(x)

        def b_repr(x):
            if isinstance(x, Obj):
                for d in ('__repr__', '__str__'):
                    if I.has_dunder(x, d):
                        return I.call_dunder(x, d)
            if isinstance(x, (list, tuple)) and any(isinstance(e, Obj) for e in x):
                inner = ', '.join(b_repr(e) for e in x)
                return '[%s]' % inner if isinstance(x, list) else '(%s%s)' % (inner, ',' if len(x) == 1 else '')
            return repr(x)

        def b_hash(x):
            def walk(v):
                if isinstance(v, (Arr, list, dict, set)):
                    raise InterpRaise("unhashable type: '%s'" % ('numpy.ndarray' if isinstance(v, Arr) else type(v).__name__), 'TypeError')
                if isinstance(v, tuple):
                    for e in v:
                        walk(e)
            walk(x)
            return hash(repr(x)) & 0xffffffff

        def b_callable(x):
            if isinstance(x, Obj):
                return I.has_dunder(x, '__call__')
            return callable(x)

        def b_divmod(a, b):
            return s_floordiv(a, b), s_mod(a, b)

        def b_any(it):
            pend = None
            for v in I.iterate(it):
                if isinstance(v, Unk):
                    pend = v
                elif v:
                    return True
            return pend if pend is not None else False

        def b_all(it):
            pend = None
            for v in I.iterate(it):
                if isinstance(v, Unk):
                    pend = v
                elif not v:
                    return False
            return pend if pend is not None else True

        def b_complex(re=0, im=0):
            return Poly.of(re) + Poly.const(Z8.I) * Poly.of(im)
        b_complex = TypeLike('complex', b_complex, lambda x: isinstance(x, Poly) and not x.is_real())

        def is_float(x):
            return isinstance(x, (Fr, Poly, Rat))

        def is_int(x):
            return isinstance(x, int) and not isinstance(x, bool)

        b = {
            'range': range, 'len': b_len, 'int': TypeLike('int', b_int, is_int),
            'float': TypeLike('float', b_float, is_float),
            'bool': TypeLike('bool', b_bool, lambda x: isinstance(x, bool)),
            'str': TypeLike('str', b_str, lambda x: isinstance(x, str)),
            'list': TypeLike('list', lambda x=(): list(I.iterate(x)), lambda x: isinstance(x, list)),
            'tuple': TypeLike('tuple', lambda x=(): tuple(I.iterate(x)), lambda x: isinstance(x, tuple)),
            'dict': dict, 'set': TypeLike('set', lambda x=(): set(I.iterate(x)), lambda x: isinstance(x, set)),
            'frozenset': frozenset,
            'min': b_minmax('min'), 'max': b_minmax('max'), 'abs': b_abs, 'sum': b_sum,
            'enumerate': lambda it, start=0: enumerate(I.iterate(it), start),
            'zip': lambda *its: zip(*[I.iterate(i) for i in its]),
            'isinstance': b_isinstance, 'issubclass': b_issubclass, 'hasattr': b_hasattr, 'getattr': b_getattr, 'setattr': b_setattr,
            'callable': b_callable, 'print': lambda *a, **k: None, 'sorted': sorted,
            'reversed': lambda x: reversed(list(I.iterate(x))), 'any': b_any, 'all': b_all,
            'map': lambda f, *its: map(f, *[I.iterate(i) for i in its]),
            'filter': b_filter, 'round': b_round, 'divmod': b_divmod,
            'type': b_type, 'hash': b_hash, 'object': object, 'repr': b_repr, 'NotImplemented': NotImplemented,
            'True': True, 'False': False, 'None': None, 'complex': b_complex, 'slice': slice,
            'iter': lambda x: I.iterate(x), 'next': next, 'id': id, 'pow': s_pow,
            'property': property, 'staticmethod': staticmethod, 'classmethod': classmethod, 'Ellipsis': Ellipsis,
            '__name__': '__analysed__', '__file__': '<analysed>',
        }
        for name in list(EXC_PARENTS) + ['BaseException', 'NameError']:
            b[name] = ExcClass(name)
        return b


_NDARRAY_ATTRS = frozenset(['real', 'imag', 'shape', 'size', 'ndim', 'conj', 'conjugate', 'clip', 'ravel',
                            'flatten', 'T', 'flat', 'squeeze', 'item', 'dtype', 'reshape', 'sum', 'any', 'all',
                            'max', 'min', 'astype', 'copy', 'transpose', 'tolist', 'dot', 'tobytes', 'tostring', 'prod', 'mean',
                            'cumsum', 'cumprod', 'argmin', 'argmax', 'nonzero', 'take', 'repeat'])


def _unwrap0(fn):
    def g(*a, **k):
        r = fn(*a, **k)
        return r.item() if isinstance(r, Arr) and r.ndim == 0 else r
    return g


TYPE_HASH = 0x7c3a91         # every stand-in for a type hashes alike, so a set / dict lookup always reaches __eq__
# The analysis does not tell a python float from a numpy float64 (complex / complex128).  Code that asks for the *exact*
# type of an abstract number is analysed in two worlds - every such number a python scalar, every such number a numpy
# scalar - and the property has to hold in both (engine.analyse runs the second world when the first one was consulted).
TYPE_WORLD = 'python'
TYPE_WORLD_USED = False
_PY_NAMES = {'f': {'float'}, 'c': {'complex'}}
_NP_NAMES = {'f': {'float64', 'double', 'float_'}, 'c': {'complex128', 'cdouble', 'complex_'}}


class NumType(object):
    """type(x) of an abstract number.  The analysis does not tell a python float from a numpy scalar: the type is equal to
    itself (same value, same type), different from non numeric types, and a comparison with a concrete numeric type
    cannot be decided (the run ends as undecided instead of guessing)."""

    def __init__(self, kind):
        self.kind = kind
        self.__name__ = {'f': 'float', 'c': 'complex'}.get(kind, 'number')

    def __eq__(self, other):
        if isinstance(other, NumType):
            return self.kind == other.kind
        name = getattr(other, '__name__', None) or getattr(other, 'name', '')
        if other in (int, bool, str, list, tuple, dict, set, frozenset, type(None)) or \
                name in ('str', 'list', 'tuple', 'dict', 'set', 'NoneType', 'bool', 'bool_', 'ndarray', 'int', 'integer', 'int64',
                         'int32', 'int16', 'int8', 'intc', 'intp', 'uint8', 'uint16', 'uint32', 'uint64'):
            return False          # (abstract numbers are floating point or complex values; integers are concrete in the analysis)
        global TYPE_WORLD_USED
        TYPE_WORLD_USED = True
        return name in (_PY_NAMES if TYPE_WORLD == 'python' else _NP_NAMES)[self.kind]

    def __ne__(self, other):
        return not self.__eq__(other)

    def __hash__(self):
        return TYPE_HASH

    def __repr__(self):
        return "<class of an abstract %s>" % self.__name__


class TypeLike(object):
    """A builtin type name: callable (conversion) and usable as the second argument of isinstance."""

    def __init__(self, name, conv, pred):
        self.__name__ = name
        self.conv, self.pred = conv, pred

    def __eq__(self, other):
        if isinstance(other, NumType):
            return other.__eq__(self)
        return self is other

    def __hash__(self):
        return TYPE_HASH

    def __call__(self, *a, **k):
        return self.conv(*a, **k)

    def isinstance_(self, x):
        return self.pred(x)

    def __repr__(self):
        return "<class '%s'>" % self.__name__


def _is_truth_value(e):
    """the description of an undetermined value says that it is a truth value: a comparison, a predicate, or and / or /
    not of such"""
    if isinstance(e, Unk):
        return _is_truth_value(e.expr)
    if isinstance(e, tuple) and e:
        if e[0] == 'cmp':
            return True
        if e[0] == 'fn':
            return e[1] in ('isnan', 'isinf', 'isfinite', 'iscomplex', 'isreal')
        if e[0] in ('and', 'or'):
            return all(_is_truth_value(x) or isinstance(x, bool) for x in e[1:])
        if e[0] in ('any', 'all'):
            items = e[1] if len(e) == 2 and isinstance(e[1], (list, tuple)) else e[1:]
            return all(_is_truth_value(x) or isinstance(x, bool) for x in items)
        if e[0] == 'not':
            return _is_truth_value(e[1]) or isinstance(e[1], bool)
    return False


def sym_minmax(which, args):
    """Opaque but canonical max/min atom over algebraic arguments."""
    keys = sorted(repr(a) for a in args)
    name = '%s(%s)' % (which, ', '.join(keys))
    ndarr.ATOM_ARGS[name] = (which, tuple(args))
    if any(isinstance(a, Poly) and not a.is_real() for a in args):
        from . import algebra
        algebra.COMPLEX_ATOMS.add(name)          # numpy orders complex numbers lexicographically: the result is complex
        return Poly.sym(name)
    if which == 'max':
        for a in args:
            c = ndarr.concrete_real(a)
            if (c is not None and c > 0) or (isinstance(a, Poly) and ndarr.poly_sign(a) == 1):
                ndarr.POSITIVE_ATOMS.add(name)       # max(.., positive) is positive
                break
    elif all(((ndarr.concrete_real(a) or 0) > 0) or (isinstance(a, Poly) and ndarr.poly_sign(a) == 1) for a in args):
        ndarr.POSITIVE_ATOMS.add(name)
    return Poly.sym(name)


_NODEFAULT = object()

_DUNDER = {ast.Add: ('__add__', '__radd__'), ast.Sub: ('__sub__', '__rsub__'),
           ast.Mult: ('__mul__', '__rmul__'), ast.Div: ('__truediv__', '__rtruediv__'),
           ast.Pow: ('__pow__', '__rpow__'), ast.FloorDiv: ('__floordiv__', '__rfloordiv__'),
           ast.Mod: ('__mod__', '__rmod__'), ast.BitAnd: ('__and__', '__rand__'),
           ast.BitOr: ('__or__', '__ror__'), ast.MatMult: ('__matmul__', '__rmatmul__'),
           ast.BitXor: ('__xor__', '__rxor__'), ast.LShift: ('__lshift__', '__rlshift__'),
           ast.RShift: ('__rshift__', '__rrshift__')}
_UFUNC_OF_OP = {ast.Add: 'add', ast.Sub: 'subtract', ast.Mult: 'multiply', ast.Div: 'true_divide', ast.Pow: 'power'}


class UfuncRef(object):
    """Stand-in for a numpy ufunc object handed to __array_ufunc__ (only its name is inspected by the analysed code)."""

    def __init__(self, name):
        self.__name__ = name

    def __repr__(self):
        return '<ufunc %r>' % self.__name__

    def __call__(self, *a, **k):
        raise AnalysisError('call of the ufunc object np.%s received through __array_ufunc__ is not modelled' % self.__name__)


_SCALAR_OPS = {ast.Add: s_add, ast.Sub: s_sub, ast.Mult: s_mul, ast.Div: s_div, ast.Pow: s_pow,
               ast.FloorDiv: s_floordiv, ast.Mod: s_mod, ast.BitAnd: s_and, ast.BitOr: s_or}
_IOPS = {ast.Add: '__iadd__', ast.Sub: '__isub__', ast.Mult: '__imul__', ast.Div: '__itruediv__'}
_CMP_SYM = {ast.Lt: '<', ast.LtE: '<=', ast.Gt: '>', ast.GtE: '>=', ast.Eq: '==', ast.NotEq: '!='}
_CMP_DUNDER = {'<': ('__lt__', '__gt__'), '<=': ('__le__', '__ge__'), '>': ('__gt__', '__lt__'),
               '>=': ('__ge__', '__le__'), '==': ('__eq__', '__eq__'), '!=': ('__ne__', '__ne__')}


def _idx_int(v):
    if v is None:
        return None
    if isinstance(v, Arr) and v.size == 1:
        v = v.item()
    if isinstance(v, bool):
        return int(v)
    if isinstance(v, int):
        return v
    if isinstance(v, Fr):
        raise InterpTypeError('slice indices must be integers')
    if hasattr(v, '__index__') and hasattr(v, 'tags'):
        v.__index__()                      # a data dependent index: raises DataDependentInt carrying what it depends on
    raise AnalysisError('non concrete slice bound %r' % (v,))


def _kw(call, name, pos):
    for k in call.keywords:
        if k.arg == name:
            return k.value
    if len(call.args) > pos:
        return call.args[pos]
    return None


def _is_plain_method(clo):
    node = clo.node
    if isinstance(node, ast.Lambda):
        return True
    if not isinstance(node, ast.FunctionDef):
        return False
    decos = [ast.unparse(d) for d in node.decorator_list]
    return 'staticmethod' not in decos and 'classmethod' not in decos
