"""E2 exact algebra (stdlib only).

Z8    : the commutative Q-algebra Q(zeta8)[j]/(j^2+1), zeta8 = (1+i)/sqrt2.  i = zeta^2,
        sqrt2 = zeta - zeta^3, j is the second imaginary unit of Bicomplex.  Sparse dict
        {(a, b): Fraction} meaning zeta^a * j^b, a in 0..3, b in 0..1.
Poly  : generalised (Laurent, rational exponents) polynomials over Z8 in arbitrary named atoms.
Rat   : quotients of Poly, equality by cross multiplication (no gcd).
Equality of Poly is structural equality of a normal form, i.e. a decision procedure.
"""
from fractions import Fraction as Fr
import itertools


class AlgebraError(Exception):
    """An operation left the supported algebra (never reported as a violation)."""


# --------------------------------------------------------------------------- Z8
class Z8(object):
    __slots__ = ('c', '_h')

    def __init__(self, c=None):
        self.c = {k: v for k, v in (c or {}).items() if v != 0}
        self._h = None

    @staticmethod
    def of(x):
        if isinstance(x, Z8):
            return x
        if isinstance(x, bool):
            return Z8({(0, 0): Fr(int(x))})
        if isinstance(x, (int, Fr)):
            return Z8({(0, 0): Fr(x)})
        if isinstance(x, float):
            return Z8({(0, 0): fr_of_float(x)})
        if isinstance(x, complex):
            return Z8.of(x.real) + Z8.I * Z8.of(x.imag)
        raise AlgebraError('cannot coerce %r to Z8' % (x,))

    def __add__(self, o):
        o = Z8.of(o)
        d = dict(self.c)
        for k, v in o.c.items():
            d[k] = d.get(k, 0) + v
        return Z8(d)
    __radd__ = __add__

    def __neg__(self):
        return Z8({k: -v for k, v in self.c.items()})

    def __sub__(self, o):
        return self + (-Z8.of(o))

    def __rsub__(self, o):
        return Z8.of(o) - self

    def __mul__(self, o):
        o = Z8.of(o)
        d = {}
        for (a, b), v in self.c.items():
            for (a2, b2), v2 in o.c.items():
                aa, bb, sg = a + a2, b + b2, 1
                if aa >= 4:
                    aa -= 4
                    sg = -sg
                if bb >= 2:
                    bb -= 2
                    sg = -sg
                d[(aa, bb)] = d.get((aa, bb), 0) + sg * v * v2
        return Z8(d)
    __rmul__ = __mul__

    def __pow__(self, n):
        if not isinstance(n, int):
            raise AlgebraError('Z8 ** non-int')
        if self.is_rational():
            q = self.rational()
            if q == 1:
                return self
            if q == 0 and n < 0:
                raise AlgebraError('division by zero')
            return Z8({(0, 0): q ** n})
        if n < 0:
            return self.inv() ** (-n)
        r, b = Z8.ONE, self
        while n:
            if n & 1:
                r = r * b
            b = b * b
            n >>= 1
        return r

    def __eq__(self, o):
        try:
            return self.c == Z8.of(o).c
        except AlgebraError:
            return NotImplemented

    def __ne__(self, o):
        r = self.__eq__(o)
        return r if r is NotImplemented else not r

    def __hash__(self):
        if self._h is None:
            self._h = hash(frozenset(self.c.items()))
        return self._h

    def is_zero(self):
        return not self.c

    def is_rational(self):
        return all(k == (0, 0) for k in self.c)

    def rational(self):
        if not self.is_rational():
            raise AlgebraError('not rational: %r' % self)
        return self.c.get((0, 0), Fr(0))

    def has_j(self):
        return any(b for (_, b) in self.c)

    def inv(self):
        if self.is_rational():
            q = self.rational()
            if q == 0:
                raise AlgebraError('division by zero')
            return Z8({(0, 0): 1 / q})
        basis = [(a, b) for b in range(2) for a in range(4)]
        cols = [(self * Z8({bk: Fr(1)})) for bk in basis]
        n = 8
        A = [[cols[k].c.get(bi, Fr(0)) for k in range(n)] + [Fr(1) if bi == (0, 0) else Fr(0)]
             for bi in basis]
        for col in range(n):
            piv = next((r for r in range(col, n) if A[r][col] != 0), None)
            if piv is None:
                raise AlgebraError('not invertible: %r' % self)
            A[col], A[piv] = A[piv], A[col]
            p = A[col][col]
            A[col] = [v / p for v in A[col]]
            for r in range(n):
                if r != col and A[r][col] != 0:
                    f = A[r][col]
                    A[r] = [vr - f * vc for vr, vc in zip(A[r], A[col])]
        return Z8({bk: A[i][n] for i, bk in enumerate(basis)})

    def __truediv__(self, o):
        return self * Z8.of(o).inv()

    def __rtruediv__(self, o):
        return Z8.of(o) * self.inv()

    def comp(self, b):
        """Coefficient (in Q(zeta8)) of j^b."""
        return Z8({(a, 0): v for (a, bb), v in self.c.items() if bb == b})

    def re_im(self):
        """For a j-free element: ((p, q), (p', q')) meaning real = p + q*sqrt2, imag = p' + q'*sqrt2."""
        if self.has_j():
            raise AlgebraError('re_im of element with j')
        a, b, c, d = (self.c.get((k, 0), Fr(0)) for k in range(4))
        return (a, (b - d) / 2), (c, (b + d) / 2)

    def real(self):
        """Real part of a j-free element as Z8 (assuming nothing else: pure constant)."""
        (p, q), _ = self.re_im()
        return Z8.of(p) + Z8.SQRT2 * Z8.of(q)

    def imag(self):
        _, (p, q) = self.re_im()
        return Z8.of(p) + Z8.SQRT2 * Z8.of(q)

    def is_real(self):
        if self.has_j():
            return False
        return self.re_im()[1] == (0, 0)

    def is_imag(self):
        if self.has_j():
            return False
        return self.re_im()[0] == (0, 0)

    def conj(self):
        """complex conjugate (i -> -i), j untouched.  zeta -> zeta^-1 = -zeta^3."""
        d = {}
        for (a, b), v in self.c.items():
            if a == 0:
                d[(0, b)] = d.get((0, b), 0) + v
            else:
                d[(4 - a, b)] = d.get((4 - a, b), 0) - v
        return Z8(d)

    def sign_real(self):
        """Sign (-1, 0, 1) of a real element p + q*sqrt2."""
        (p, q), im = self.re_im()
        if im != (0, 0):
            raise AlgebraError('sign of non-real')
        if q == 0:
            return (p > 0) - (p < 0)
        if p == 0:
            return (q > 0) - (q < 0)
        # sign of p + q sqrt2
        sp, sq = (p > 0) - (p < 0), (q > 0) - (q < 0)
        if sp == sq:
            return sp
        # opposite signs: compare p^2 with 2 q^2
        big = p * p - 2 * q * q
        if big == 0:
            return 0
        return sp if big > 0 else sq

    def __repr__(self):
        if not self.c:
            return '0'
        if self.is_rational():
            return str(self.rational())
        out = []
        for (a, b), v in sorted(self.c.items()):
            s = str(v)
            if a:
                s += '*z8^%d' % a
            if b:
                s += '*j'
            out.append(s)
        return '(' + ' + '.join(out) + ')'


Z8.ZERO = Z8()
Z8.ONE = Z8({(0, 0): Fr(1)})
Z8.I = Z8({(2, 0): Fr(1)})
Z8.ZETA = Z8({(1, 0): Fr(1)})
Z8.J = Z8({(0, 1): Fr(1)})
Z8.SQRT2 = Z8({(1, 0): Fr(1), (3, 0): Fr(-1)})


def fr_of_float(x):
    """Exact rational meant by a float literal (decimal reading: 1.6 -> 8/5)."""
    if x != x or x in (float('inf'), float('-inf')):
        raise AlgebraError('non finite float')
    return Fr(repr(x))


# ------------------------------------------------------------------------- Poly
def _mono_mul(m1, m2):
    if not m1:
        return m2
    if not m2:
        return m1
    d = dict(m1)
    for s, e in m2:
        d[s] = d.get(s, 0) + e
    return tuple(sorted((s, e) for s, e in d.items() if e != 0))


def _mono_pow(m, e):
    return tuple((s, x * e) for s, x in m) if e != 0 else ()


COMPLEX_ATOMS = set()     # atoms that stand for complex (not real) quantities


def _conj_atom(a):
    if a.startswith('cj:'):
        return a[3:]
    if a in COMPLEX_ATOMS:
        return 'cj:' + a
    return a


class Poly(object):
    """sum coef * prod atom**exp ; coef in Z8, exp rational."""
    __slots__ = ('t', '_h')

    def __init__(self, t=None):
        self.t = {m: c for m, c in (t or {}).items() if not c.is_zero()}
        self._h = None

    # -- constructors
    @staticmethod
    def const(c):
        return Poly({(): Z8.of(c)})

    @staticmethod
    def sym(name, exp=1):
        return Poly({((name, Fr(exp)),): Z8.ONE})

    @staticmethod
    def of(x):
        if isinstance(x, Poly):
            return x
        if isinstance(x, Rat):
            raise AlgebraError('Rat where Poly required')
        return Poly.const(x)

    # -- predicates
    def is_zero(self):
        return not self.t

    def is_const(self):
        return all(m == () for m in self.t)

    def const_value(self):
        if not self.is_const():
            raise AlgebraError('not constant: %r' % self)
        return self.t.get((), Z8.ZERO)

    def is_monomial(self):
        return len(self.t) == 1

    def atoms(self):
        return {s for m in self.t for s, _ in m}

    def has_j(self):
        return any(c.has_j() for c in self.t.values())

    # -- ring ops
    def __add__(self, o):
        if not isinstance(o, _NUM):
            return NotImplemented
        if isinstance(o, Rat):
            return Rat(self, Poly.const(1)) + o
        o = Poly.of(o)
        d = dict(self.t)
        for m, c in o.t.items():
            if m in d:
                d[m] = d[m] + c
            else:
                d[m] = c
        return Poly(d)
    __radd__ = __add__

    def __neg__(self):
        return Poly({m: -c for m, c in self.t.items()})

    def __sub__(self, o):
        if not isinstance(o, _NUM):
            return NotImplemented
        if isinstance(o, Rat):
            return Rat(self, Poly.const(1)) - o
        return self + (-Poly.of(o))

    def __rsub__(self, o):
        if not isinstance(o, _NUM):
            return NotImplemented
        return Poly.of(o) - self

    def __mul__(self, o):
        if not isinstance(o, _NUM):
            return NotImplemented
        if isinstance(o, Rat):
            return Rat(self, Poly.const(1)) * o
        o = Poly.of(o)
        if len(o.t) > len(self.t):
            self, o = o, self
        d = {}
        for m2, c2 in o.t.items():
            for m1, c1 in self.t.items():
                m = _mono_mul(m1, m2)
                c = c1 * c2
                if m in d:
                    d[m] = d[m] + c
                else:
                    d[m] = c
        return Poly(d)
    __rmul__ = __mul__

    def inv(self):
        if self.is_monomial():
            (m, c), = self.t.items()
            return Poly({_mono_pow(m, Fr(-1)): c.inv()})
        return Rat(Poly.const(1), self)

    def __truediv__(self, o):
        if not isinstance(o, _NUM):
            return NotImplemented
        if isinstance(o, Rat):
            return Rat(self, Poly.const(1)) / o
        o = Poly.of(o)
        if o.is_zero():
            raise AlgebraError('division by zero')
        if o.is_monomial():
            return self * o.inv()
        return Rat(self, o)

    def __rtruediv__(self, o):
        if not isinstance(o, _NUM):
            return NotImplemented
        return Poly.of(o) / self

    def __pow__(self, e):
        if not isinstance(e, _NUM):
            return NotImplemented
        if isinstance(e, Poly):
            if not e.is_const():
                raise AlgebraError('symbolic exponent')
            e = e.const_value()
        if isinstance(e, Z8):
            e = e.rational()
        if isinstance(e, float):
            e = fr_of_float(e)
        e = Fr(e)
        if e.denominator == 1:
            n = int(e)
            if self.is_monomial():
                (m, c), = self.t.items()
                if n >= 0 or not c.is_zero():
                    return Poly({_mono_pow(m, Fr(n)): c ** n})
            if n >= 0:
                r, b = Poly.const(1), self
                while n:
                    if n & 1:
                        r = r * b
                    b = b * b
                    n >>= 1
                return r
            if self.is_monomial():
                return self.inv() ** (-n)
            return Rat(Poly.const(1), self ** (-n))
        # rational exponent: only monomials with coefficient 1
        if self.is_monomial():
            (m, c), = self.t.items()
            if c == Z8.ONE:
                return Poly({_mono_pow(m, e): Z8.ONE})
            if not m and c.is_rational():
                q = c.rational()
                r = _exact_root(q, e)
                if r is not None:
                    return Poly.const(r)
        raise AlgebraError('fractional power of non-monomial %r ** %s' % (self, e))

    def __rpow__(self, base):
        raise AlgebraError('symbolic exponent')

    def __eq__(self, o):
        if isinstance(o, Rat):
            return o == self
        try:
            return self.t == Poly.of(o).t
        except AlgebraError:
            return NotImplemented

    def __ne__(self, o):
        r = self.__eq__(o)
        return r if r is NotImplemented else not r

    def __hash__(self):
        if self._h is None:
            self._h = hash(frozenset(self.t.items()))
        return self._h

    # -- structure
    def map_coefs(self, fn):
        return Poly({m: fn(c) for m, c in self.t.items()})

    def real(self):
        """Real part; atoms are real valued unless registered in COMPLEX_ATOMS (then (p + conj p) / 2)."""
        if self.atoms() & COMPLEX_ATOMS or any(a.startswith('cj:') for a in self.atoms()):
            return (self + self.conj()) * Poly.const(Fr(1, 2))
        return self.map_coefs(lambda c: c.comp(0).real() if not c.has_j() else _raise('real of j'))

    def imag(self):
        if self.atoms() & COMPLEX_ATOMS or any(a.startswith('cj:') for a in self.atoms()):
            return (self - self.conj()) * Poly.const(Fr(1, 2)) * Poly.const(Z8.I).inv()
        return self.map_coefs(lambda c: c.comp(0).imag() if not c.has_j() else _raise('imag of j'))

    def comp(self, b):
        return self.map_coefs(lambda c: c.comp(b))

    def conj(self):
        """complex conjugate; atoms are real unless registered in COMPLEX_ATOMS (their conjugate is the atom cj:<name>)"""
        if not (self.atoms() & COMPLEX_ATOMS) and not any(a.startswith('cj:') for a in self.atoms()):
            return self.map_coefs(lambda c: c.conj())
        out = {}
        for m, c in self.t.items():
            m2 = tuple(sorted(((_conj_atom(s_), e) for s_, e in m)))
            out[m2] = out.get(m2, Z8.ZERO) + c.conj()
        return Poly(out)

    def is_real(self):
        if self.atoms() & COMPLEX_ATOMS or any(a.startswith('cj:') for a in self.atoms()):
            return False
        return all(c.is_real() for c in self.t.values())

    def subs(self, mapping):
        """Substitute atoms (name -> Poly/Rat/number).  Exponents of substituted atoms must be integers
        unless the replacement is a monomial."""
        out = Poly.const(0)
        for m, c in self.t.items():
            term = Poly.const(c)
            for s, e in m:
                if s in mapping:
                    term = term * (_coerce(mapping[s]) ** e)
                else:
                    term = term * Poly({((s, e),): Z8.ONE})
            out = out + term
        return out

    def degree_in(self, atom):
        return max([e for m in self.t for s, e in m if s == atom] or [0])

    def coeff_of(self, atom, exp):
        """Poly multiplying atom**exp (other atoms left)."""
        d = {}
        exp = Fr(exp)
        for m, c in self.t.items():
            e = dict(m).get(atom, Fr(0))
            if e == exp:
                m2 = tuple((s, x) for s, x in m if s != atom)
                d[m2] = d.get(m2, Z8.ZERO) + c
        return Poly(d)

    def key(self):
        return tuple(sorted(((m, repr(c)) for m, c in self.t.items())))

    def __repr__(self):
        if not self.t:
            return '0'
        out = []
        for m, c in sorted(self.t.items(), key=lambda mc: repr(mc[0])):
            ms = '*'.join(s if e == 1 else '%s^%s' % (s, e) for s, e in m)
            cs = repr(c)
            if not m:
                out.append(cs)
            elif c == Z8.ONE:
                out.append(ms)
            elif c == -Z8.ONE:
                out.append('-' + ms)
            else:
                out.append(cs + '*' + ms)
        return ' + '.join(out).replace('+ -', '- ')


def _raise(msg):
    raise AlgebraError(msg)


def _exact_root(q, e):
    """q ** e for rational q>0 and rational e when the result is rational, else None."""
    if q <= 0:
        return None
    num, den = e.numerator, e.denominator

    def iroot(n, k):
        r = round(n ** (1.0 / k))
        for c in (r - 1, r, r + 1):
            if c >= 0 and c ** k == n:
                return c
        return None
    a, b = iroot(q.numerator, den), iroot(q.denominator, den)
    if a is None or b is None:
        return None
    base = Fr(a, b)
    return base ** num


def _coerce(x):
    if isinstance(x, (Poly, Rat)):
        return x
    return Poly.const(x)


# -------------------------------------------------------------------------- Rat
class Rat(object):
    __slots__ = ('n', 'd')

    def __init__(self, n, d):
        n, d = Poly.of(n), Poly.of(d)
        if d.is_zero():
            raise AlgebraError('division by zero')
        if d.has_j() or n.has_j():
            raise AlgebraError('rational function over a ring with zero divisors')
        self.n, self.d = n, d

    @staticmethod
    def of(x):
        if isinstance(x, Rat):
            return x
        return Rat(Poly.of(x), Poly.const(1))

    @staticmethod
    def make(n, d):
        """Quotient, collapsed to Poly when the denominator is a monomial."""
        n, d = Poly.of(n), Poly.of(d)
        if n.is_zero():
            return Poly.const(0)
        if d.is_monomial():
            return n * d.inv()
        if n == d:
            return Poly.const(1)
        return Rat(n, d)

    def __add__(self, o):
        if not isinstance(o, _NUM):
            return NotImplemented
        o = Rat.of(o)
        if self.d == o.d:
            return Rat.make(self.n + o.n, self.d)
        return Rat.make(self.n * o.d + o.n * self.d, self.d * o.d)
    __radd__ = __add__

    def __neg__(self):
        return Rat(-self.n, self.d)

    def __sub__(self, o):
        if not isinstance(o, _NUM):
            return NotImplemented
        return self + (-Rat.of(o))

    def __rsub__(self, o):
        if not isinstance(o, _NUM):
            return NotImplemented
        return Rat.of(o) - self

    def __mul__(self, o):
        if not isinstance(o, _NUM):
            return NotImplemented
        o = Rat.of(o)
        if self.d == o.n:
            return Rat.make(self.n, o.d)
        if self.n == o.d:
            return Rat.make(o.n, self.d)
        return Rat.make(self.n * o.n, self.d * o.d)
    __rmul__ = __mul__

    def inv(self):
        if self.n.is_zero():
            raise AlgebraError('division by zero')
        return Rat.make(self.d, self.n)

    def __truediv__(self, o):
        if not isinstance(o, _NUM):
            return NotImplemented
        o = Rat.of(o)
        return self * o.inv()

    def __rtruediv__(self, o):
        if not isinstance(o, _NUM):
            return NotImplemented
        return Rat.of(o) * self.inv()

    def __pow__(self, e):
        if isinstance(e, Poly):
            e = e.const_value()
        if isinstance(e, Z8):
            e = e.rational()
        e = Fr(e)
        if e.denominator != 1:
            raise AlgebraError('fractional power of rational function')
        n = int(e)
        if n >= 0:
            return Rat.make(self.n ** n, self.d ** n)
        return Rat.make(self.d ** (-n), self.n ** (-n))

    def __eq__(self, o):
        try:
            o = Rat.of(o)
        except AlgebraError:
            return NotImplemented
        return (self.n * o.d - o.n * self.d).is_zero()

    def __ne__(self, o):
        r = self.__eq__(o)
        return r if r is NotImplemented else not r

    def __hash__(self):
        return hash(('Rat',))   # equality is semantic; keep hashing trivial but consistent

    def is_zero(self):
        return self.n.is_zero()

    def atoms(self):
        return self.n.atoms() | self.d.atoms()

    def subs(self, mapping):
        return _coerce(self.n.subs(mapping)) / _coerce(self.d.subs(mapping))

    def key(self):
        return ('rat', self.n.key(), self.d.key())

    def __repr__(self):
        return '(%r)/(%r)' % (self.n, self.d)


_NUM = (int, Fr, float, complex, Z8, Poly, Rat)


def is_scalar(x):
    return isinstance(x, (int, Fr, float, complex, Z8, Poly, Rat)) and not isinstance(x, bool)


def as_alg(x):
    """Coerce python numbers to Poly, leave Poly/Rat."""
    if isinstance(x, (Poly, Rat)):
        return x
    return Poly.const(x)


def alg_equal(a, b):
    a, b = as_alg(a), as_alg(b)
    if (isinstance(a, Rat) or isinstance(b, Rat)) and certainly_different(a, b):
        return False
    if isinstance(a, Rat) or isinstance(b, Rat):
        return Rat.of(a) == Rat.of(b)
    return a == b


def alg_is_zero(a):
    a = as_alg(a)
    return a.is_zero()


def multi_indices(nvars, total):
    """All tuples of nvars non-negative ints with sum == total."""
    if nvars == 1:
        yield (total,)
        return
    for first in range(total + 1):
        for rest in multi_indices(nvars - 1, total - first):
            yield (first,) + rest


def self_test():
    assert Z8.SQRT2 * Z8.SQRT2 == 2
    assert (Z8.I + 1) / Z8.SQRT2 == Z8.ZETA
    assert Z8.ZETA ** 8 == 1 and Z8.I * Z8.I == -1 and Z8.J * Z8.J == -1
    assert (3 * Z8.ZETA).re_im() == ((0, Fr(3, 2)), (0, Fr(3, 2)))
    assert Z8.ZETA.conj() * Z8.ZETA == 1
    x, y = Poly.sym('x'), Poly.sym('y')
    assert (x + y) ** 2 == x * x + 2 * x * y + y * y
    assert (x / y) * y == x
    r = 1 / (x + y)
    assert isinstance(r, Rat) and r * (x + y) == 1
    assert (1 / (1 / x - 1 / y)) == (x * y) / (y - x)
    assert Poly.sym('e') ** Fr(1, 2) * Poly.sym('e') ** Fr(1, 2) == Poly.sym('e')
    assert (Z8.of(-1) + Z8.SQRT2).sign_real() == 1 and (Z8.of(1) - Z8.SQRT2).sign_real() == -1
    return True


if __name__ == '__main__':
    print(self_test())


_POINTS = {}


def _point(atom, k):
    """deterministic 'generic' rational value for an atom (k-th evaluation point)"""
    key = (atom, k)
    if key not in _POINTS:
        import hashlib
        h = int(hashlib.sha1(('%s|%d' % (atom, k)).encode()).hexdigest()[:8], 16)
        _POINTS[key] = Fr(3 + h % 9973, 7 + (h >> 13) % 997)
    return _POINTS[key]


def eval_at(v, k):
    """Exact value (Z8) of a Poly/Rat with integer exponents at the k-th generic rational point."""
    if isinstance(v, (int, Fr)):
        return Z8.of(v)
    if isinstance(v, Rat):
        d = eval_at(v.d, k)
        if d.is_zero():
            raise AlgebraError('generic point hits a pole')
        return eval_at(v.n, k) / d
    tot = Z8.ZERO
    for mono, c in v.t.items():
        term = c
        for s_, e in mono:
            if e.denominator != 1:
                raise AlgebraError('fractional exponent in point evaluation')
            term = term * Z8.of(_point(s_, k) ** int(e))
        tot = tot + term
    return tot


def certainly_different(a, b, points=2):
    """True when a and b (Poly/Rat) take different values at a generic rational point: a sound proof of
    inequality (never claims difference for equal terms).  False = no decision."""
    a, b = as_alg(a), as_alg(b)
    try:
        for k in range(points):
            if eval_at(a, k) != eval_at(b, k):
                return True
    except AlgebraError:
        return False
    return False
