"""Differential conformance suite of the abstract interpreter.

`snippets.py` holds small Python programs (t1 .. tN, concrete values only) covering the language constructs that
refactorings of the analysed package use: descriptors, property factories, @X.getter, decorators and memoisation,
generators, try / finally, closures and default arguments, nonlocal, augmented assignment and aliasing, dunder
protocols, exception classes, comprehensions, sequence ordering, set and dict operations.  Each is run by CPython and by
the interpreter; any difference is a defect of the *tool* (a construct that is silently mis-modelled can turn a correct
refactoring into a false alarm or hide a violation).  Run with `python -m ndverif conformance`; it is also part of
`python -m ndverif selftest`.  It says nothing about the repository."""
import importlib.util
import os
from fractions import Fraction


def _norm(v):
    if isinstance(v, (list, tuple)):
        return tuple(_norm(x) for x in v) if hasattr(v, '_fields') or isinstance(v, tuple) else [_norm(x) for x in v]
    if isinstance(v, dict):
        return {a: _norm(b) for a, b in v.items()}
    if isinstance(v, Fraction):
        # the interpreter keeps floats as exact rationals: compared by value
        return int(v) if v.denominator == 1 else float(v)
    if isinstance(v, float) and v == int(v) and abs(v) < 2 ** 53:
        return int(v)
    return v


def run(repo_root='/repo', verbose=True):
    from ..srcmodel import Repo
    from ..absint import Interp
    from ..libmodels import Models
    path = os.path.join(os.path.dirname(__file__), 'snippets.py')
    spec = importlib.util.spec_from_file_location('ndverif_conformance_real', path)
    real = importlib.util.module_from_spec(spec)
    spec.loader.exec_module(real)
    repo = Repo(repo_root, extra={'t': path})
    names = sorted((n for n in dir(real) if n[0] == 't' and n[1:].isdigit()), key=lambda n: int(n[1:]))
    bad = []
    for name in names:
        models = Models()
        I = Interp(repo, models)
        models.bind(I)
        want = getattr(real, name)()
        try:
            got = I.get_global('t', name)()
        except BaseException as exc:           # noqa: B902 - whatever goes wrong is a finding about the tool
            got = 'EXCEPTION %s: %s' % (type(exc).__name__, str(exc)[:200])
        try:
            ok = _norm(got) == _norm(want)
        except BaseException:                  # noqa: B902
            ok = False
        if not ok:
            bad.append(name)
        if verbose:
            print('conformance %-4s %s' % (name, 'ok' if ok else 'DIFFERS\n   cpython     %r\n   interpreter %r' % (want, got)))
    print('%d snippets, %d differ' % (len(names), len(bad)))
    return bad
