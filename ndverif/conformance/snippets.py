import functools
from collections import namedtuple

Pair = namedtuple('Pair', ['a', 'b'])


def make_prop(name):
    def fget(self):
        return getattr(self, '_' + name)

    def fset(self, value):
        setattr(self, '_' + name, value)
        self.log.append(name)
    return property(fget, fset)


class Base(object):
    kind = 'base'
    x = make_prop('x')

    def __init__(self, x=1):
        self.log = []
        self.x = x
        self._n = 0

    @property
    def n(self):
        return self._n

    @n.setter
    def n(self, v):
        self._n = v * 2

    def who(self):
        return 'base' + self.kind

    @staticmethod
    def st(a, b=2):
        return a * b

    @classmethod
    def cm(cls, a):
        return cls.kind + str(a)

    def template(self):
        return self.hook() + 1

    def hook(self):
        return 10


class Child(Base):
    kind = 'child'

    @Base.n.getter
    def n(self):
        return self._n + 100

    def hook(self):
        return super(Child, self).hook() * 2

    def who(self):
        return 'child/' + super().who()


def memo(fn):
    store = {}

    def wrapper(*args):
        if args not in store:
            store[args] = fn(*args)
        return store[args]
    wrapper.store = store
    return wrapper


CALLS = []


@memo
def slow(a, b=0):
    CALLS.append((a, b))
    return a * 10 + b


@functools.lru_cache(maxsize=None)
def cached(a):
    CALLS.append(('c', a))
    return [a]


def gen(n):
    for i in range(n):
        if i == 3:
            continue
        yield i * i
    else:
        yield -1


def t1():
    o = Base(5)
    o.x = 7
    o.n = 4
    return o.x, o.n, o.log, o.who(), Base.st(3), o.st(3, b=4), Base.cm(1), o.cm(2)


def t2():
    c = Child(2)
    c.n = 3
    return c.n, c.who(), c.template(), Child.cm(5), c.kind, isinstance(c, Base), type(c) is Child


def t3():
    del CALLS[:]
    r = [slow(1), slow(1), slow(1, 2), slow(2)]
    return r, list(CALLS), sorted(slow.store)


def t4():
    del CALLS[:]
    a = cached(1)
    b = cached(1)
    a.append(9)
    return a is b, cached(1), list(CALLS)


def t5():
    return list(gen(5)), sum(gen(4)), [x for x in gen(2)]


def t6():
    out = []
    try:
        try:
            raise ValueError('boom')
        except (TypeError, ValueError) as e:
            out.append(str(e))
            raise KeyError('k')
        finally:
            out.append('fin1')
    except KeyError:
        out.append('key')
    else:
        out.append('else')
    finally:
        out.append('fin2')
    return out


def t7():
    fs = [lambda x, k=k: x + k for k in range(3)]
    gs = [lambda x: x + k for k in range(3)]
    return [f(10) for f in fs], [g(10) for g in gs]


def t8():
    p = Pair(1, 2)
    a, b = p
    q = p._replace(b=5)
    return p.a + p.b, a, b, q, q._asdict() == {'a': 1, 'b': 5}, p[1], len(p), isinstance(p, tuple)


def t9():
    d = {}
    d.setdefault('a', []).append(1)
    d.setdefault('a', []).append(2)
    x = d.get('b') or 'none'
    y = 0 or None or 3
    z = 1 and 0 and 5
    return d, x, y, z, 'a' in d, [k for k in d], dict(a=1, **{'b': 2})


def t10():
    def outer():
        n = 0

        def inc():
            nonlocal n
            n += 1
            return n
        return inc
    f = outer()
    return f(), f(), f()


def t11():
    a = [1, 2, 3, 4, 5]
    b = a[1:4]
    b[0] = 99
    a[::2] = [0, 0, 0]
    c = a
    c += [7]
    t = (1, 2)
    t += (3,)
    return a, b, c is a, t, a[-1], a[::-1][:2]


def t12(*args, **kw):
    def f(a, b=2, *rest, c=3, **more):
        return a, b, rest, c, sorted(more.items())
    return f(1), f(1, 2, 3, 4, c=5, d=6), f(*[1, 2], **{'c': 9}), f(b=1, a=2)


def t13():
    o = Base()
    o._n = 1
    o.n += 2
    setattr(o, 'n', 5)
    return o.n, o._n, hasattr(o, 'n'), hasattr(o, 'zz'), getattr(o, 'zz', 'dflt')


def t14():
    s = 0
    i = 0
    while True:
        i += 1
        if i % 2:
            continue
        s += i
        if i >= 10:
            break
    else:
        s = -1
    for k in range(3):
        pass
    else:
        s += 100
    return s, i, k


def t15():
    x = 5
    r1 = 'small' if x < 3 else 'mid' if x < 10 else 'big'
    r2 = 1 < x <= 5 < 6
    r3 = not (x == 5 and x != 6)
    return r1, r2, r3, x // 2, -x // 2, x % 3, -x % 3, divmod(-x, 3), 2 ** 3 ** 2, abs(-x), round(2.5), round(3.5), int(-2.7)



class Vec(object):
    registry = []

    def __init__(self, *xs, tags=[]):
        self.xs = list(xs)
        self.tags = tags
        Vec.registry.append(len(xs))

    def __len__(self):
        return len(self.xs)

    def __getitem__(self, i):
        return self.xs[i]

    def __iter__(self):
        return iter(self.xs)

    def __contains__(self, v):
        return v in self.xs

    def __eq__(self, o):
        return isinstance(o, Vec) and self.xs == o.xs

    def __add__(self, o):
        return Vec(*[a + b for a, b in zip(self.xs, o.xs)])

    def __radd__(self, o):
        return Vec(*[o + a for a in self.xs])

    def __neg__(self):
        return Vec(*[-a for a in self.xs])

    def __call__(self, k):
        return [a * k for a in self.xs]

    def __bool__(self):
        return any(self.xs)

    def __repr__(self):
        return 'Vec%r' % (tuple(self.xs),)


class MyErr(ValueError):
    pass


def t16():
    del Vec.registry[:]
    v, w = Vec(1, 2), Vec(3, 4)
    v.tags.append('shared')
    u = v + w
    return (len(u), u[1], list(u), 3 in u, u == Vec(4, 6), u != Vec(4, 6), (1 + v).xs, (-v).xs, v(2), bool(Vec(0, 0)), w.tags,
            list(Vec.registry), repr(u), [a for a in v], sum(v), max(w))


def t17():
    out = []
    try:
        raise MyErr('mine')
    except ValueError as e:
        out.append(type(e).__name__ + ':' + str(e))
    try:
        try:
            raise MyErr('inner')
        except KeyError:
            out.append('wrong')
    except MyErr as e:
        out.append('outer ' + e.args[0])
    try:
        assert 1 == 2, 'msg'
    except AssertionError as e:
        out.append('assert ' + str(e))
    try:
        [][1]
    except IndexError:
        out.append('index')
    try:
        {}['k']
    except KeyError:
        out.append('key')
    try:
        int('x')
    except ValueError:
        out.append('int')
    return out


def t18():
    a = list(range(10))
    first, *mid, last = a
    (p, q), r = (1, 2), 3
    return (a[2:8:3], a[::-3], a[-3:], a[:-7:-1], first, mid[:2], last, p, q, r, sorted(a, key=lambda v: -v)[:3],
            sorted([(2, 'b'), (1, 'z'), (2, 'a')]), (1, 2) < (1, 3), [1, 2] == [1, 2], min(a[3:6]), list(zip(a, 'ab')),
            list(enumerate('xy', 5)), list(reversed(a[:3])), dict(zip('ab', a)), {k: v for k, v in enumerate('ab')})


def t19():
    s = {1, 2, 3}
    t = set([3, 4])
    d = {'b': 1, 'a': 2}
    d['c'] = 0
    d.update(a=5)
    popped = d.pop('b')
    return (sorted(s | t), sorted(s & t), sorted(s - t), 2 in s, list(d), list(d.items()), popped, len(d), d.get('zz', 7),
            '%d-%s-%5.2f' % (3, 'x', 2.5), '{}/{k}'.format(1, k=2), 'abc'.upper()[::-1], ','.join(str(i) for i in range(3)),
            'a b'.split(), 'x'.startswith('x'), None is None, d is not None)


def chain(n):
    yield from range(n)
    yield from (i * 10 for i in range(2))
    return


def t20():
    g = (i * i for i in range(5))
    first = next(g)
    rest = list(g)
    it = iter([1, 2, 3])
    nx = next(it)
    return first, rest, list(chain(3)), nx, list(it), next(iter([]), 'empty'), any(v > 3 for v in range(5)), all([]), list(map(abs, [-1, 2])), list(filter(None, [0, 1, 2]))


class A(object):
    def __init__(self):
        self.order = ['A']
        self.setup()

    def setup(self):
        self.order.append('A.setup')

    @property
    def val(self):
        return 1

    def describe(self):
        return 'val=%d' % self.val


class B(A):
    def __init__(self, extra):
        self.extra = extra
        super().__init__()
        self.order.append('B')

    def setup(self):
        super().setup()
        self.order.append('B.setup:' + str(self.extra))

    @property
    def val(self):
        return super().val + 10


def t21():
    b = B(7)
    return b.order, b.val, b.describe(), A().describe(), isinstance(b, (int, A)), issubclass(B, A), B.__name__, type(b).__name__


def t22():
    acc = []

    def f(x, store=acc):
        store.append(x)
        return len(store)
    r = [f(1), f(2)]
    acc2 = acc
    acc2 = acc2 + [9]
    k = 0
    vals = []
    while (k := k + 1) < 4:
        vals.append(k)
    cond = [i for i in range(6) if i % 2 if i > 1]
    nested = [(i, j) for i in range(2) for j in range(i + 1)]
    return r, acc, acc2, vals, cond, nested, (lambda *a, **k: (a, k))(1, b=2)


class Alias(object):
    scale = 3

    def _mul(self, k):
        return k * self.scale

    def _add(self, k):
        return k + self.scale
    times, plus = _mul, _add
    double_scale = scale * 2
    table = {'m': _mul}


def marker(fn):
    fn.tagged = True
    return fn


@marker
def tagged_fn():
    return 1


def plain_fn():
    return 2


def t23():
    a = Alias()
    return (a.times(2), a.plus(2), Alias.double_scale, a.table['m'](a, 5), getattr(tagged_fn, 'tagged', False),
            getattr(plain_fn, 'tagged', False), hasattr(plain_fn, 'tagged'), tagged_fn(), plain_fn.__name__)


class Span(namedtuple('Span', ['lo', 'hi'])):
    """a record with methods"""
    __slots__ = ()

    def width(self):
        return self.hi - self.lo

    def shifted(self, d):
        return self._replace(lo=self.lo + d, hi=self.hi + d)

    @property
    def mid2(self):
        return self.lo + self.hi


def t24():
    s = Span(1, 4)
    lo, hi = s
    t = s.shifted(2)
    return (s.width(), lo, hi, s[1], len(s), t.lo, t.hi, t.width(), s.mid2, isinstance(s, tuple), s == (1, 4), t == Span(3, 6),
            s._fields, s._asdict() == {'lo': 1, 'hi': 4}, Span(hi=9, lo=2).width(), [v for v in t])


# ---------------------------------------------------------------- modern python constructs (round 8)
import dataclasses      # noqa: E402
import itertools        # noqa: E402
import operator         # noqa: E402


def t25():
    # walrus, conditional expressions, chained comparisons, star unpacking
    data = [3, 1, 4, 1, 5, 9, 2, 6]
    out = []
    if (n := len(data)) > 5:
        out.append(n)
    first, *mid, last = data
    out.append((first, mid, last))
    out.append([y for x in data if (y := x * 2) > 6])
    out.append(1 < data[2] <= 4 < 9)
    out.append('big' if n > 10 else 'small')
    a, (b, c) = 1, (2, 3)
    out.append((a, b, c))
    out.append([*data[:2], *data[-2:]])
    out.append({**{'a': 1}, 'b': 2})
    return out


def t26():
    # late binding of loop variables in closures, defaults binding early, generator consumed twice
    late = [lambda: i for i in range(3)]
    early = [lambda i=i: i for i in range(3)]
    fs = []
    for k in range(3):
        def f(x):
            return x + k
        fs.append(f)
    gen = (v * v for v in range(4))
    s1 = sum(gen)
    s2 = sum(gen)
    it = iter([1, 2, 3, 4])
    pairs = list(zip(it, it))
    return ([g() for g in late], [g() for g in early], [g(10) for g in fs], s1, s2, pairs)


def t27():
    # zip truncation, enumerate start, reversed, sorted with key, min / max with key, any / all over generators
    a, b = [1, 2, 3, 4], ['x', 'y', 'z']
    return (list(zip(a, b)), list(enumerate(b, 1)), list(reversed(a)), sorted(b, reverse=True),
            sorted([(2, 'b'), (1, 'z'), (2, 'a')], key=lambda t: t[0]), max(a, key=lambda v: -v), min(b),
            any(v > 3 for v in a), all(v > 1 for v in a), list(map(lambda p, q: p * 2, a, b)), list(filter(None, [0, 1, '', 'a'])),
            dict(zip(b, a)), list(range(10, 0, -3)), sum(v for v in a if v % 2))


def t28():
    # itertools / functools / operator
    import functools as ft
    return (list(itertools.product([0, 1], 'ab')), list(itertools.chain([1], (2, 3))), list(itertools.accumulate([1, 2, 3, 4])),
            list(itertools.islice(itertools.count(5), 3)), list(itertools.combinations(range(4), 2))[:4],
            list(itertools.zip_longest([1, 2, 3], 'a', fillvalue=None)), list(itertools.repeat(7, 2)),
            list(itertools.permutations([1, 2, 3], 2))[:3], list(itertools.starmap(pow, [(2, 3), (3, 2)])),
            ft.reduce(operator.mul, [1, 2, 3, 4], 1), ft.partial(pow, 2)(5), ft.partial(int, base=2)('101'),
            operator.itemgetter(1)([5, 6, 7]), operator.attrgetter('real')(3), operator.add(2, 3), operator.neg(4),
            list(itertools.chain.from_iterable([[1, 2], [3]])), list(itertools.accumulate([1, 2, 3], operator.mul)))


@dataclasses.dataclass
class Opts(object):
    n: int = 1
    order: int = 2
    tags: list = dataclasses.field(default_factory=list)

    def total(self):
        return self.n + self.order

    @property
    def twice(self):
        return 2 * self.n


@dataclasses.dataclass(frozen=True)
class Key(object):
    method: str
    n: int = 1


def t29():
    o, p = Opts(), Opts(3, order=4)
    o.tags.append('x')
    q = dataclasses.replace(p, n=5)
    k = Key('central', 2)
    try:
        k.n = 3
        frozen = False
    except Exception as exc:       # dataclasses.FrozenInstanceError is an AttributeError
        frozen = isinstance(exc, AttributeError)
    return (o.n, o.order, p.total(), p.twice, o.tags, p.tags, q.n, q.order, o == Opts(tags=['x']), p == q, k == Key('central', 2),
            {k: 1}[Key('central', 2)], frozen, dataclasses.asdict(q), dataclasses.astuple(k))


def t30():
    # match statements
    def kind(v):
        match v:
            case 0:
                return 'zero'
            case int() | float() if v < 0:
                return 'negative'
            case int():
                return 'int'
            case (a, b):
                return 'pair %s %s' % (a, b)
            case [a, *rest]:
                return 'seq %s %d' % (a, len(rest))
            case {'method': m}:
                return 'method ' + m
            case str() as s:
                return 'str ' + s
            case None:
                return 'none'
            case _:
                return 'other'
    return [kind(v) for v in (0, -2.5, 7, (1, 2), [1, 2, 3], {'method': 'central', 'n': 1}, 'abc', None, 2.5)]


class Lazy(object):
    calls = 0

    def __init__(self, n):
        self.n = n

    @functools.cached_property
    def table(self):
        Lazy.calls += 1
        return [self.n] * 2

    @classmethod
    def of(cls, n):
        return cls(n + 1)

    def __repr__(self):
        return f'Lazy({self.n!r})'


class Lazier(Lazy):
    def __init__(self, n):
        super().__init__(n * 10)


def t31():
    a = Lazy(2)
    t1, t2 = a.table, a.table
    a.n = 5
    t3 = a.table
    b = Lazier.of(1)
    return (t1, t1 is t2, t3, Lazy.calls, b.n, type(b).__name__, repr(a), f'{3.14159:.2f}|{42:>5d}|{"x":<3}|{a.n=}', '%5.1f|%-4d|%s' % (2.25, 7, None),
            '{:d}-{name}'.format(3, name='q'))


def t32():
    # keyword-only and positional-only parameters, *args / **kwargs forwarding, try / except / else / finally
    def f(a, b=2, *args, c, d=4, **kw):
        return (a, b, args, c, d, sorted(kw.items()))

    def g(a, /, b, *, c=0):
        return a + b + c
    log = []
    table = {1: 4, 'x': 'y'}
    for v in (1, 0, 'x'):
        try:
            r = 10 / table[v]
        except KeyError:
            log.append('zero')
        except TypeError as exc:
            log.append(type(exc).__name__)
        else:
            log.append(r)
        finally:
            log.append('done')
    try:
        f(1)
        miss = None
    except TypeError:
        miss = 'missing c'
    return (f(1, c=3), f(1, 2, 3, 4, c=5, e=6), g(1, 2), g(1, b=2, c=3), log, miss)


def t33():
    # truthiness, `is` / `==`, `//` / `/`, integer vs float, operator precedence
    vals = [0, 0.0, None, [], (), {}, '', [0], 'a', 1, -1]
    return ([bool(v) for v in vals], 7 // 2, -7 // 2, 7 / 2, 7 % 3, -7 % 3, 2 ** 3 ** 2, -2 ** 2, not 1 == 2, 1 + 2 * 3 - 4 / 2,
            None is None, [] == [], 1 == 1.0, None is not None, (1, 2) < (1, 3), 'a' in 'abc', 3 in [1, 2, 3], divmod(7, 2), round(2.5), round(3.5),
            round(2.625, 2), int(-2.7), abs(-3), 5 if [] else 6, [] or 'default', 0 or None, 1 and 2, 2 ** -1)


def t34():
    # numpy idioms used by vectorised rewrites (concrete data)
    import numpy as np
    a = np.arange(6.0).reshape(2, 3)
    b = np.arange(3.0) + 1
    out = [np.einsum('ij,j->i', a, b).tolist(), np.einsum('ij->ji', a).tolist(), np.einsum('i,i', b, b).item(), np.einsum('i,j->ij', b, b).tolist(),
           np.tensordot(a, b, axes=([1], [0])).tolist(), np.tensordot(a, a, axes=([1], [1])).tolist(), np.outer(b, b).tolist(),
           np.moveaxis(np.zeros((2, 3, 4)), 0, -1).shape, np.swapaxes(np.zeros((2, 3, 4)), 0, 2).shape,
           np.cumsum(b).tolist(), np.cumprod(b).tolist(), np.stack([b, b], axis=1).shape, np.concatenate([b, b]).tolist(), np.r_[b, 9.0].tolist(),
           np.take_along_axis(a, np.array([[2, 0, 1], [0, 1, 2]]), axis=1).tolist(), np.take(a, [0, 2], axis=1).tolist(),
           np.add(b, 1, out=np.zeros(3)).tolist(), np.multiply.outer(b, b).shape, np.matmul(a, b).tolist(), (a @ b).tolist(),
           np.atleast_2d(b).shape, np.expand_dims(b, 0).shape, b[:, None].shape, b[None, :].shape,
           np.broadcast_to(b, (2, 3)).tolist(), np.full((2,), 3.0).tolist(), np.where(b > 1, b, 0).tolist(), np.clip(b, 1.5, 2.5).tolist(),
           np.diff(b).tolist(), np.flip(b).tolist(), np.isclose(b, 2.0).tolist(), np.sum(a, axis=0).tolist(), a.sum(1).tolist(), a.T.shape,
           np.asarray([1, 2]).dtype == np.int64, np.array([1.0]).dtype == float, np.add.reduce(b).item(), np.maximum.reduce(b).item()]
    return out


def t35():
    import numpy as np
    a = np.arange(6.0).reshape(2, 3)
    b = np.arange(3.0) + 1
    c = b.copy()
    c += 1                      # in place
    v = b[1:]                   # view
    v *= 10
    w = np.add(b, 1, where=np.array([True, False, True]), out=np.zeros(3))
    d = np.zeros(3)
    np.multiply(b, 2, out=d)
    e = np.vectorize(lambda x: x + 1)(np.array([1, 2, 3]))
    f = np.fromiter((k * k for k in range(4)), dtype=float)
    g = np.array([b, b]).shape
    h = np.dot(a, b)
    idx = np.argsort(np.array([3.0, 1.0, 2.0]))
    m = np.array([3.0, 1.0, 2.0])[idx]
    return (c.tolist(), b.tolist(), w.tolist(), d.tolist(), e.tolist(), f.tolist(), g, h.tolist(), idx.tolist(), m.tolist(),
            np.sign(np.array([-2.0, 0.0, 3.0])).tolist(), np.abs(np.array([-2.0, 3.0])).tolist(), float(np.prod(b)), np.size(a), np.ndim(a), a.ravel()[::2].tolist(),
            np.triu(np.ones((2, 2))).tolist(), np.eye(2).tolist(), np.linspace(0, 1, 3).tolist(), np.repeat(np.array([1, 2]), 2).tolist(), np.tile(np.array([1, 2]), 2).tolist())


# ---------------------------------------------------------------- module level effects and run-time class attributes
TABLE = {}
TABLE['a'] = 1
for _k in ('b', 'c'):
    TABLE[_k] = len(TABLE) + 1
COUNT: int = 3
COUNT += 1
if COUNT > 3:
    def chosen():
        return 'big'
else:
    def chosen():
        return 'small'
try:
    LIMIT = TABLE['zz']
except KeyError:
    LIMIT = None


class Host(object):
    def base(self):
        return 1

    def twice(self):
        return 2


def _install(cls, table):
    for name, factor in table:
        def method(self, factor=factor):
            return factor * self.base()
        method.__name__ = name
        setattr(cls, name, method)
    for name, factor in table:
        def late(self):
            return factor * self.base()
        setattr(cls, name + '_late', late)


_install(Host, (('twice', 20), ('thrice', 30)))
Host.marker = 'set later'


def t36():
    h = Host()
    return (TABLE, COUNT, chosen(), LIMIT, h.twice(), h.thrice(), h.twice_late(), h.thrice_late(), Host.marker, h.marker,
            hasattr(h, 'four'), Host.thrice.__name__)


def _make_method(k):
    def method(self, other):
        return self.base() * k + other
    return method


def _plain(self, other=0):
    return ('plain', self.base(), other)


class Made(object):
    add3 = _make_method(3)
    lam = lambda self, v: v + self.base()      # noqa: E731
    plain = _plain
    stat = staticmethod(_make_method(5))

    def base(self):
        return 2


Made.later_static = staticmethod(lambda v: v * 2)
Made.later_class = classmethod(lambda cls, v: (cls.__name__, v))


def t37():
    m = Made()
    return (m.add3(1), m.lam(4), m.plain(), m.plain(7), Made.add3(m, 1), Made.later_static(4), m.later_static(5), m.later_class(6),
            Made.stat(m, 1))


class WithClassDefault(object):
    FACTOR = 3
    TABLE = (1, 2)

    def scaled(self, v, k=FACTOR, t=TABLE):
        return v * k + t[1]


def t38():
    w = WithClassDefault()
    WithClassDefault.FACTOR = 10        # later rebinding does not change the default already evaluated
    return (w.scaled(2), w.scaled(2, 5), WithClassDefault.scaled(w, 1))


from typing import NamedTuple, Optional      # noqa: E402


class Terms(NamedTuple):
    step: int
    offset: int = 1
    scale: Optional[float] = 2.0

    def total(self):
        return self.step + self.offset


_TABLE = (Terms(1), Terms(2, 3), Terms(step=4, scale=0.5))


def t39():
    a, b, c = _TABLE
    step, offset, scale = b
    return (a.total(), b.total(), c.scale, step, offset, scale, a == Terms(1, 1, 2.0), a[0], len(c), c._replace(step=9).step, c._fields,
            isinstance(a, tuple))


def t40():
    # a generator defined among the statements of a plain function does not make that function a generator; the selection
    # written as a conditional expression and as a statement
    total = []

    def pairs():
        for k in range(3):
            yield k, -k - 1
        yield from ((9, 9),)

    for a, b in pairs():
        total.append(a - b)
    lo, hi = 2, 7
    big = hi if hi > lo else lo
    if lo < hi:
        lo = hi
    return (total, big, lo, sum(v for v in total))
