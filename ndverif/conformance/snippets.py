import functools
from collections import namedtuple

Pair = namedtuple('Pair', ['a', 'b'])


def make_prop(name):
    def fget(self):
        return getattr(self, '_' + name)

    def fset(self, value):
        setattr(self, '_' + name, value)
        self.log.append(name)
    return property(fget, fset)


class Base(object):
    kind = 'base'
    x = make_prop('x')

    def __init__(self, x=1):
        self.log = []
        self.x = x
        self._n = 0

    @property
    def n(self):
        return self._n

    @n.setter
    def n(self, v):
        self._n = v * 2

    def who(self):
        return 'base' + self.kind

    @staticmethod
    def st(a, b=2):
        return a * b

    @classmethod
    def cm(cls, a):
        return cls.kind + str(a)

    def template(self):
        return self.hook() + 1

    def hook(self):
        return 10


class Child(Base):
    kind = 'child'

    @Base.n.getter
    def n(self):
        return self._n + 100

    def hook(self):
        return super(Child, self).hook() * 2

    def who(self):
        return 'child/' + super().who()


def memo(fn):
    store = {}

    def wrapper(*args):
        if args not in store:
            store[args] = fn(*args)
        return store[args]
    wrapper.store = store
    return wrapper


CALLS = []


@memo
def slow(a, b=0):
    CALLS.append((a, b))
    return a * 10 + b


@functools.lru_cache(maxsize=None)
def cached(a):
    CALLS.append(('c', a))
    return [a]


def gen(n):
    for i in range(n):
        if i == 3:
            continue
        yield i * i
    else:
        yield -1


def t1():
    o = Base(5)
    o.x = 7
    o.n = 4
    return o.x, o.n, o.log, o.who(), Base.st(3), o.st(3, b=4), Base.cm(1), o.cm(2)


def t2():
    c = Child(2)
    c.n = 3
    return c.n, c.who(), c.template(), Child.cm(5), c.kind, isinstance(c, Base), type(c) is Child


def t3():
    del CALLS[:]
    r = [slow(1), slow(1), slow(1, 2), slow(2)]
    return r, list(CALLS), sorted(slow.store)


def t4():
    del CALLS[:]
    a = cached(1)
    b = cached(1)
    a.append(9)
    return a is b, cached(1), list(CALLS)


def t5():
    return list(gen(5)), sum(gen(4)), [x for x in gen(2)]


def t6():
    out = []
    try:
        try:
            raise ValueError('boom')
        except (TypeError, ValueError) as e:
            out.append(str(e))
            raise KeyError('k')
        finally:
            out.append('fin1')
    except KeyError:
        out.append('key')
    else:
        out.append('else')
    finally:
        out.append('fin2')
    return out


def t7():
    fs = [lambda x, k=k: x + k for k in range(3)]
    gs = [lambda x: x + k for k in range(3)]
    return [f(10) for f in fs], [g(10) for g in gs]


def t8():
    p = Pair(1, 2)
    a, b = p
    q = p._replace(b=5)
    return p.a + p.b, a, b, q, q._asdict() == {'a': 1, 'b': 5}, p[1], len(p), isinstance(p, tuple)


def t9():
    d = {}
    d.setdefault('a', []).append(1)
    d.setdefault('a', []).append(2)
    x = d.get('b') or 'none'
    y = 0 or None or 3
    z = 1 and 0 and 5
    return d, x, y, z, 'a' in d, [k for k in d], dict(a=1, **{'b': 2})


def t10():
    def outer():
        n = 0

        def inc():
            nonlocal n
            n += 1
            return n
        return inc
    f = outer()
    return f(), f(), f()


def t11():
    a = [1, 2, 3, 4, 5]
    b = a[1:4]
    b[0] = 99
    a[::2] = [0, 0, 0]
    c = a
    c += [7]
    t = (1, 2)
    t += (3,)
    return a, b, c is a, t, a[-1], a[::-1][:2]


def t12(*args, **kw):
    def f(a, b=2, *rest, c=3, **more):
        return a, b, rest, c, sorted(more.items())
    return f(1), f(1, 2, 3, 4, c=5, d=6), f(*[1, 2], **{'c': 9}), f(b=1, a=2)


def t13():
    o = Base()
    o._n = 1
    o.n += 2
    setattr(o, 'n', 5)
    return o.n, o._n, hasattr(o, 'n'), hasattr(o, 'zz'), getattr(o, 'zz', 'dflt')


def t14():
    s = 0
    i = 0
    while True:
        i += 1
        if i % 2:
            continue
        s += i
        if i >= 10:
            break
    else:
        s = -1
    for k in range(3):
        pass
    else:
        s += 100
    return s, i, k


def t15():
    x = 5
    r1 = 'small' if x < 3 else 'mid' if x < 10 else 'big'
    r2 = 1 < x <= 5 < 6
    r3 = not (x == 5 and x != 6)
    return r1, r2, r3, x // 2, -x // 2, x % 3, -x % 3, divmod(-x, 3), 2 ** 3 ** 2, abs(-x), round(2.5), round(3.5), int(-2.7)



class Vec(object):
    registry = []

    def __init__(self, *xs, tags=[]):
        self.xs = list(xs)
        self.tags = tags
        Vec.registry.append(len(xs))

    def __len__(self):
        return len(self.xs)

    def __getitem__(self, i):
        return self.xs[i]

    def __iter__(self):
        return iter(self.xs)

    def __contains__(self, v):
        return v in self.xs

    def __eq__(self, o):
        return isinstance(o, Vec) and self.xs == o.xs

    def __add__(self, o):
        return Vec(*[a + b for a, b in zip(self.xs, o.xs)])

    def __radd__(self, o):
        return Vec(*[o + a for a in self.xs])

    def __neg__(self):
        return Vec(*[-a for a in self.xs])

    def __call__(self, k):
        return [a * k for a in self.xs]

    def __bool__(self):
        return any(self.xs)

    def __repr__(self):
        return 'Vec%r' % (tuple(self.xs),)


class MyErr(ValueError):
    pass


def t16():
    del Vec.registry[:]
    v, w = Vec(1, 2), Vec(3, 4)
    v.tags.append('shared')
    u = v + w
    return (len(u), u[1], list(u), 3 in u, u == Vec(4, 6), u != Vec(4, 6), (1 + v).xs, (-v).xs, v(2), bool(Vec(0, 0)), w.tags,
            list(Vec.registry), repr(u), [a for a in v], sum(v), max(w))


def t17():
    out = []
    try:
        raise MyErr('mine')
    except ValueError as e:
        out.append(type(e).__name__ + ':' + str(e))
    try:
        try:
            raise MyErr('inner')
        except KeyError:
            out.append('wrong')
    except MyErr as e:
        out.append('outer ' + e.args[0])
    try:
        assert 1 == 2, 'msg'
    except AssertionError as e:
        out.append('assert ' + str(e))
    try:
        [][1]
    except IndexError:
        out.append('index')
    try:
        {}['k']
    except KeyError:
        out.append('key')
    try:
        int('x')
    except ValueError:
        out.append('int')
    return out


def t18():
    a = list(range(10))
    first, *mid, last = a
    (p, q), r = (1, 2), 3
    return (a[2:8:3], a[::-3], a[-3:], a[:-7:-1], first, mid[:2], last, p, q, r, sorted(a, key=lambda v: -v)[:3],
            sorted([(2, 'b'), (1, 'z'), (2, 'a')]), (1, 2) < (1, 3), [1, 2] == [1, 2], min(a[3:6]), list(zip(a, 'ab')),
            list(enumerate('xy', 5)), list(reversed(a[:3])), dict(zip('ab', a)), {k: v for k, v in enumerate('ab')})


def t19():
    s = {1, 2, 3}
    t = set([3, 4])
    d = {'b': 1, 'a': 2}
    d['c'] = 0
    d.update(a=5)
    popped = d.pop('b')
    return (sorted(s | t), sorted(s & t), sorted(s - t), 2 in s, list(d), list(d.items()), popped, len(d), d.get('zz', 7),
            '%d-%s-%5.2f' % (3, 'x', 2.5), '{}/{k}'.format(1, k=2), 'abc'.upper()[::-1], ','.join(str(i) for i in range(3)),
            'a b'.split(), 'x'.startswith('x'), None is None, d is not None)


def chain(n):
    yield from range(n)
    yield from (i * 10 for i in range(2))
    return


def t20():
    g = (i * i for i in range(5))
    first = next(g)
    rest = list(g)
    it = iter([1, 2, 3])
    nx = next(it)
    return first, rest, list(chain(3)), nx, list(it), next(iter([]), 'empty'), any(v > 3 for v in range(5)), all([]), list(map(abs, [-1, 2])), list(filter(None, [0, 1, 2]))


class A(object):
    def __init__(self):
        self.order = ['A']
        self.setup()

    def setup(self):
        self.order.append('A.setup')

    @property
    def val(self):
        return 1

    def describe(self):
        return 'val=%d' % self.val


class B(A):
    def __init__(self, extra):
        self.extra = extra
        super().__init__()
        self.order.append('B')

    def setup(self):
        super().setup()
        self.order.append('B.setup:' + str(self.extra))

    @property
    def val(self):
        return super().val + 10


def t21():
    b = B(7)
    return b.order, b.val, b.describe(), A().describe(), isinstance(b, (int, A)), issubclass(B, A), B.__name__, type(b).__name__


def t22():
    acc = []

    def f(x, store=acc):
        store.append(x)
        return len(store)
    r = [f(1), f(2)]
    acc2 = acc
    acc2 = acc2 + [9]
    k = 0
    vals = []
    while (k := k + 1) < 4:
        vals.append(k)
    cond = [i for i in range(6) if i % 2 if i > 1]
    nested = [(i, j) for i in range(2) for j in range(i + 1)]
    return r, acc, acc2, vals, cond, nested, (lambda *a, **k: (a, k))(1, b=2)


class Alias(object):
    scale = 3

    def _mul(self, k):
        return k * self.scale

    def _add(self, k):
        return k + self.scale
    times, plus = _mul, _add
    double_scale = scale * 2
    table = {'m': _mul}


def marker(fn):
    fn.tagged = True
    return fn


@marker
def tagged_fn():
    return 1


def plain_fn():
    return 2


def t23():
    a = Alias()
    return (a.times(2), a.plus(2), Alias.double_scale, a.table['m'](a, 5), getattr(tagged_fn, 'tagged', False),
            getattr(plain_fn, 'tagged', False), hasattr(plain_fn, 'tagged'), tagged_fn(), plain_fn.__name__)


class Span(namedtuple('Span', ['lo', 'hi'])):
    """a record with methods"""
    __slots__ = ()

    def width(self):
        return self.hi - self.lo

    def shifted(self, d):
        return self._replace(lo=self.lo + d, hi=self.hi + d)

    @property
    def mid2(self):
        return self.lo + self.hi


def t24():
    s = Span(1, 4)
    lo, hi = s
    t = s.shifted(2)
    return (s.width(), lo, hi, s[1], len(s), t.lo, t.hi, t.width(), s.mid2, isinstance(s, tuple), s == (1, 4), t == Span(3, 6),
            s._fields, s._asdict() == {'lo': 1, 'hi': 4}, Span(hi=9, lo=2).width(), [v for v in t])
