"""Data-abstract domain (E6 kind + E7 shape + E8 column separability + E9 sign + provenance in one):

DV = (tags, kind, sign, sel)
  tags : frozenset of source identities the value may depend on (data dependence)
  kind : 'f' real | 'c' complex | 'b' bool  (dtype kind)
  sign : 'nonneg' | 'pos' | 'any'
  sel  : frozenset of identities when the value *is* one of the original inputs (reached only through
         selection: slicing, indexing, gather, reshape, multiply by exactly 1), else None

Shapes are concrete (ndarr.Arr), data dependent branches are explored on both sides (Explorer), data
dependent indices are IdxAny values.  The same abstract run answers: which inputs can influence which
output element, is a complex value handed to a real-only kernel, is an error estimate provably >= 0, is
final_step one of the generated steps, what shape comes out.
"""
from fractions import Fraction as Fr

from .srcmodel import AnalysisError, called_names
from .algebra import Poly, Rat, Z8
from . import ndarr
from .ndarr import Arr, Unk, Choice, InterpRaise, InterpTypeError, InterpValueError, ew1, ewn, asarr, _prod


def _kjoin(a, b):
    # 'z' = complex with a definitely non-zero imaginary part; any arithmetic degrades it to 'c'
    a = 'c' if a == 'z' else a
    b = 'c' if b == 'z' else b
    order = 'bifc'
    if a not in order or b not in order:
        # unknown ('?') or object ('O') element kinds: the kind of the result is not known either
        return '?' if 'O' not in (a, b) else 'O'
    return a if order.index(a) >= order.index(b) else b


def tags_of(v):
    """Data tags of any abstract value (DV, Unk, Choice, containers)."""
    if isinstance(v, DV):
        return v.tags
    if isinstance(v, IdxAny):
        return v.tags
    if isinstance(v, Unk):
        return tags_of(v.expr)
    if isinstance(v, Choice):
        return tags_of(v.cond) | tags_of(v.a) | tags_of(v.b)
    if isinstance(v, Arr):
        out = frozenset()
        for e in v.items():
            out |= tags_of(e)
        return out
    if isinstance(v, (tuple, list)):
        out = frozenset()
        for e in v:
            out |= tags_of(e)
        return out
    return frozenset()


def scalar_kind(v):
    if isinstance(v, DV):
        return 'c' if v.kind == 'z' else v.kind
    if isinstance(v, bool):
        return 'b'
    if isinstance(v, int):
        return 'i'
    if isinstance(v, Fr):
        return 'f'
    if isinstance(v, Poly):
        return 'f' if v.is_real() else 'c'
    if isinstance(v, Rat):
        return 'f'
    return 'f'


def scalar_sign(v):
    if isinstance(v, DV):
        return v.sign
    c = ndarr.concrete_real(v)
    if c is not None:
        return 'pos' if c > 0 else ('nonneg' if c == 0 else 'any')
    if isinstance(v, Poly):
        s = ndarr.poly_sign(v)
        if s == 1:
            return 'pos'
        if s == 0:
            return 'nonneg'
    return 'any'


_SIGN_RANK = {'any': 0, 'nonneg': 1, 'pos': 2}


def sign_meet(a, b):
    return a if _SIGN_RANK[a] <= _SIGN_RANK[b] else b


def _is_zero(o):
    if isinstance(o, bool):
        return False
    if isinstance(o, (int, Fr)):
        return o == 0
    if isinstance(o, Poly):
        return o.is_zero()
    return False


class DV(object):
    is_elem_ = True
    __slots__ = ('tags', 'kind', 'sign', 'sel', 'note')

    def __init__(self, tags=(), kind='f', sign='any', sel=None, note=None):
        self.tags = frozenset(tags)
        self.kind, self.sign = kind, sign
        self.sel = frozenset(sel) if sel is not None else None
        self.note = note

    def __repr__(self):
        s = 'DV{%s}%s' % (','.join(sorted(map(str, self.tags))), self.kind)
        if self.sign != 'any':
            s += '+' if self.sign == 'pos' else '>=0'
        if self.sel is not None:
            s += ' sel%s' % sorted(map(str, self.sel))
        return s

    def __eq__(self, o):
        return isinstance(o, DV) and (self.tags, self.kind, self.sign, self.sel) == (o.tags, o.kind, o.sign, o.sel)

    def __hash__(self):
        return hash((self.tags, self.kind, self.sign, self.sel))

    # -- arithmetic
    def _comb(self, o, op):
        if isinstance(o, (Unk,)):
            return DV(self.tags | tags_of(o), self.kind, 'any')
        if isinstance(o, Choice):
            o = DV.choice_(o.cond, o.a, o.b)
        ok = scalar_kind(o)
        kind = _kjoin(self.kind if self.kind != 'b' else 'i', ok if ok not in ('b',) else 'i')
        if kind in ('i', 'b'):
            kind = 'f'
        tags = self.tags | tags_of(o)
        sa, sb = self.sign, scalar_sign(o)
        if kind == 'c':
            sign = 'any'
        elif op in ('add',):
            sign = 'any' if 'any' in (sa, sb) else ('pos' if 'pos' in (sa, sb) else 'nonneg')
        elif op in ('mul', 'div'):
            sign = 'any' if 'any' in (sa, sb) else sign_meet(sa, sb)
            if op == 'div' and sb != 'pos' and sign != 'any':
                sign = 'nonneg'       # x / 0+ may be inf or nan: nonneg-or-nan is recorded as nonneg (nan handled apart)
        else:
            sign = 'any'
        return DV(tags, kind, sign)

    def __add__(self, o):
        if _is_zero(o):
            return self                      # x + 0 is x
        return self._comb(o, 'add')
    __radd__ = __add__

    def __sub__(self, o):
        if _is_zero(o):
            return self
        return self._comb(o, 'sub')

    def __rsub__(self, o):
        return self._comb(o, 'sub')

    def __mul__(self, o):
        c = ndarr.concrete_real(o)
        if c is not None and c == 1 and not isinstance(o, bool):
            return self                      # multiplication by exactly one keeps the value (selection only)
        if c is not None and c == 0:
            return 0
        return self._comb(o, 'mul')
    __rmul__ = __mul__

    def __truediv__(self, o):
        return self._comb(o, 'div')

    def divzero_(self):
        """self / 0: +-inf or nan of the same dtype kind, still a function of the same inputs."""
        return DV(self.tags, self.kind, 'any')

    def __rtruediv__(self, o):
        r = self._comb(o, 'div')
        if self.sign != 'pos':
            r = DV(r.tags, r.kind, 'any' if r.sign == 'any' else 'nonneg')
        return r

    def __pow__(self, o):
        c = ndarr.concrete_real(o)
        r = self._comb(o, 'pow')
        if c is not None and c == int(c) and int(c) % 2 == 0 and self.kind != 'c':
            return DV(r.tags, r.kind, 'nonneg' if self.sign == 'any' else self.sign)
        if self.sign in ('pos', 'nonneg') and self.kind != 'c' and c is not None and c >= 0:
            return DV(r.tags, r.kind, self.sign)
        if self.sign == 'pos' and self.kind != 'c' and c is not None:
            return DV(r.tags, r.kind, 'pos')
        return r

    def __rpow__(self, o):
        r = self._comb(o, 'pow')
        if scalar_sign(o) == 'pos' and self.kind != 'c':
            return DV(r.tags, r.kind, 'pos')
        return r

    def __neg__(self):
        return DV(self.tags, self.kind, 'any')

    def __floordiv__(self, o):
        return self._comb(o, 'floordiv')

    def __mod__(self, o):
        return self._comb(o, 'mod')

    # -- hooks used by ndarr / libmodels
    def abs_(self):
        return DV(self.tags, 'f', 'nonneg')

    def real_(self):
        if self.kind not in ('c', 'z'):
            return self
        return DV(self.tags, 'f', 'any')

    def imag_(self):
        return DV(self.tags, 'f', 'any')

    def conj_(self):
        return DV(self.tags, self.kind, self.sign)

    @property
    def real(self):
        return self.real_()

    @property
    def imag(self):
        return self.imag_()

    def kind_(self):
        return 'c' if self.kind == 'z' else self.kind

    def cmp_(self, op, other):
        return Unk(('cmp', op, self, other))

    def rcmp_(self, op, other):
        return Unk(('cmp', op, other, self))

    def isnan_(self):
        return Unk(('fn', 'isnan', self))

    def isinf_(self):
        return Unk(('fn', 'isinf', self))

    def isfinite_(self):
        return Unk(('fn', 'isfinite', self))

    def iscomplex_(self):
        if self.kind == 'z':
            return True
        if self.kind != 'c':
            return False
        return Unk(('fn', 'iscomplex', self))

    def minmax_(self, which, args):
        tags, kind, signs = frozenset(), 'f', []
        sels = []
        for a in args:
            tags |= tags_of(a)
            kind = _kjoin(kind, scalar_kind(a) if scalar_kind(a) in 'fc' else 'f')
            signs.append(scalar_sign(a))
            sels.append(a.sel if isinstance(a, DV) else None)
        if which == 'max':
            sign = max(signs, key=lambda s: _SIGN_RANK[s])
        else:
            sign = min(signs, key=lambda s: _SIGN_RANK[s])
        sel = frozenset().union(*sels) if all(s is not None for s in sels) else None
        return DV(tags, kind, sign, sel)

    def ufunc_(self, name):
        if name in ('abs', 'absolute'):
            return self.abs_()
        if name in ('exp', 'exp2', 'cosh') and self.kind != 'c':
            return DV(self.tags, 'f', 'pos')
        if name == 'sqrt' and self.kind != 'c':
            return DV(self.tags, 'f', 'nonneg' if self.sign == 'any' else self.sign)
        if name == 'square' and self.kind != 'c':
            return DV(self.tags, 'f', 'nonneg')
        if name == 'real':
            return self.real_()
        if name == 'imag':
            return self.imag_()
        if name in ('conj', 'conjugate'):
            return self
        if name == 'isnan':
            return self.isnan_()
        if name in ('isinf', 'isfinite'):
            return Unk(('fn', name, self))
        if name == 'iscomplex':
            return self.iscomplex_()
        if name == 'isreal':
            return ndarr.s_not(self.iscomplex_())
        if name in ('log', 'log2', 'log10', 'log1p', 'sin', 'cos', 'tan', 'sinh', 'tanh', 'arctan', 'arcsin',
                    'arccos', 'arcsinh', 'arccosh', 'arctanh', 'expm1', 'negative', 'sign', 'floor', 'ceil',
                    'round', 'rint', 'exp', 'exp2', 'cosh', 'sqrt', 'square'):
            return DV(self.tags, self.kind, 'any')
        raise AnalysisError('no data-abstract model for np.%s' % name)

    @staticmethod
    def choice_(cond, a, b):
        """cond ? a : b"""
        tags = tags_of(cond) | tags_of(a) | tags_of(b)
        ka, kb = scalar_kind(a), scalar_kind(b)
        kind = _kjoin(ka if ka in 'fc' else 'f', kb if kb in 'fc' else 'f')
        sign = sign_meet(scalar_sign(a), scalar_sign(b))
        if 'pos' in (scalar_sign(a), scalar_sign(b)) and sign == 'nonneg':
            sign = 'nonneg'
        sa = a.sel if isinstance(a, DV) else None
        sb = b.sel if isinstance(b, DV) else None
        sel = (sa | sb) if (sa is not None and sb is not None) else None
        return DV(tags, kind, sign, sel)


class DataDependentInt(AnalysisError):
    """A data dependent index was needed as a concrete integer (slice bound, loop count): the run cannot go on, but what the
    integer depends on is known - a rule about data dependence can still judge that."""

    def __init__(self, tags, msg):
        AnalysisError.__init__(self, '%s (depends on %s)' % (msg, sorted(map(str, tags))[:4]))
        self.tags = frozenset(tags)


class IdxAny(object):
    """An index whose value depends on data: row unknown (any of 0..nrows-1), tags = what it depends on."""
    __slots__ = ('tags', 'rng', 'col')

    def __init__(self, tags, rng=None, col=None):
        self.tags, self.rng, self.col = frozenset(tags), rng, col

    def __repr__(self):
        return 'IdxAny{%s}%s' % (','.join(sorted(map(str, self.tags))), '' if self.col is None else '@col%s' % self.col)

    def ravel_index_(self, vals, dims):
        """np.ravel_multi_index((rows, cols), dims) element: unknown row, concrete column."""
        if len(vals) != 2 or not isinstance(vals[0], IdxAny):
            raise AnalysisError('ravel_multi_index with a data dependent non-row index')
        col = vals[1]
        if isinstance(col, IdxAny):
            raise AnalysisError('ravel_multi_index with a data dependent column')
        return IdxAny(self.tags, rng=dims, col=int(col))

    # row * ncols + col written by hand is the same flat index as ravel_multi_index((row, col), (nrows, ncols))
    def __mul__(self, k):
        if isinstance(k, int) and not isinstance(k, bool) and k > 0 and self.col is None and self.rng is None:
            return IdxAny(self.tags, rng=('scale', k))
        raise AnalysisError('arithmetic on a data dependent index: %r * %r' % (self, k))
    __rmul__ = __mul__

    def __add__(self, c):
        if isinstance(c, int) and not isinstance(c, bool) and self.rng is not None and self.rng[0] == 'scale' and 0 <= c < self.rng[1]:
            return IdxAny(self.tags, rng=(None, self.rng[1]), col=c)
        raise AnalysisError('arithmetic on a data dependent index: %r + %r' % (self, c))
    __radd__ = __add__

    def flat_get(self, arr):
        """arr.flat[self]: any row of column self.col of a table with shape self.rng"""
        if self.rng is not None and self.rng[0] == 'scale':
            raise AnalysisError('a scaled data dependent index used without a column offset')
        if self.col is None or self.rng is None:
            # completely unknown position: join of everything
            vals = arr.items()
        else:
            nrows, ncols = self.rng
            if nrows is None:
                nrows = arr.size // ncols
            if arr.size != nrows * ncols:
                raise InterpValueError('flat index built for shape %s used on array of size %d' % (self.rng, arr.size))
            vals = [arr.buf.data[arr.pos[r * ncols + self.col]] for r in range(nrows)]
        if not vals:
            raise ndarr.InterpIndexError('index into empty array')
        return join_values(vals, self.tags)

    def __index__(self):
        raise DataDependentInt(self.tags, 'data dependent index used as a concrete integer')

    def int_(self, interp):
        raise DataDependentInt(self.tags, 'int() of a data dependent index [at %s]' % interp.where())

    @staticmethod
    def choice_(cond, a, b):
        tags = tags_of(cond) | tags_of(a) | tags_of(b)
        for v in (a, b):
            if not isinstance(v, (IdxAny, int)):
                raise AnalysisError('choice between an index and %r' % (v,))
        return IdxAny(tags)

    def cmp_(self, op, other):
        return Unk(('cmp', op, self, other))
    rcmp_ = cmp_


def join_values(vals, extra_tags=frozenset()):
    tags = frozenset(extra_tags)
    kind, sign, sels = None, None, []
    for v in vals:
        if isinstance(v, Choice):
            v = DV.choice_(v.cond, v.a, v.b)
        tags |= tags_of(v)
        k = scalar_kind(v)
        k = k if k in 'fc' else 'f'
        kind = k if kind is None else _kjoin(kind, k)
        s = scalar_sign(v)
        sign = s if sign is None else sign_meet(sign, s)
        sels.append(v.sel if isinstance(v, DV) else None)
    sel = frozenset().union(*sels) if sels and all(s is not None for s in sels) else None
    return DV(tags, kind or 'f', sign or 'any', sel)


class UnkInt(object):
    """An integer the analysis does not know (size of a data dependent index set)."""
    __slots__ = ('tags',)

    def __init__(self, tags):
        self.tags = frozenset(tags)

    def _b(self, o):
        return UnkInt(self.tags | tags_of(o))
    __floordiv__ = __add__ = __sub__ = __mul__ = __radd__ = __rsub__ = __rmul__ = _b

    def cmp_(self, op, other):
        return Unk(('cmp', op, self, other))
    rcmp_ = cmp_


ndarr.MASKED_SIZE_HOOK = lambda sel: UnkInt(tags_of(sel.mask))
# min / max of values[mask]: one of the values, which one (and whether there is any) depends on the mask as well
def _masked_reduce(sel, name):
    if not any(isinstance(v, DV) for v in sel.arr.items()):
        raise AnalysisError('%s of a selection by an undetermined boolean mask' % name)
    return join_values(sel.arr.items(), tags_of(sel.mask))


ndarr.MASKED_REDUCE_HOOK = _masked_reduce


class UnkIndexSet(object):
    """np.flatnonzero(mask) for an undetermined mask over `n` positions."""

    def __init__(self, tags, n):
        self.tags, self.n = frozenset(tags), n

    @property
    def size(self):
        return UnkInt(self.tags)

    coarse = False         # True: the set stands for one of several coupled index arrays (np.nonzero of a 2-d mask)

    def __getitem__(self, i):
        if self.coarse:
            # which hit sits at which position couples all columns of the mask (row major order): joining everything would
            # accuse a correct use (np.nonzero(mask.T)) of mixing columns, so this stays undecided
            raise AnalysisError('element of an index array of np.nonzero of an undetermined mask (order of the hits is not modelled)')
        if isinstance(i, Arr):
            return Arr(i.shape, [IdxAny(self.tags | tags_of(v)) for v in i.items()])
        return IdxAny(self.tags | tags_of(i))

    def __len__(self):
        raise AnalysisError('len() of a data dependent index set')


# ---------------------------------------------------------------------------- library hooks for the DV domain
def has_dv(x):
    if isinstance(x, (DV, IdxAny)):
        return True
    if isinstance(x, Arr):
        return any(isinstance(v, (DV, IdxAny, Choice, Unk)) for v in x.items())
    return False


def make_hooks(real_only_sinks=None):
    """Hooks for libmodels.Models giving the data dependent numpy kernels a data-abstract meaning.
    real_only_sinks: list that receives (name, where) when a complex valued array reaches a kernel that
    rejects complex input in the installed numpy (np.percentile, np.nanpercentile)."""
    hooks = {}

    def ufunc(name, x):
        if isinstance(x, DV):
            return x.ufunc_(name)
        if isinstance(x, IdxAny):
            raise AnalysisError('np.%s of a data dependent index' % name)
        return NotImplemented
    hooks['ufunc'] = ufunc

    def percentile(nan_aware):
        def f(models, a, q, axis=None, **kw):
            if isinstance(a, ndarr.MaskedSel):
                # a[mask] flattens: the selected values of *all* columns are pooled into one sample
                pooled = join_values(a.arr.items(), tags_of(a.mask))
                qs = models.np_asarray(q)
                return pooled if qs.ndim == 0 else Arr((qs.shape[0],), [pooled for _ in range(qs.shape[0])])
            a = models.np_asarray(a)
            if not has_dv(a):
                return NotImplemented
            if models.kind_of(a) == 'c':
                raise InterpTypeError("np.%spercentile: complex input is not supported (ufunc 'greater' / sort order "
                                      "undefined for complex in the installed numpy)" % ('nan' if nan_aware else ''))
            qs = models.np_asarray(q)
            red = models._reduce(a, axis, lambda col: join_values(col), 'percentile')
            if qs.ndim == 0:
                return red
            outs = [red.copy() if isinstance(red, Arr) else red for _ in range(qs.shape[0])]
            if isinstance(red, Arr):
                return asarr(list(outs))
            return Arr((qs.shape[0],), outs)
        return f
    hooks['np.percentile'] = percentile(False)
    hooks['np.nanpercentile'] = percentile(True)
    hooks['np.median'] = lambda models, a, axis=None, **kw: (
        NotImplemented if not has_dv(models.np_asarray(a)) else
        models._reduce(a, axis, lambda col: join_values(col), 'median'))
    hooks['np.nanmedian'] = hooks['np.median']

    def nanargmin(models, a, axis=None, **kw):
        a = models.np_asarray(a)
        if not has_dv(a):
            return NotImplemented
        if a.size == 0:
            raise InterpValueError('attempt to get argmin of an empty sequence')
        return models._reduce(a, axis, lambda col: IdxAny(tags_of(col)), 'argmin')
    hooks['np.nanargmin'] = nanargmin
    hooks['np.argmin'] = nanargmin
    hooks['np.argmax'] = nanargmin

    def nanmin(models, a, axis=None, **kw):
        a = models.np_asarray(a)
        if not has_dv(a):
            return NotImplemented
        if a.size == 0:
            raise InterpValueError('zero-size array to reduction operation fmin which has no identity')
        return models._reduce(a, axis, lambda col: join_values(col), 'min')
    for nm in ('np.nanmin', 'np.nanmax', 'np.min', 'np.max', 'np.amin', 'np.amax'):
        hooks[nm] = nanmin

    def flatnonzero(models, a):
        a = models.np_asarray(a).ravel()
        items = a.items()
        if any(isinstance(v, (Unk, Choice, DV)) for v in items):
            return UnkIndexSet(tags_of(a), a.size)
        return NotImplemented
    hooks['np.flatnonzero'] = flatnonzero

    def nonzero(models, a):
        a = models.np_asarray(a)
        if any(isinstance(v, (Unk, Choice, DV)) for v in a.items()):
            # one index set per dimension, each of unknown size and content (row major order of the hits is not modelled:
            # whatever is read through these sets depends on the whole mask)
            sets = tuple(UnkIndexSet(tags_of(a), n) for n in a.shape)
            if len(sets) > 1:
                for st in sets:
                    st.coarse = True
            return sets
        return NotImplemented
    hooks['np.nonzero'] = nonzero

    def take_along_axis(models, arr, indices, axis):
        arr, indices = models.np_asarray(arr), models.np_asarray(indices)
        if not any(isinstance(v, IdxAny) for v in indices.items()):
            return NotImplemented
        if axis is None or arr.ndim != indices.ndim:
            raise AnalysisError('np.take_along_axis with data dependent indices: axis=None / ranks differ')
        axis = axis % arr.ndim
        # an index computed from data picks any entry of its line along `axis`: the value read is the join of that line
        # (plus what the index itself depends on)
        shape = list(indices.shape)
        items = []
        import itertools as _it
        for idx in _it.product(*[range(n) for n in shape]):
            k = indices[idx]
            line = [arr[tuple((r if d == axis else (i if arr.shape[d] != 1 else 0)) for d, i in enumerate(idx))]
                    for r in range(arr.shape[axis])]
            if isinstance(k, IdxAny):
                items.append(join_values(line, k.tags))
            else:
                items.append(line[int(k)])
        return Arr(tuple(shape), items)
    hooks['np.take_along_axis'] = take_along_axis

    def np_where(models, cond, a=None, b=None):
        if a is None:
            return NotImplemented

        def pick(c, x, y):
            if c is True:
                return x
            if c is False:
                return y
            if isinstance(c, (Unk, DV)):
                if any(isinstance(v, (DV, Choice)) for v in (x, y)) or isinstance(c, DV):
                    return DV.choice_(c, x, y)
                return Choice(c, x, y)
            if isinstance(c, int):
                return x if c else y
            raise AnalysisError('np.where condition %r' % (c,))
        return ewn(pick, cond, a, b)
    hooks['np.where'] = np_where

    def np_sum(models, a, axis=None, **kw):
        a = models.np_asarray(a)
        if not has_dv(a):
            return NotImplemented

        def red(col):
            acc = 0
            for v in col:
                if isinstance(v, Choice):
                    v = DV.choice_(v.cond, v.a, v.b)
                acc = ndarr.s_add(acc, v)
            return acc
        return models._reduce(a, axis, red, 'sum', empty=0)
    hooks['np.sum'] = np_sum

    def norm(models, x, *a, **kw):
        x = models.np_asarray(x)
        if not has_dv(x):
            return NotImplemented
        return DV(tags_of(x), 'f', 'nonneg')
    hooks['linalg.norm'] = norm

    def fft(models, x, *a, **kw):
        x = models.np_asarray(x)
        tags = tags_of(x)
        return Arr(x.shape, [DV(tags, 'c') for _ in range(x.size)])
    hooks['np.fft.fft'] = fft

    def real_if_close(models, a, tol=100):
        """Data-abstract np.real_if_close: whether the imaginary parts are dropped depends on an *absolute* test
        (|imag| < tol * eps for all elements); the result may be either, its kind is not determined."""
        a = models.np_asarray(a)
        mk = lambda v: DV(tags_of(v), '?', note='real_if_close: imaginary parts dropped when all |imag| < %s eps (absolute)' % (tol,))
        return Arr(a.shape, [mk(v) for v in a.items()]) if isinstance(a, Arr) else mk(a)
    # (not installed: np.real_if_close of undetermined imaginary parts is a decision of the program, explored on both sides)

    def convolve1d(models, seq, weights, axis=-1, mode='reflect', origin=0):
        """Data-abstract convolve1d: interior slots as in the exact model; a border slot (window leaves the
        array, value depends on the boundary mode) is some finite combination of its own column."""
        seq = models.np_asarray(seq)
        if not has_dv(seq):
            return NotImplemented
        saved = models.hooks.pop('convolve1d')
        try:
            res = models.convolve1d(seq, weights, axis=axis, mode=mode, origin=origin)
        finally:
            models.hooks['convolve1d'] = saved
        from .libmodels import BORDER
        if not any(v is BORDER for v in res.items()):
            return res
        ax = axis % seq.ndim
        perm = [ax] + [k for k in range(seq.ndim) if k != ax]
        m_in, m_out = seq.transpose(perm), res.transpose(perm)
        n0 = m_in.shape[0]
        cols = _prod(m_in.shape[1:])
        it_in, it_out = m_in.items(), m_out.items()
        for c in range(cols):
            col = join_values([it_in[r * cols + c] for r in range(n0)], tags_of(models.np_asarray(weights)))
            col = DV(col.tags, col.kind, 'any')
            for r in range(n0):
                if it_out[r * cols + c] is BORDER:
                    m_out.buf.data[m_out.pos[r * cols + c]] = col
        return res
    hooks['convolve1d'] = convolve1d

    def kind_of(a):
        if isinstance(a, DV):
            return a.kind
        if isinstance(a, IdxAny):
            return 'i'
        return NotImplemented
    hooks['kind_of'] = kind_of
    return hooks


# ---------------------------------------------------------------------------- exploring undetermined branches
def classify_predicate(v):
    """'nan-test' (only isnan / isfinite leaves), 'dtype-test' (iscomplexobj ..), 'zero-test' (comparisons with 0), else 'other'"""
    kinds = set()

    def walk(e):
        if isinstance(e, Unk):
            walk(e.expr)
        elif isinstance(e, str):
            kinds.add('dtype-test' if 'iscomplex' in e or 'isreal' in e else ('nan-test' if 'isnan' in e else 'other'))
        elif isinstance(e, tuple) and e:
            if e[0] == 'fn':
                kinds.add('nan-test' if e[1] in ('isnan', 'isfinite', 'isinf') else 'other')
            elif e[0] == 'cmp':
                z = [ndarr.concrete_real(x) for x in (e[2], e[3])]
                kinds.add('zero-test' if any(c is not None and c == 0 for c in z) else 'other')
            else:
                for x in e[1:]:
                    walk(x)
        elif isinstance(e, list):
            for x in e:
                walk(x)
    walk(v)
    return kinds.pop() if len(kinds) == 1 else 'other'


def logical_shape(v, leaf=None):
    """How a predicate combines its comparisons.  Each comparison leaf is read as a boolean variable or its negation -
    by default an ordering comparison is 'left is within / below right' (<=, <) or the negation of that (>, >=); `leaf(e)`
    may give another reading and returns (variable key, positive?) or raises ValueError for a leaf it cannot read.
    -> ('all', n) when the predicate holds exactly if all n variables hold, ('any', n) when it fails exactly if all n fail,
    ('not-all', n) / ('not-any', n) for their negations, else ('other', n).  Lets a rule tell an `everything agreed` guard
    from a `something agreed` guard by what they compute, not by their names."""
    import itertools

    def default_leaf(e):
        if e[1] not in ('<', '<=', '>', '>='):
            raise ValueError
        return id(e), e[1] in ('<', '<=')
    leaf = leaf or default_leaf
    keys = []

    def ev(e, env):
        if isinstance(e, Unk):
            return ev(e.expr, env)
        if isinstance(e, bool):
            return e
        if isinstance(e, tuple) and e:
            if e[0] == 'cmp':
                key, positive = leaf(e)
                if env is None:
                    if key not in keys:
                        keys.append(key)
                    return True
                return env[key] if positive else not env[key]
            if e[0] == 'not' and len(e) == 2:
                return not ev(e[1], env)
            if e[0] in ('or', 'any'):
                return any([ev(x, env) for x in _operands(e[1:])])
            if e[0] in ('and', 'all'):
                return all([ev(x, env) for x in _operands(e[1:])])
        raise ValueError

    def _operands(xs):
        out = []
        for x in xs:
            out.extend(x if isinstance(x, list) else [x])
        return out
    try:
        ev(v, None)                 # collects the variables (every operand is visited: no short circuit above)
        n = len(keys)
        if not 2 <= n <= 6:
            return ('other', n)
        table = {bits: ev(v, dict(zip(keys, bits))) for bits in itertools.product((False, True), repeat=n)}
    except (ValueError, KeyError):
        return ('other', len(keys))
    if all(val == all(bits) for bits, val in table.items()):
        return ('all', n)
    if all(val == any(bits) for bits, val in table.items()):
        return ('any', n)
    if all(val == (not all(bits)) for bits, val in table.items()):
        return ('not-all', n)
    if all(val == (not any(bits)) for bits, val in table.items()):
        return ('not-any', n)
    return ('other', n)


class _NonzeroSteps(dict):
    """Marker for Explorer(pinned=...): the zero filter of the step generators is answered `keep the step` (assumption
    'no generated step is zero', stated by the rules that use it).  The test is recognised by what it is - a branch inside
    step_generators.py on comparisons of magnitudes with zero - not by its source text."""


NONZERO_STEPS = _NonzeroSteps()


def is_nonzero_step_test(interp, node, frame, value):
    if getattr(getattr(frame, 'module', None), 'name', None) != 'step_generators':
        return False
    if not isinstance(value, Unk):
        return False
    cmps = value.comparisons()
    if not cmps:
        return False
    for _, op, a, b in cmps:
        if op in ('>', '!=') and ndarr.concrete_real(b) == 0 and ndarr.concrete_real(b) is not None:
            continue
        if op in ('<', '!=') and ndarr.concrete_real(a) == 0 and ndarr.concrete_real(a) is not None:
            continue
        return False
    return True


def _function_node(interp, qualname):
    """AST node of the function of the package with this qualified name (module.function or module.Class.method)"""
    parts = qualname.split('.')
    repo = getattr(interp, 'repo', None)
    if repo is None or parts[0] not in repo.modules:
        return None
    mod = repo.modules[parts[0]]
    if len(parts) == 2:
        return mod.funcs.get(parts[1])
    if len(parts) == 3 and parts[1] in mod.classes:
        r = mod.classes[parts[1]].lookup(parts[2])
        return r[1] if r is not None else None
    return None


class Explorer(object):
    """Re-runs `body(oracle)` once per combination of outcomes of the undetermined branch *sites* it meets
    (both successors of every such branch are analysed; nothing is solved).  A site (source location of the
    condition) gets one outcome per run, so a predicate evaluated inside a loop is explored as
    'always true' / 'always false'.  body must rebuild its own state on every run.  `pinned` maps a source
    text of a condition to a fixed outcome (stated as an assumption by the rule that pins it)."""

    def __init__(self, max_paths=64, pinned=None, by_value=False):
        self.max_paths = max_paths
        self.pinned = pinned if pinned is not None else {}
        self.by_value = by_value  # True: one outcome per (site, value expression) instead of per site
        self.paths = []           # list of (decisions, result, exception)
        self.site_info = {}       # (text, where) -> (function that contains the test, kind of test)

    def run(self, body):
        import ast as _ast
        pending = [[]]
        done = 0
        while pending:
            prefix = pending.pop()
            decisions = []
            by_site = {}
            by_obj = {}      # id of the undetermined value's expression -> outcome (same value, same outcome)

            def oracle(interp, node, frame, value, prefix=prefix, decisions=decisions, by_site=by_site, by_obj=by_obj):
                text = _ast.unparse(node)
                if self.pinned is NONZERO_STEPS:
                    if is_nonzero_step_test(interp, node, frame, value):
                        return True
                elif text in self.pinned:
                    return self.pinned[text]
                # `not X` and `X` are one decision
                neg = False
                base_text, base_val = text, value
                while base_text.startswith('not '):
                    base_text = base_text[4:]
                    neg = not neg
                    if isinstance(base_val, Unk) and isinstance(base_val.expr, tuple) and base_val.expr[:1] == ('not',):
                        base_val = Unk(base_val.expr[1])
                site = (base_text, frame.module.where(node))
                if self.by_value:
                    site = site + (ndarr.unk_str(base_val) if isinstance(base_val, Unk) else '',)
                oid = id(base_val.expr) if isinstance(base_val, Unk) else None
                if oid is not None and oid in by_obj:
                    return by_obj[oid][0] != neg
                if site in by_site:
                    k = by_site[site]
                    decisions[k] = decisions[k][:3] + (decisions[k][3] | tags_of(value),)
                    if oid is not None:
                        by_obj[oid] = (decisions[k][0], base_val.expr)
                    return decisions[k][0] != neg
                k = len(decisions)
                if k < len(prefix):
                    choice = prefix[k][0]
                else:
                    choice = True
                    pending.append(list(decisions) + [(False,) + site[:2] + (tags_of(value),)])
                by_site[site] = k
                decisions.append((choice,) + site[:2] + (tags_of(value),))
                fn_clo = getattr(frame, 'fn', None)
                fn_node = fn_clo.node if fn_clo is not None and hasattr(fn_clo, 'node') else None
                if fn_node is None and getattr(interp, 'stack', None):
                    # the decision was taken inside a builtin (bool(..), filter(..)): the function being interpreted is the one
                    # on top of the call stack
                    fn_node = _function_node(interp, interp.stack[-1])
                self.site_info[site[:2]] = (interp.stack[-1] if getattr(interp, 'stack', None) else '', classify_predicate(base_val),
                                            logical_shape(base_val),
                                            frozenset(called_names(fn_node)) if fn_node is not None else frozenset())
                if oid is not None:
                    by_obj[oid] = (choice, base_val.expr)     # keeps the expression alive: ids stay unique
                return choice != neg
            try:
                res = body(oracle)
                self.paths.append((decisions, res, None))
            except InterpRaise as exc:
                self.paths.append((decisions, None, exc))
            done += 1
            if done > self.max_paths:
                raise AnalysisError('more than %d paths through undetermined branches' % self.max_paths)
        return self.paths

    def control_predicates(self):
        """Distinct (source text, where) -> tags of the undetermined branch conditions met."""
        out = {}
        for decisions, _, _ in self.paths:
            for d in decisions:
                out[(d[1], d[2])] = out.get((d[1], d[2]), frozenset()) | d[3]
        return out
