"""Helpers to run whole API calls (Derivative.__call__, Jacobian, Hessian, Limit, ...) in the data-abstract
domain of dv.py, exploring both sides of every undetermined branch."""
from fractions import Fraction as Fr

from .srcmodel import AnalysisError
from .algebra import Poly
from . import ndarr
from .ndarr import Arr, Unk, InterpRaise
from .absint import Interp, Obj
from .libmodels import Models
from .dv import DV, IdxAny, make_hooks, Explorer, tags_of
from .pipeline import PinvRegistry, ASSUMED_POSITIVE


class DVSession(object):
    """One fresh interpreter in the DV domain."""

    def __init__(self, repo, oracle):
        self.repo = repo
        self.reg = PinvRegistry()
        hooks = make_hooks()
        hooks['linalg.pinv'] = self.reg.hook
        hooks['linalg.inv'] = self.reg.hook
        hooks['linalg.lstsq'] = self.reg.lstsq_hook
        self.models = Models(hooks=hooks)
        self.interp = Interp(repo, self.models, branch_oracle=oracle)
        self.models.bind(self.interp)
        ndarr.POSITIVE_ATOMS.clear()
        ndarr.POSITIVE_ATOMS.update(ASSUMED_POSITIVE)
        self.fcalls = []

    def elementwise_f(self, kind='f', record_args=True):
        """f applied elementwise: output element c depends on input element c only."""
        calls = self.fcalls
        I = self.interp

        def f(x, *args, **kwds):
            calls.append({'args': args, 'kwds': dict(kwds), 'stack': list(I.stack)})
            extra = tags_of(list(args)) | tags_of(list(kwds.values()))

            def one(v):
                return DV(tags_of(v) | extra, kind if kind == 'c' else ('c' if getattr(v, 'kind', 'f') == 'c' else 'f'))
            if isinstance(x, Arr):
                res = Arr(x.shape, [one(v) for v in x.items()])
                res.memrank = x.mem_rank()            # an elementwise function keeps the memory layout of its argument
                return res
            return one(x)
        return f

    def x_array(self, shape, kind='f'):
        n = 1
        for s in shape:
            n *= s
        items = [DV({('x', c)}, kind, 'any', sel={('x', c)}) for c in range(n)]
        return Arr(tuple(shape), items, kind=kind if kind in ('i', 'c') else 'f')


def explore(repo, body, max_paths=64, pinned=None):
    """body(session) -> result; returns Explorer with .paths"""
    ex = Explorer(max_paths, pinned)

    def run(oracle):
        s = DVSession(repo, oracle)
        return body(s)
    ex.run(run)
    return ex


class StepGenModel(object):
    """A user supplied step generator whose steps carry their identity (sel = {('step', s, c)}), used to decide
    'final_step is one of the generated steps'."""

    def __init__(self, num_steps=7, ratio=None):
        self.num_steps = num_steps
        self.step_ratio = ratio if ratio is not None else Poly.sym('r')
        self.requests = []

    def step_generator_function(self, x, method='forward', n=1, order=2):
        self.requests.append((method, n, order))
        gen = self
        shape = x.shape if isinstance(x, Arr) else ()
        size = 1
        for s in shape:
            size *= s

        class G(object):
            step_ratio = gen.step_ratio

            def __call__(self_inner):
                for s in range(gen.num_steps):
                    items = [DV({('x', c), ('hstep', c)}, 'f', 'pos', sel={('step', s, c)}) for c in range(size)]
                    yield Arr(shape, items)
        return G()

    def __call__(self, x, method='forward', n=1, order=2):
        return self.step_generator_function(x, method, n, order)()


def bicomplex_aware(session, fn_scalar):
    """Wrap an elementwise DV function so that it also accepts Bicomplex objects (returns a Bicomplex)."""
    repo = session.repo
    bic = repo.cls('multicomplex', 'Bicomplex')
    I = session.interp

    def f(x, *args, **kwds):
        if isinstance(x, Obj) and x.cls.is_subclass_of(bic):
            z1, z2 = x.attrs['z1'], x.attrs['z2']
            joined = ndarr.ew2(lambda a, b: DV(tags_of(a) | tags_of(b), 'c'), z1, z2)
            r = fn_scalar(joined, *args, **kwds)
            o = Obj(bic)
            object.__setattr__(o, 'interp', I)
            o.attrs['z1'] = ndarr.ew1(lambda v: DV(tags_of(v), 'c', note=getattr(v, 'note', None)), r)
            o.attrs['z2'] = ndarr.ew1(lambda v: DV(tags_of(v), 'c', note=getattr(v, 'note', None)), r)
            return o
        return fn_scalar(x, *args, **kwds)
    return f


def tensor_f(session, n, out_shape, kind='f', exact_kind=None, reuse_buffer=False):
    """f: R^n -> R^out_shape in the DV domain.  Output element i carries the tag ('f', i, perturbed) where
    perturbed is the tuple of coordinates k whose argument is not exactly x_k; the value at the unperturbed
    x has note 'f(x)'.  Bicomplex arguments give a Bicomplex result."""
    I = session.interp
    bic = session.repo.cls('multicomplex', 'Bicomplex')
    calls = session.fcalls
    shared = {}
    size = 1
    for s in out_shape:
        size *= s

    def f(arg, *args, **kwds):
        calls.append({'args': args, 'kwds': dict(kwds), 'stack': list(I.stack)})
        is_bic = isinstance(arg, Obj) and arg.cls.is_subclass_of(bic)
        if is_bic:
            z1, z2 = arg.attrs['z1'], arg.attrs['z2']
            items = [(a, b) for a, b in zip(z1.ravel().items(), z2.ravel().items())]
        else:
            a = arg if isinstance(arg, Arr) else Arr((), [arg])
            items = [(v, 0) for v in a.ravel().items()]
        if len(items) != n:
            raise InterpRaise('f expects %d variables, got %d' % (n, len(items)), 'ValueError')
        pert = []
        xt = frozenset()
        knd = kind
        for k, (v, w) in enumerate(items):
            exact = isinstance(v, DV) and v.sel == frozenset({('x', k)}) and (ndarr.concrete_real(w) == 0)
            if not exact:
                pert.append(k)
            xt |= tags_of(v) | tags_of(w)
            if getattr(v, 'kind', 'f') == 'c' or is_bic:
                knd = 'c'
        pert = tuple(pert)
        note = 'f(x)' if not pert else None
        if not pert and exact_kind is not None:
            knd = exact_kind              # e.g. integer arithmetic at an integer point gives an integer f(x)
        vals = [DV({('f', i, pert)} | xt, knd, 'any', note=note) for i in range(size)]
        out = Arr(tuple(out_shape), vals) if out_shape != () else vals[0]
        if reuse_buffer and isinstance(out, Arr) and not is_bic:
            # a user function that writes its result into one work array and returns that array on every call
            # (wrapped compiled code, a class with an output buffer): every individual return value is correct
            if 'buf' not in shared:
                shared['buf'] = out
            else:
                shared['buf'][...] = out
            return shared['buf']
        if is_bic:
            o = Obj(bic)
            object.__setattr__(o, 'interp', I)
            o.attrs['z1'] = out if isinstance(out, Arr) else Arr((), [out])
            o.attrs['z2'] = ndarr.ew1(lambda v: DV(v.tags, 'c'), o.attrs['z1'])
            return o
        return out
    return f
