"""Check driver: builds the source model, runs the rules of one property, writes evidence, maps outcomes to
exit codes."""
import importlib
import json
import os
import sys
import time
import traceback

from .srcmodel import Repo, AnalysisError
from .report import Report, VERIF_DIR
from .facts import get_facts

PROPS = ['C%02d' % i for i in range(1, 20)]


class Ctx(object):
    def __init__(self, repo, rep, tier, seed):
        self.repo, self.rep, self.tier, self.seed = repo, rep, tier, seed
        self.facts = get_facts(repo)


def load_rules(prop):
    try:
        return importlib.import_module('ndverif.rules.%s' % prop.lower())
    except ImportError as exc:
        if 'ndverif.rules.%s' % prop.lower() in str(exc):
            return None
        raise


def library_versions():
    out = {}
    base = '/venv/lib/python3.12/site-packages'
    try:
        for d in os.listdir(base):
            if d.endswith('.dist-info') and d.split('-')[0] in ('numpy', 'scipy'):
                out[d.split('-')[0]] = d.split('-')[1].replace('.dist', '')
    except OSError:
        pass
    return out


def analyse(prop, tier, repo_root, seed=0, quiet=False):
    """Run the rules of one property.  Returns the Report (not yet finished).

    The analysed code may ask for the exact type of an abstract number, which the analysis does not know (python float or
    numpy float64): the rules are then run a second time with the other answer and the worse of the two reports counts."""
    from . import absint
    absint.TYPE_WORLD, absint.TYPE_WORLD_USED = 'python', False
    try:
        rep = _analyse_once(prop, tier, repo_root, seed, quiet)
        if absint.TYPE_WORLD_USED:
            absint.TYPE_WORLD = 'numpy'
            rep2 = _analyse_once(prop, tier, repo_root, seed, quiet)

            def badness(r):
                return (sum(1 for i in r.instances if i['verdict'] == 'violation'), sum(1 for i in r.instances if i['verdict'] == 'undecided'))
            worse, other = (rep2, rep) if badness(rep2) > badness(rep) else (rep, rep2)
            worse.notes['type_worlds'] = ('the analysed code asks for the exact type of abstract numbers: analysed once with every such '
                                          'number a python scalar and once with every such number a numpy scalar; this is the report '
                                          'of the world "%s" (the other one: %d violation(s), %d undecided)'
                                          % (('numpy' if worse is rep2 else 'python',) + badness(other)))
            rep = worse
        return rep
    finally:
        absint.TYPE_WORLD, absint.TYPE_WORLD_USED = 'python', False


def _analyse_once(prop, tier, repo_root, seed=0, quiet=False):
    mod = load_rules(prop)
    if mod is None:
        raise AnalysisError('no rules registered for %s' % prop)
    repo = Repo(repo_root)
    rep = Report(prop, tier, seed=seed, repo_root=repo_root, quiet=quiet)
    rep.notes['files'] = repo.digests()
    rep.notes['library_versions'] = library_versions()
    ctx = Ctx(repo, rep, tier, seed)
    mod.run(ctx)
    return rep


class budget(object):
    """with budget(seconds): ...  raises AnalysisError inside the block when it uses more CPU time than that.  CPU time
    (ITIMER_VIRTUAL), not wall time, so a loaded machine (the thorough tier runs 16 jobs) does not turn into an
    analysis error; the global wall-clock watchdog stays armed independently."""

    def __init__(self, seconds, what=''):
        self.seconds, self.what = seconds, what

    def __enter__(self):
        import signal
        self.old_handler = signal.getsignal(signal.SIGVTALRM)
        self.outer = signal.setitimer(signal.ITIMER_VIRTUAL, 0)[0]

        def on_alarm(signum, frame):
            raise AnalysisError('CPU time budget of %d s exceeded in %s (symbolic expression growth?)' % (self.seconds, self.what))
        signal.signal(signal.SIGVTALRM, on_alarm)
        signal.setitimer(signal.ITIMER_VIRTUAL, self.seconds)
        return self

    def __exit__(self, *exc):
        import signal
        used = self.seconds - signal.setitimer(signal.ITIMER_VIRTUAL, 0)[0]
        signal.signal(signal.SIGVTALRM, self.old_handler)
        if self.outer:
            signal.setitimer(signal.ITIMER_VIRTUAL, max(0.5, self.outer - used))
        return False


class WatchdogExpired(BaseException):
    """the wall-clock budget of the whole check ran out: not an AnalysisError, so that no rule can record it as one undecided
    instance and carry on without a watchdog"""


def _watchdog(seconds):
    import signal

    def on_alarm(signum, frame):
        raise WatchdogExpired('time budget of %d s for the whole check exceeded (symbolic expression growth?)' % seconds)
    try:
        signal.signal(signal.SIGALRM, on_alarm)
        signal.alarm(seconds)
    except (ValueError, AttributeError):
        pass


def run_check(prop, tier, repo_root, write_evidence=True, selfcheck=True):
    seed = int(os.environ.get('VERIF_SEED', '0') or 0)
    prop = prop.upper()
    _watchdog(int(os.environ.get('NDVERIF_BUDGET', '600' if tier == 'quick' else '3000')))
    try:
        rep = analyse(prop, tier, repo_root, seed)
        if selfcheck:
            from . import variants
            variants.self_validate(prop, tier, repo_root, rep, seed)
        code, unlisted = rep.finish(write_evidence=write_evidence)
        return code
    except (AnalysisError, WatchdogExpired) as exc:
        print('ANALYSIS-ERROR %s: %s' % (prop, exc))
        return 2
    except RecursionError as exc:
        print('ANALYSIS-ERROR %s: recursion limit (%s)' % (prop, exc))
        return 2


def run_replay(path):
    with open(path) as fh:
        data = json.load(fh)
    prop = data['property']
    rep = analyse(prop, data.get('tier', 'quick'), data.get('repo', '/repo'), quiet=True)
    hits = [i for i in rep.instances if i['rule'] == data['rule'] and i['construct'] == data['construct']
            and i['key'] == data['key'] and i['verdict'] == 'violation']
    print('replay %s: rule=%s construct=%s key=%s' % (prop, data['rule'], data['construct'], data['key']))
    if hits:
        for h in hits[:5]:
            print('  STILL VIOLATED at %s config=%s' % (h['where'], h['config']))
            print('    found:    %s' % json.dumps(h['fact'], default=str)[:800])
            print('    expected: %s' % h['expected'])
        print('VIOLATION property=%s replay=%s' % (prop, path))
        return 1
    print('  not reproduced on the current tree (instance now ok or gone)')
    return 0


def list_props():
    for p in PROPS:
        mod = load_rules(p)
        print(p, 'rules' if mod else '-')
    return 0


def run_selftest(props, repo_root, jobs):
    from . import variants
    code = variants.selftest_cli(props or PROPS, repo_root, jobs)
    if not props:
        # the whole table was asked for: also the conformance suite of the interpreter itself
        from . import conformance
        if conformance.run(repo_root, verbose=False):
            code = code or 2
    return code
