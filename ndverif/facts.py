"""Facts shared by several properties, computed lazily once per analysed tree:

  * stencils and Taylor signatures of the 31 difference functions (E4),
  * the configuration table of the LogRule family evaluated abstractly (E1), with the abstractly
    evaluated moment matrix, rule row and sign for every (class, method, n, order).
"""
import ast
from fractions import Fraction as Fr
import math

from .srcmodel import AnalysisError, Repo
from .algebra import Poly, Rat, Z8, AlgebraError
from . import ndarr
from .ndarr import Arr, InterpRaise
from .absint import Interp, Obj, Closure, ClassRef, BoundMethod
from .stencil import StencilRunner, taylor_signature, FV, offsets_of, fx_used, fx_weight, FX_KEY
from .pipeline import Pipeline, PinvRegistry, column_exponents, ASSUMED_POSITIVE

DIFF_CLASSES = ('DifferenceFunctions', 'JacobianDifferenceFunctions', 'HessdiagDifferenceFunctions',
                'HessianDifferenceFunctions')

RULE_CLASSES = {
    # rule class -> (core class, difference class, methods, fixed n or None)
    'LogRule': ('Derivative', 'DifferenceFunctions',
                ('central', 'forward', 'backward', 'complex', 'multicomplex'), None),
    'LogJacobianRule': ('Jacobian', 'JacobianDifferenceFunctions',
                        ('central', 'forward', 'backward', 'complex', 'multicomplex'), 1),
    'LogHessdiagRule': ('Hessdiag', 'HessdiagDifferenceFunctions',
                        ('central', 'central2', 'forward', 'backward', 'complex', 'multicomplex'), 2),
    'LogHessianRule': ('Hessian', 'HessianDifferenceFunctions',
                       ('central', 'central2', 'forward', 'backward', 'complex', 'multicomplex'), 2),
}


class TInt(int):
    """An int that records how configuration code uses it (B1 of DESIGN.md: the finite configuration
    lattice is justified by the *forms* in which n and order are used)."""
    log = None
    tag = ''

    def __new__(cls, value, tag, log):
        o = int.__new__(cls, value)
        o.tag, o.log = tag, log
        return o

    def _rec(self, op, other):
        if self.log is not None:
            self.log.add((self.tag, op, other if isinstance(other, (int, str)) and not isinstance(other, TInt)
                          else getattr(other, 'tag', type(other).__name__)))

    def __mod__(self, o):
        self._rec('%', o)
        return int(self) % o

    def __floordiv__(self, o):
        self._rec('//', o)
        return int(self) // o

    def __eq__(self, o):
        self._rec('==', o)
        return int(self) == o

    def __ne__(self, o):
        self._rec('!=', o)
        return int(self) != o

    def __lt__(self, o):
        self._rec('<', o)
        return int(self) < o

    def __le__(self, o):
        self._rec('<=', o)
        return int(self) <= o

    def __gt__(self, o):
        self._rec('>', o)
        return int(self) > o

    def __ge__(self, o):
        self._rec('>=', o)
        return int(self) >= o

    def __hash__(self):
        self._rec('hash', '')
        return hash(int(self))

    def __sub__(self, o):
        if isinstance(o, int) and not isinstance(o, TInt) and self.tag == 'n':
            self._rec('-', o)
            return TInt(int(self) - o, '%s-%d' % (self.tag, o), self.log)      # `order = n - 1`: followed further
        if isinstance(o, int) and not isinstance(o, TInt):
            self._rec('-', 'expr')                                             # an affine use (order - order % step)
            return int(self) - o
        self._rec('-', 'expr')
        return int(self) - int(o)

    def __add__(self, o):
        self._rec('+', 'expr' if not isinstance(o, int) or isinstance(o, TInt) else o)
        return int(self) + int(o) if isinstance(o, int) else NotImplemented
    __radd__ = __add__

    def __rsub__(self, o):
        self._rec('rsub', 'expr')
        return int(o) - int(self)

    def __mul__(self, o):
        self._rec('*', o if isinstance(o, int) and not isinstance(o, TInt) else 'expr')
        return int.__mul__(int(self), o)
    __rmul__ = __mul__

    def __pow__(self, o):
        self._rec('**', 'expr')
        return int(self) ** o

    def __rpow__(self, o):
        self._rec('rpow', 'expr')
        return o ** int(self)

    def __truediv__(self, o):
        self._rec('/', 'expr')
        return Fr(int(self)) / o

    def __neg__(self):
        self._rec('neg', '')
        return -int(self)


class StencilFact(object):
    def __init__(self, cls, name, qualname, where, dim):
        self.cls, self.name, self.qualname, self.where, self.dim = cls, name, qualname, where, dim
        self.result = None
        self.error = None
        self.coords = []      # per output element: dict with sig etc.


class _BoundClosure(Closure):
    """A bound method (e.g. a classmethod of a ...DifferenceFunctions class) in the place where the rules expect the plain
    function: called like it, located and named like the function it wraps."""

    def __init__(self, bm):
        f = bm.func
        Closure.__init__(self, f.interp, f.node, f.module, parent_frame=f.parent_frame, owner=f.owner, name=f.name)
        self.bm = bm

    def __call__(self, *args, **kwargs):
        return self.bm(*args, **kwargs)


class Facts(object):
    def __init__(self, repo):
        self.repo = repo
        self._stencils = None
        self._runner = None
        self._alpha_cache = {}
        self.nuse_log = set()
        self._pipe = None

    # ------------------------------------------------------------------ stencils
    @property
    def runner(self):
        if self._runner is None:
            self._runner = StencilRunner(self.repo)
            ndarr.POSITIVE_ATOMS.clear()
            ndarr.POSITIVE_ATOMS.update(ASSUMED_POSITIVE)
        return self._runner

    def diff_functions(self):
        """[(class name, function name, Closure)] for every static method (f, f_x, x, h) of the 4 classes."""
        fd = self.repo.module('finite_difference')
        out = []
        I = self.runner.interp
        for cname in DIFF_CLASSES:
            if cname not in fd.classes:
                raise AnalysisError('anchor vanished: finite_difference.%s' % cname)
            ci = fd.classes[cname]
            for name, entries in ci.own_members().items():
                kind, node = entries[-1]
                if kind != 'static' or not isinstance(node, ast.FunctionDef):
                    continue
                params = [a.arg for a in node.args.args]
                if len(params) != 4:
                    continue
                out.append((cname, name, I.closure_for(fd, node, ci)))
        return out

    def stencil(self, fn, dim):
        """StencilResult for closure fn at dimension dim (cached)."""
        key = (fn.qualname, dim)
        if key not in self._alpha_cache:
            ndarr.POSITIVE_ATOMS.update(ASSUMED_POSITIVE)
            self._alpha_cache[key] = self.runner.run(fn, dim)
        return self._alpha_cache[key]

    def alpha_1d(self, fv, hsym, kmax, coord=0, dim=None):
        """1-D Taylor coefficients alpha_k (Z8 real constants) of an element that only depends on one
        coordinate's step: value = sum_k alpha_k * h^k * f^(k)/k!.  Returns (alphas dict k -> Poly const,
        problems list)."""
        sig = taylor_signature(fv, None, dim, kmax)
        alphas, problems = {}, []
        for a, p in sig.items():
            k = sum(a)
            nz = [i for i, e in enumerate(a) if e]
            if nz and nz != [coord]:
                problems.append('mixed/foreign partial derivative D^%s in the entry for coordinate %d' % (a, coord))
                continue
            q = p / (Poly.sym(hsym) ** k) if k else p
            if not q.is_const():
                problems.append('coefficient of D^%s is %r, not a multiple of %s^%d' % (a, p, hsym, k))
                continue
            alphas[k] = q.const_value()
        return alphas, problems

    # ------------------------------------------------------------------ configuration tables
    def rule_config(self, rule_cls, method, n, order, pipe=None):
        """Evaluate one configuration of a rule class abstractly.  Returns a dict of facts."""
        P = pipe or self.pipe
        I = P.interp
        cref = I.get_global('finite_difference', rule_cls)
        log = self.nuse_log
        kw = dict(method=method, order=TInt(order, 'order', log) if order is not None else None)
        if n is not None:
            kw['n'] = TInt(n, 'n', log)
        out = {'class': rule_cls, 'method': method, 'n_arg': n, 'order_arg': order}
        obj = cref(**kw)
        out['obj'] = obj
        out['n'] = int(I.getattr(obj, 'n'))
        out['order'] = I.getattr(obj, 'order')
        try:
            d = I.getattr(obj, 'diff')
            if isinstance(d, BoundMethod) and isinstance(d.func, Closure):
                d = _BoundClosure(d)          # a classmethod / bound method as the difference function: same role
            out['diff'] = d
            out['diff_name'] = d.qualname if isinstance(d, Closure) else repr(d)
        except InterpRaise as exc:
            out['diff_error'] = (exc.exc_name, exc.msg)
            out['diff'] = None
        for attr in ('richardson_step', 'method_order', '_flip_fd_rule', 'eval_first_condition'):
            try:
                v = I.getattr(obj, attr)
                out[attr] = int(v) if isinstance(v, int) and not isinstance(v, bool) else v
            except InterpRaise as exc:
                out[attr] = ('raise', exc.exc_name)
            except AnalysisError:
                if not attr.startswith('_'):
                    raise
                out[attr] = ('missing', attr)        # a private helper that was renamed: no rule depends on it
        # the rule vector for a symbolic step ratio, cold cache
        P.clear_cache()
        try:
            r = Poly.sym('r')
            vec = I.getattr(obj, 'rule')(r)
            out['rule'] = vec
        except InterpRaise as exc:
            out['rule_error'] = (exc.exc_name, exc.msg)
            out['rule'] = None
        return out

    @property
    def pipe(self):
        if self._pipe is None:
            self._pipe = Pipeline(self.repo)
        return self._pipe

    def decode_rule(self, vec, reg):
        """rule vector (Arr of +-W atoms, or ones) -> dict(kind='ones'|'pinv', tag, row, sign, M)"""
        items = vec.items() if isinstance(vec, Arr) else None
        if items is None or vec.ndim != 1:
            raise AnalysisError('rule() did not return a vector: %r' % (vec,))
        if all(ndarr.concrete_real(v) == 1 for v in items):
            return {'kind': 'ones', 'size': len(items)}
        tag = row = sign = None
        for m, v in enumerate(items):
            if not isinstance(v, Poly) or not v.is_monomial():
                raise AnalysisError('rule() entry is not a single pseudo-inverse entry: %r' % (v,))
            (mono, c), = v.t.items()
            if len(mono) != 1 or mono[0][1] != 1 or not mono[0][0].startswith('W'):
                raise AnalysisError('rule() entry is not a single pseudo-inverse entry: %r' % (v,))
            t, a, b = mono[0][0].split('_')
            if c not in (Z8.ONE, -Z8.ONE):
                raise AnalysisError('rule() scales the pseudo-inverse row by %r' % (c,))
            sg = 1 if c == Z8.ONE else -1
            if tag is None:
                tag, row, sign = t, int(a), sg
            if (t, int(a), sg) != (tag, row, sign) or int(b) != m:
                raise AnalysisError('rule() is not one (signed) row of one pseudo-inverse: %r' % (items,))
        M = reg.mats[tag]
        if M.shape[0] != len(items):
            raise AnalysisError('rule() row length differs from the matrix size')
        return {'kind': 'pinv', 'tag': tag, 'row': row, 'sign': sign, 'M': M}


_FACTS = {}


def get_facts(repo):
    if id(repo) not in _FACTS:
        _FACTS[id(repo)] = Facts(repo)
    return _FACTS[id(repo)]


def z8_str(c):
    """Readable form of a real Z8 constant."""
    if isinstance(c, Poly):
        c = c.const_value()
    if c.is_rational():
        return str(c.rational())
    try:
        (p, q), (pi, qi) = c.re_im()
        s = '%s%+s*sqrt2' % (p, q)
        if (pi, qi) != (0, 0):
            s += ' + i*(%s%+s*sqrt2)' % (pi, qi)
        return s
    except AlgebraError:
        return repr(c)
