"""Summaries of the numpy / scipy / stdlib callables the analysed modules use (section 7 of DESIGN.md).

Every model works on ndarr.Arr (concrete shape, abstract elements) and is exact with respect to shape,
aliasing and element placement.  Element level semantics are delegated to the element types (operator
overloading and *_ hooks) so that the same summary serves the exact-algebra, stencil and provenance
analyses.  Anything not modelled raises AnalysisError.
"""
import collections
import functools
import itertools
from fractions import Fraction as Fr

from .srcmodel import AnalysisError
from .algebra import Poly, Rat, Z8, AlgebraError
from . import ndarr
from .ndarr import (Arr, Unk, Choice, InterpValueError, InterpIndexError, InterpTypeError, InterpRaise,
                    asarr, ew1, ew2, ewn, broadcast_to, broadcast_shapes, shape_of, s_abs, s_cmp, s_add, s_mul,
                    s_sub, s_div, s_pow, s_neg, _prod)


CURRENT = None      # the Models instance bound to the interpreter currently running (set by bind)


class Namespace(object):
    def __init__(self, name, **kw):
        self._name = name
        self.__dict__.update(kw)

    def __repr__(self):
        return '<model %s>' % self._name

    def __getattr__(self, name):
        if name.startswith('_') or name.endswith('_') or name in ('cls', 'attrs', 'func', 'node', 'shape', 'ndim'):
            raise AttributeError(name)
        # the real library may well have it: the summary is missing, which is an analysis gap, not a behaviour
        raise AnalysisError('no model for %s.%s' % (self.__dict__.get('_name', '?'), name))


class DType(object):
    def __init__(self, name, kind):
        self.name, self.kind = name, kind
        self.str = {'f': '<f8', 'c': '<c16', 'i': '<i8', 'b': '|b1', 'O': '|O'}.get(kind, '?')
        self.char = {'f': 'd', 'c': 'D', 'i': 'l', 'b': '?', 'O': 'O'}.get(kind, '?')
        self.itemsize = {'f': 8, 'c': 16, 'i': 8, 'b': 1, 'O': 8}.get(kind, 8)
        self.hasobject = kind == 'O'
        self.isnative = True
        self.byteorder = '|' if kind in ('b', 'O') else '='
        self.names = None

    def __eq__(self, o):
        from .absint import NumType
        if isinstance(o, NumType):
            return o.__eq__(self)
        nm = getattr(o, '__name__', None)
        if not isinstance(o, DType) and isinstance(nm, str):
            # dtype == np.bool_ / float / np.float64 .. : numpy converts the right hand side to a dtype first
            kind = {'bool': 'b', 'bool_': 'b', 'float': 'f', 'float64': 'f', 'float_': 'f', 'double': 'f', 'complex': 'c',
                    'complex128': 'c', 'complex_': 'c', 'int': 'i', 'int64': 'i', 'int_': 'i', 'intp': 'i', 'object': 'O'}.get(nm)
            if kind is not None:
                return kind == self.kind
        return isinstance(o, DType) and o.kind == self.kind or (o is float and self.kind == 'f') or \
            (o is complex and self.kind == 'c') or (o is int and self.kind == 'i')

    def __hash__(self):
        from .absint import TYPE_HASH
        return TYPE_HASH

    def __repr__(self):
        return 'dtype(%s)' % self.name

    def __call__(self, x=0):
        return x


FLOAT = DType('float64', 'f')
COMPLEX = DType('complex128', 'c')
INT = DType('int64', 'i')
BOOL = DType('bool', 'b')
OBJECT = DType('object', 'O')


OPAQUE = {}      # atom name -> (function name, arguments) of every opaque application created


def opaque(name, *args):
    atom = '%s(%s)' % (name, ', '.join(repr(a) for a in args))
    OPAQUE[atom] = (name, args)
    if name not in ('abs', 'real', 'imag', 'norm2') and any(isinstance(a, Poly) and not a.is_real() for a in args):
        from . import algebra
        algebra.COMPLEX_ATOMS.add(atom)      # a transcendental function of a non-real argument is non-real in general
    return Poly.sym(atom)


def numeric_value(v, digits=40):
    """High precision decimal value of a Poly whose atoms are opaque log / log2 / sqrt / exp applications of concrete
    rationals (configuration arithmetic such as `int(log2(n - 1) - c)`); None when it is not of that form."""
    import decimal
    ctx = decimal.Context(prec=digits)
    c = ndarr.concrete_real(v)
    if c is not None:
        return ctx.divide(decimal.Decimal(Fr(c).numerator), decimal.Decimal(Fr(c).denominator))
    if not isinstance(v, Poly):
        return None
    tot = decimal.Decimal(0)
    for mono, coef in v.t.items():
        if not coef.is_rational():
            return None
        q = coef.rational()
        term = ctx.divide(decimal.Decimal(q.numerator), decimal.Decimal(q.denominator))
        for atom, e in mono:
            if atom not in OPAQUE or e.denominator != 1:
                return None
            fname, args = OPAQUE[atom]
            if len(args) != 1:
                return None
            a = numeric_value(args[0], digits)
            if a is None:
                return None
            if fname in ('log', 'log2', 'log10'):
                if a <= 0:
                    return None
                val = ctx.ln(a)
                if fname == 'log2':
                    val = ctx.divide(val, ctx.ln(decimal.Decimal(2)))
                elif fname == 'log10':
                    val = ctx.divide(val, ctx.ln(decimal.Decimal(10)))
            elif fname == 'sqrt':
                val = ctx.sqrt(a)
            elif fname == 'exp':
                val = ctx.exp(a)
            else:
                return None
            term = ctx.multiply(term, ctx.power(val, int(e)))
        tot = ctx.add(tot, term)
    return tot


def exact_sqrt(q):
    """sqrt of a non-negative rational as p + q*sqrt2 if possible."""
    from .algebra import _exact_root
    if q == 0:
        return Poly.const(0)
    r = _exact_root(q, Fr(1, 2))
    if r is not None:
        return Poly.const(r)
    r = _exact_root(q / 2, Fr(1, 2))
    if r is not None:
        return Poly.const(Z8.SQRT2 * Z8.of(r))
    return None


def _keepdims(result, a, axis):
    """numpy's keepdims=True: the reduced axes stay as axes of length one"""
    a = asarr(a) if not isinstance(a, Arr) else a
    if axis is None:
        shape = (1,) * a.ndim
    else:
        ax = axis if axis >= 0 else axis + a.ndim
        shape = tuple(1 if k == ax else s for k, s in enumerate(a.shape))
    r = result if isinstance(result, Arr) else Arr((), [result])
    return r.reshape(shape)


def dtype_target_kind(dtype):
    """'f' / 'c' / 'i' / 'b' for a dtype argument the analysis understands, None for "no conversion asked for" """
    if dtype is None:
        return None
    if isinstance(dtype, DType):
        return dtype.kind
    if isinstance(dtype, str):
        return {'float': 'f', 'float64': 'f', 'd': 'f', 'f8': 'f', 'complex': 'c', 'complex128': 'c', 'D': 'c', 'c16': 'c',
                'int': 'i', 'int64': 'i', 'i8': 'i', 'bool': 'b'}.get(dtype.lstrip('<>=|'))
    if dtype is float:
        return 'f'
    if dtype is complex:
        return 'c'
    if dtype is int:
        return 'i'
    nm = getattr(dtype, '__name__', None)
    return {'float': 'f', 'float64': 'f', 'float_': 'f', 'double': 'f', 'complex': 'c', 'complex128': 'c', 'complex_': 'c',
            'int': 'i', 'int64': 'i', 'int_': 'i', 'intp': 'i', 'bool': 'b', 'bool_': 'b'}.get(nm)


def cast_to_dtype(models, a, dtype):
    """What numpy does when an array is converted to `dtype`: a complex value converted to a real dtype loses its imaginary
    part (numpy only warns), everything else the analysis tracks is unchanged.  a: Arr; returns a (new) Arr."""
    kind = dtype_target_kind(dtype)
    if kind != 'f' or not isinstance(a, Arr) or not a.size:
        return a
    items = a.items()
    out, changed = [], False
    for v in items:
        k = ndarr.elem_dtype_kind(v)
        if k is None and hasattr(v, 'kind_'):
            k = v.kind_()
        if k in ('c', 'z'):
            out.append(models.scalar_fn('real', v))
            changed = True
        else:
            out.append(v)
    if not changed:
        return a
    r = Arr(a.shape, out, kind='f')
    r.memrank = a.mem_rank()
    return r


def _only(kw, ignorable, fname):
    """keywords of a numpy call that a summary does not model end the run (never silently dropped); `ignorable` ones do not
    change what the analysis tracks (memory order, dtype of exact values, sort algorithm, ..)"""
    extra = sorted(k for k, v in kw.items() if k not in ignorable and not (k in ('out', 'where', 'initial') and v is None)
                   and not (k == 'keepdims' and v is False))
    if extra:
        raise AnalysisError('%s with the keyword(s) %s is not modelled' % (fname, ', '.join(extra)))


_MISSING = object()


class DataclassField(object):
    """dataclasses.field(...): default / default_factory / init of one field"""

    def __init__(self, default=_MISSING, default_factory=_MISSING, init=True, repr=True, compare=True, hash=None, **kw):
        if kw:
            raise AnalysisError('dataclasses.field(%s=..) is not modelled' % sorted(kw)[0])
        self.default, self.default_factory, self.init, self.compare = default, default_factory, init, compare

    def make(self, interp, cls, name):
        if self.default_factory is not _MISSING:
            return self.default_factory()
        if self.default is not _MISSING:
            return self.default
        from .ndarr import InterpRaise
        raise InterpRaise("%s.__init__() missing 1 required positional argument: '%s'" % (cls.name, name), 'TypeError')


def _dataclass_marker(*a, **k):
    """@dataclass is read by the class model (srcmodel.ClassInfo.dataclass_options); calling it on anything else is a gap"""
    raise AnalysisError('dataclasses.dataclass applied outside a class definition of the package')


class UfuncModel(object):
    """A numpy ufunc: the elementwise kernel `fn` plus the protocol every ufunc has - out= (also positional), where=,
    dtype=, and the methods reduce / accumulate / outer.  Keywords that only steer casting are accepted; anything else
    is refused, never dropped."""
    REDUCE = {'add': 'np_sum', 'multiply': 'np_prod', 'maximum': 'np_max', 'minimum': 'np_min', 'logical_and': 'np_all',
              'logical_or': 'np_any'}
    ACCUMULATE = {'add': 'np_cumsum', 'multiply': 'np_cumprod'}

    def __init__(self, models, name, fn, nin):
        self.models, self.__name__, self.fn, self.nin = models, name, fn, nin

    def __repr__(self):
        return "<ufunc '%s'>" % self.__name__

    def __call__(self, *args, **kw):
        out = kw.pop('out', None)
        where = kw.pop('where', True)
        dtype = kw.pop('dtype', None)
        _only(kw, ('casting', 'order', 'subok'), 'np.' + self.__name__)
        if len(args) == self.nin + 1:
            if out is not None:
                raise InterpTypeError("cannot specify 'out' as both a positional and keyword argument")
            out, args = args[-1], args[:-1]
        if len(args) != self.nin:
            raise InterpTypeError('%s() takes from %d to %d positional arguments but %d were given'
                                  % (self.__name__, self.nin, self.nin + 1, len(args)))
        if isinstance(out, tuple):
            if len(out) != 1:
                raise AnalysisError('np.%s with several outputs' % self.__name__)
            out = out[0]
        res = self.fn(*args)
        if dtype is not None:
            res = cast_to_dtype(self.models, self.models.np_asarray(res), dtype)
        if where is not True:
            res = self._masked(res, where, out)
        if out is None:
            return res
        if not isinstance(out, Arr):
            raise InterpTypeError('return arrays must be of ArrayType')
        out[...] = res
        return out

    def _masked(self, res, where, out):
        """where=: elements whose condition is false keep what `out` held (uninitialised memory without an out)"""
        cond = self.models.np_asarray(where)
        res = self.models.np_asarray(res)
        shape = broadcast_shapes(res.shape, cond.shape, *([out.shape] if isinstance(out, Arr) else []))
        res, cond = broadcast_to(res, shape), broadcast_to(cond, shape)
        old = broadcast_to(out, shape).items() if isinstance(out, Arr) else [UNINIT] * _prod(shape)
        items = []
        for r, c, o in zip(res.items(), cond.items(), old):
            if c is True or (isinstance(c, int) and not isinstance(c, bool) and c != 0):
                items.append(r)
            elif c is False or (isinstance(c, int) and c == 0):
                items.append(o)
            elif isinstance(c, Unk):
                items.append(ndarr.mk_choice(c, r, o))
            else:
                raise AnalysisError('where= condition %r' % (c,))
        return Arr(shape, items)

    def reduce(self, a, axis=0, **kw):
        _only(kw, ('keepdims', 'dtype', 'initial'), 'np.%s.reduce' % self.__name__)
        if 'initial' in kw or kw.get('dtype') is not None:
            raise AnalysisError('np.%s.reduce with initial= / dtype=' % self.__name__)
        name = self.REDUCE.get(self.__name__)
        if name is None:
            raise AnalysisError('no model for np.%s.reduce' % self.__name__)
        extra = {'keepdims': kw['keepdims']} if kw.get('keepdims') else {}
        return getattr(self.models, name)(a, axis=axis, **extra)

    def accumulate(self, a, axis=0, **kw):
        _only(kw, (), 'np.%s.accumulate' % self.__name__)
        name = self.ACCUMULATE.get(self.__name__)
        if name is None:
            raise AnalysisError('no model for np.%s.accumulate' % self.__name__)
        return getattr(self.models, name)(a, axis=axis)

    def outer(self, a, b, **kw):
        _only(kw, (), 'np.%s.outer' % self.__name__)
        if self.nin != 2:
            raise InterpValueError('outer product only supported for binary functions')
        a, b = self.models.np_asarray(a), self.models.np_asarray(b)
        items = []
        for x in a.items():
            for y in b.items():
                r = self.fn(x, y)
                items.append(r.item() if isinstance(r, Arr) and r.size == 1 else r)
        return Arr(tuple(a.shape) + tuple(b.shape), items)

    def at(self, *a, **k):
        raise AnalysisError('no model for np.%s.at' % self.__name__)


class _GeneratorContext(object):
    """the context manager contextlib.contextmanager makes of a generator: runs it to the yield on entry, to the end on exit"""

    def __init__(self, gen):
        self.gen = gen

    def __enter__(self):
        try:
            return next(self.gen)
        except StopIteration:
            raise InterpRaise("generator didn't yield", 'RuntimeError')

    def __exit__(self, *exc):
        try:
            next(self.gen)
        except StopIteration:
            return False
        raise InterpRaise("generator didn't stop", 'RuntimeError')


def _contextmanager(fn):
    def make(*a, **k):
        return _GeneratorContext(iter(fn(*a, **k)))
    make.__name__ = getattr(fn, '__name__', 'contextmanager')
    return make


class ContextDummy(object):
    def __enter__(self):
        return self

    def __exit__(self, *a):
        return False


FP_KINDS = frozenset(('divide', 'over', 'under', 'invalid'))


class FpContext(object):
    """np.errstate(..) / warnings.catch_warnings(): the floating-point warning kinds that are silenced while the block runs
    are kept on a stack of the Models object (`fp_silenced`), so a rule can ask under which state an operation ran."""

    def __init__(self, models, errstate=None):
        self.models, self.errstate = models, errstate

    def __enter__(self):
        st = self.models.fp_silenced
        top = set(st[-1])
        for k, v in (self.errstate or {}).items():
            if k == 'call':
                continue                       # the error callback of mode 'call': no floating-point event occurs in the abstract run
            kinds = FP_KINDS if k == 'all' else {k}
            if k != 'all' and k not in FP_KINDS:
                raise AnalysisError('np.errstate(%s=..)' % k)
            top = (top | kinds) if v == 'ignore' else (top - kinds)
        st.append(frozenset(top))
        return self

    def __exit__(self, *a):
        self.models.fp_silenced.pop()
        return False


def _copy_value(v, deep, seen):
    """copy.copy / copy.deepcopy of an abstract value: arrays and containers are new objects (deep: recursively, shared
    sub-objects stay shared), objects of the package get a new attribute dictionary, immutable values are themselves"""
    from .absint import Obj
    if id(v) in seen:
        return seen[id(v)]
    if isinstance(v, Arr):
        r = v.copy()
    elif isinstance(v, list):
        r = []
        seen[id(v)] = r
        r.extend((_copy_value(e, deep, seen) if deep else e) for e in v)
        return r
    elif isinstance(v, dict):
        r = {}
        seen[id(v)] = r
        r.update({k: (_copy_value(e, deep, seen) if deep else e) for k, e in v.items()})
        return r
    elif isinstance(v, tuple) and deep and not hasattr(v, '_fields'):
        r = tuple(_copy_value(e, deep, seen) for e in v)
    elif isinstance(v, tuple) and deep:
        r = type(v)(*[_copy_value(e, deep, seen) for e in v])
    elif isinstance(v, Obj):
        r = Obj(v.cls)
        object.__setattr__(r, 'interp', v.interp)
        seen[id(v)] = r
        for k, e in v.attrs.items():
            r.attrs[k] = _copy_value(e, deep, seen) if deep else e
        return r
    else:
        r = v
    seen[id(v)] = r
    return r


def _memo_key(v, typed):
    """hash key of an abstract argument as functools.lru_cache forms it (== of the values; the type too when typed)"""
    if isinstance(v, bool) or v is None or isinstance(v, str):
        return (type(v).__name__, v)
    if isinstance(v, (int, Fr)):
        # 2 == 2.0 == Fraction(2): one key unless typed
        return (('int' if isinstance(v, int) else 'float') if typed else 'num', Fr(v))
    if isinstance(v, tuple):
        return ('tuple',) + tuple(_memo_key(x, typed) for x in v)
    if isinstance(v, Poly):
        c = ndarr.concrete_real(v)
        if c is not None:
            return ('float' if typed else 'num', Fr(c))
        return ('sym', repr(v))        # a symbolic scalar: equal exactly to itself
    if isinstance(v, Arr) or isinstance(v, (list, dict, set)):
        raise InterpRaise("unhashable type: '%s'" % ('numpy.ndarray' if isinstance(v, Arr) else type(v).__name__), 'TypeError')
    from .absint import Obj, ClassRef, Closure, BoundMethod
    if isinstance(v, (Obj, ClassRef, Closure)):
        # objects hash and compare by identity unless their class says otherwise (Obj.__hash__ / __eq__ follow the class)
        return ('obj', v)
    if isinstance(v, BoundMethod):
        return ('bound', v.func, _memo_key(v.obj, typed))
    raise AnalysisError('memoised call with an argument of kind %s' % type(v).__name__)


class MemoFn(object):
    """functools.lru_cache / cache around an analysed function: same key -> the very same result object"""

    def __init__(self, fn, typed):
        self.fn, self.typed, self.store = fn, typed, {}

    def __call__(self, *args, **kwargs):
        key = (tuple(_memo_key(a, self.typed) for a in args),
               tuple((k, _memo_key(v, self.typed)) for k, v in sorted(kwargs.items())))
        if key not in self.store:
            self.store[key] = self.fn(*args, **kwargs)      # an exception is not stored
        return self.store[key]

    def cache_clear(self):
        self.store.clear()


def _lru_cache(maxsize=128, typed=False):
    if callable(maxsize) and not isinstance(maxsize, (int, bool)):
        return MemoFn(maxsize, False)          # @lru_cache without parentheses
    return lambda fn: MemoFn(fn, bool(typed))


def _int_arg(v):
    if isinstance(v, bool) or not isinstance(v, int):
        c = ndarr.concrete_real(v) if isinstance(v, (Fr, Poly)) else None
        if c is None or c != int(c):
            raise AnalysisError('integer argument expected, got %r' % (v,))
        return int(c)
    return v


class NeedsOrdering(AnalysisError):
    """the run sorts symbolic data: decidable only under an ordering hypothesis on the inputs"""


class Models(object):
    """Builds the `externals` resolver for absint.Interp."""

    def __init__(self, hooks=None):
        self.hooks = hooks or {}
        self.interp = None
        self.warnings_log = []
        self.fp_silenced = [frozenset()]       # stack of silenced floating-point warning kinds (see FpContext)
        self.np = self._build_np()

    def bind(self, interp):
        global CURRENT
        self.interp = interp
        CURRENT = self
        return self

    # ------------------------------------------------------------------ resolver
    def __call__(self, modname, name, module, local):
        key = (modname, name)
        if modname == 'numpy' and name is None:
            return self.np
        if modname == 'numpy':
            return getattr(self.np, name)
        if modname == 'warnings':
            w = Namespace('warnings', warn=self.warn, catch_warnings=lambda **k: FpContext(self),
                          simplefilter=self._simplefilter, filterwarnings=self._simplefilter)
            return w if name is None else getattr(w, name)
        if modname == '__future__':
            return None
        if modname == 'collections':
            ns = Namespace('collections', namedtuple=collections.namedtuple, OrderedDict=collections.OrderedDict)
            return ns if name is None else getattr(ns, name)
        if modname == 'itertools':
            import itertools
            ns = Namespace('itertools', **{k: getattr(itertools, k) for k in ('product', 'combinations', 'permutations', 'chain', 'repeat',
                                                                              'combinations_with_replacement', 'islice', 'count',
                                                                              'accumulate', 'zip_longest', 'starmap', 'tee', 'takewhile',
                                                                              'dropwhile', 'groupby', 'pairwise', 'compress', 'cycle',
                                                                              'filterfalse', 'batched')})
            return ns if name is None else getattr(ns, name)
        if modname == 'dataclasses':
            ns = Namespace('dataclasses', dataclass=_dataclass_marker, field=DataclassField, replace=self._dc_replace,
                           asdict=self._dc_asdict, astuple=lambda o: tuple(self._dc_asdict(o).values()),
                           fields=lambda o: [Namespace('Field', name=f[0]) for f in (o.cls if hasattr(o, 'attrs') else o.cls).dataclass_fields()],
                           is_dataclass=lambda o: getattr(getattr(o, 'cls', None), 'dataclass_fields', lambda: None)() is not None)
            return ns if name is None else getattr(ns, name)
        if modname == 'operator':
            return self._operator_ns() if name is None else getattr(self._operator_ns(), name)
        if modname == 'typing':
            import typing as _typing
            if name is None:
                return _typing
            if not hasattr(_typing, name):
                raise AnalysisError('no model for typing.%s' % name)
            return getattr(_typing, name)          # only NamedTuple has a meaning at run time; the rest annotates
        if modname == 'types':
            import types as _types
            ns = Namespace('types', MappingProxyType=_types.MappingProxyType, SimpleNamespace=_types.SimpleNamespace)
            return ns if name is None else getattr(ns, name)
        if modname == 'contextlib':
            ns = Namespace('contextlib', contextmanager=_contextmanager, suppress=self._unmodelled('contextlib.suppress'),
                           nullcontext=lambda enter_result=None: _GeneratorContext(iter([enter_result])))
            return ns if name is None else getattr(ns, name)
        if modname == 'copy':
            ns = Namespace('copy', copy=lambda v: _copy_value(v, False, {}), deepcopy=lambda v, memo=None: _copy_value(v, True, {}))
            return ns if name is None else getattr(ns, name)
        if modname == 'functools':
            ns = Namespace('functools', partial=functools.partial, wraps=lambda wrapped, **k: (lambda fn: fn),
                           lru_cache=_lru_cache, cache=lambda fn: MemoFn(fn, True), reduce=functools.reduce)
            return ns if name is None else getattr(ns, name)
        if modname == 'scipy.optimize' and name in (None, 'Bounds'):
            class Bounds(object):
                """scipy.optimize.Bounds: a pair of bound vectors (only the two attributes are modelled)"""

                def __init__(self_b, lb=None, ub=None, keep_feasible=False):
                    self_b.lb, self_b.ub, self_b.keep_feasible = lb, ub, keep_feasible
            ns = Namespace('optimize', Bounds=Bounds)
            return ns if name is None else Bounds
        if modname == 'scipy.special' or (modname == 'scipy' and name == 'special'):
            ns = Namespace('special', factorial=self.factorial)
            return ns if name in (None, 'special') else getattr(ns, name)
        if modname in ('scipy', 'scipy.linalg', 'numpy.linalg') or (modname == 'numpy' and name == 'linalg'):
            if name in (None, 'linalg'):
                return self.np.linalg
            return getattr(self.np.linalg, name)
        if modname == 'scipy.ndimage' and name == 'convolve1d':
            return self.convolve1d
        if modname == 'scipy.ndimage' and name == 'correlate1d':
            return self.correlate1d
        if modname == 'math':
            ns = Namespace('math', pi=Poly.sym('pi'), factorial=self.factorial, sqrt=self.ufunc('sqrt'),
                           log=self.ufunc('log'), exp=self.ufunc('exp'))
            return ns if name is None else getattr(ns, name)
        h = self.hooks.get('external')
        if h is not None:
            r = h(modname, name, module, local)
            if r is not NotImplemented:
                return r
        raise AnalysisError('no model for external %s.%s (imported in %s)' % (modname, name, module.name))

    def _dc_replace(self, obj, **changes):
        vals = {f[0]: obj.attrs[f[0]] for f in obj.cls.dataclass_fields()}
        vals.update(changes)
        return self.interp.instantiate(obj.cls, (), vals)

    def _dc_asdict(self, obj):
        from .absint import Obj

        def conv(v):
            if isinstance(v, Obj) and v.cls.dataclass_fields() is not None:
                return {f[0]: conv(v.attrs[f[0]]) for f in v.cls.dataclass_fields()}
            if isinstance(v, (list, tuple)):
                return type(v)(conv(x) for x in v)
            if isinstance(v, dict):
                return {k: conv(x) for k, x in v.items()}
            return _copy_value(v, True, {})
        return conv(obj)

    def _operator_ns(self):
        """the operator module: every function is the interpreter's own operation (dunder dispatch included)"""
        import ast as _ast
        I = self.interp
        ops = {'add': _ast.Add, 'sub': _ast.Sub, 'mul': _ast.Mult, 'truediv': _ast.Div, 'floordiv': _ast.FloorDiv, 'mod': _ast.Mod,
               'pow': _ast.Pow, 'matmul': _ast.MatMult, 'and_': _ast.BitAnd, 'or_': _ast.BitOr, 'xor': _ast.BitXor}
        cmps = {'lt': _ast.Lt, 'le': _ast.LtE, 'gt': _ast.Gt, 'ge': _ast.GtE, 'eq': _ast.Eq, 'ne': _ast.NotEq, 'is_': _ast.Is,
                'is_not': _ast.IsNot}
        ns = Namespace('operator')
        for k, T in ops.items():
            setattr(ns, k, (lambda T: lambda a, b: I.binop(T(), a, b))(T))
        for k, T in cmps.items():
            setattr(ns, k, (lambda T: lambda a, b: I.compare(T(), a, b))(T))
        # in-place forms: the operator module returns the result (an array is updated in place, as by the statement)
        for k, T in ops.items():
            def iop(a, b, T=T):
                if isinstance(a, Arr) and T in (_ast.Add, _ast.Sub, _ast.Mult, _ast.Div, _ast.FloorDiv, _ast.Pow, _ast.Mod):
                    name = {_ast.Add: '__iadd__', _ast.Sub: '__isub__', _ast.Mult: '__imul__', _ast.Div: '__itruediv__',
                            _ast.FloorDiv: '__ifloordiv__', _ast.Pow: '__ipow__', _ast.Mod: '__imod__'}[T]
                    if hasattr(a, name):
                        return getattr(a, name)(b)
                return I.binop(T(), a, b)
            setattr(ns, 'i' + k.rstrip('_'), iop)
        ns.neg = lambda a: I.binop(_ast.Sub(), 0, a)
        ns.pos = lambda a: a
        ns.abs = lambda a: I.builtins['abs'](a)
        ns.not_ = lambda a: not I.truth(a, None, None)
        ns.contains = lambda a, b: I.compare(_ast.In(), b, a)
        ns.getitem = lambda a, b: I.getitem(a, b)
        ns.itemgetter = lambda *idx: ((lambda o: I.getitem(o, idx[0])) if len(idx) == 1 else (lambda o: tuple(I.getitem(o, i) for i in idx)))

        def attrgetter(*names):
            def get(o, path):
                for part in path.split('.'):
                    o = I.getattr(o, part)
                return o
            return (lambda o: get(o, names[0])) if len(names) == 1 else (lambda o: tuple(get(o, n) for n in names))
        ns.attrgetter = attrgetter
        ns.methodcaller = lambda name, *a, **k: (lambda o: I.getattr(o, name)(*a, **k))
        ns.index = lambda a: I.builtins['int'](a)
        return ns

    def _simplefilter(self, action='default', *a, **k):
        # the filter applies to the innermost catch_warnings block (or for good when there is none)
        st = self.fp_silenced
        st[-1] = FP_KINDS if action == 'ignore' else frozenset()

    def warn(self, msg, *a, **k):
        self.warnings_log.append(str(msg))

    # ------------------------------------------------------------------ numpy namespace
    UNARY_UFUNCS = ('abs', 'absolute', 'sqrt', 'exp', 'log', 'log2', 'log10', 'log1p', 'expm1', 'exp2',
                     'sin', 'cos', 'tan', 'sinh', 'cosh', 'tanh', 'arctan', 'arcsin', 'arccos', 'arcsinh',
                     'arccosh', 'arctanh', 'real', 'imag', 'conj', 'conjugate', 'isnan', 'isinf', 'isfinite',
                     'iscomplex', 'isreal', 'sign', 'floor', 'ceil', 'negative', 'square', 'round', 'rint',
                     'logical_not')

    def _build_np(self):
        np = Namespace('numpy')
        np.__version__ = '2.5.3'
        np.pi = Poly.sym('pi')
        np.inf = Poly.sym('inf')
        np.nan = Poly.sym('nan')
        np.e = Poly.sym('e')
        np.float64 = np.float_ = FLOAT
        np.complex128 = np.complex_ = COMPLEX
        np.int_ = self.int_
        # abstract scalar types for isinstance (python and numpy scalars are not told apart by the analysis: a rational or
        # symbolic number counts as a float of either family)
        from .absint import TypeLike
        num = lambda x: (isinstance(x, (int, Fr, Poly, Rat)) or hasattr(x, 'is_elem_')) and not isinstance(x, Arr)       # noqa: E731

        def numpy_scalar(pred):
            """isinstance(x, np.<abstract scalar type>): python scalars are not instances - decided per type world"""
            def f(x):
                if not pred(x):
                    return False
                from . import absint
                absint.TYPE_WORLD_USED = True
                return absint.TYPE_WORLD == 'numpy'
            return f
        np.number = TypeLike('number', lambda x=0: x, numpy_scalar(lambda x: num(x) and not isinstance(x, bool)))
        np.integer = TypeLike('integer', lambda x=0: x, numpy_scalar(lambda x: isinstance(x, int) and not isinstance(x, bool)))
        np.floating = TypeLike('floating', lambda x=0: x, numpy_scalar(lambda x: (isinstance(x, (Fr, Rat)) or (isinstance(x, Poly) and x.is_real())
                                                                      or getattr(x, 'kind', None) == 'f') and not isinstance(x, Arr)))
        np.complexfloating = TypeLike('complexfloating', lambda x=0: x, numpy_scalar(lambda x: (isinstance(x, Poly) and not x.is_real())
                                      or getattr(x, 'kind', None) in ('c', 'z')))
        np.bool_ = TypeLike('bool_', lambda x=False: bool(x), lambda x: isinstance(x, bool))
        np.generic = TypeLike('generic', lambda x=0: x, numpy_scalar(lambda x: num(x)))
        np.finfo = lambda t=None: Namespace('finfo', eps=Poly.sym('EPS'), tiny=Poly.sym('TINY'),
                                            smallest_normal=Poly.sym('TINY'), max=Poly.sym('HUGE'),
                                            min=-Poly.sym('HUGE'))
        np.errstate = lambda **k: FpContext(self, k)

        def geterr():
            # numpy defaults (warn, underflow ignored) modified by the enclosing errstate blocks of the run
            cur = {'divide': 'warn', 'over': 'warn', 'under': 'ignore', 'invalid': 'warn'}
            for k in self.fp_silenced[-1]:
                cur[k] = 'ignore'
            return cur
        np.geterr = geterr
        # sized scalar types: the analysis works with double precision / 64 bit values only, so nothing is an instance of
        # the narrower types; the 64 bit ones are the types of the abstract numbers
        from .absint import TypeLike as _TL
        for nm in ('int8', 'int16', 'int32', 'uint8', 'uint16', 'uint32', 'uint64', 'float16', 'float32', 'complex64', 'longdouble',
                   'clongdouble', 'intc', 'uintc'):
            setattr(np, nm, _TL(nm, lambda x=0: x, lambda x: False))
        np.int64 = np.intp = _TL('int64', lambda x=0: x, lambda x: isinstance(x, int) and not isinstance(x, bool))
        # the scalar types the analysis knows (one per kind); the narrower ones never occur in it
        np.sctypeDict = {'float64': FLOAT, 'double': FLOAT, 'complex128': COMPLEX, 'cdouble': COMPLEX, 'int64': np.int64,
                         'bool': BOOL, 'float32': np.float32, 'int32': np.int32, 'complex64': np.complex64}
        np.ndarray = _NdarrayType()
        for name in ('abs', 'absolute', 'sqrt', 'exp', 'log', 'log2', 'log10', 'log1p', 'expm1', 'exp2',
                     'sin', 'cos', 'tan', 'sinh', 'cosh', 'tanh', 'arctan', 'arcsin', 'arccos', 'arcsinh',
                     'arccosh', 'arctanh', 'real', 'imag', 'conj', 'conjugate', 'isnan', 'isinf', 'isfinite',
                     'iscomplex', 'isreal', 'sign', 'floor', 'ceil', 'negative', 'square', 'round', 'rint',
                     'logical_not'):
            setattr(np, name, self.ufunc(name))
        np.maximum = self.ufunc2('maximum')
        np.minimum = self.ufunc2('minimum')
        np.arctan2 = self.ufunc2('arctan2')
        np.power = lambda a, b: self._bin(s_pow, a, b)
        np.add = lambda a, b: self._bin(s_add, a, b)
        np.subtract = lambda a, b: self._bin(s_sub, a, b)
        np.multiply = lambda a, b: self._bin(s_mul, a, b)

        def multiply_outer(a, b):
            a, b = self.np_asarray(a), self.np_asarray(b)
            return Arr(tuple(a.shape) + tuple(b.shape), [s_mul(x, y) for x in a.items() for y in b.items()])
        np.multiply.outer = multiply_outer
        np.add = lambda a, b: self._bin(s_add, a, b)
        np.add.reduce = lambda a, axis=0, **kw: self.np_sum(a, axis=axis)
        np.multiply.reduce = lambda a, axis=0, **kw: self.np_prod(a, axis=axis)
        np.divide = np.true_divide = lambda a, b: self._bin(s_div, a, b)
        np.logical_and = lambda a, b: ew2(ndarr.s_and, a, b)
        np.logical_or = lambda a, b: ew2(ndarr.s_or, a, b)
        np.hypot = self.ufunc2('hypot')
        for name in ('asarray', 'asanyarray', 'array', 'atleast_1d', 'atleast_2d', 'ravel', 'reshape', 'shape',
                     'size', 'ndim', 'zeros', 'ones', 'empty', 'full', 'zeros_like', 'ones_like', 'empty_like',
                     'full_like', 'arange', 'linspace', 'identity', 'eye', 'diag', 'outer', 'dot', 'vstack',
                     'hstack', 'stack', 'concatenate', 'transpose', 'squeeze', 'where', 'put', 'diff', 'sum',
                     'prod', 'any', 'all', 'max', 'min', 'amax', 'amin', 'nanmin', 'nanmax', 'nanargmin',
                     'argmin', 'argmax', 'percentile', 'nanpercentile', 'median', 'flatnonzero', 'nonzero',
                     'ravel_multi_index', 'result_type', 'iscomplexobj', 'isrealobj', 'broadcast_arrays',
                     'isscalar', 'clip', 'cumsum', 'mean', 'sort', 'argsort', 'copy', 'meshgrid', 'allclose',
                     'isclose', 'expand_dims', 'broadcast_to', 'array_equal', 'count_nonzero', 'trapz',
                     'nanmedian', 'flip', 'tile', 'repeat', 'unravel_index', 'cumprod', 'take', 'ascontiguousarray',
                     'column_stack', 'resize', 'swapaxes', 'moveaxis', 'real_if_close', 'ptp', 'vdot', 'putmask', 'issubdtype', 'polyfit', 'polyval', 'fliplr', 'flipud', 'triu', 'tril', 'copyto', 'unique', 'tril_indices', 'triu_indices', 'diag_indices', 'extract', 'place'):
            fn = getattr(self, 'np_' + name, None)
            if fn is None:
                fn = self._unmodelled('np.' + name)
            setattr(np, name, self._hooked('np.' + name, fn))
        np.broadcast = self._hooked('np.broadcast', self.np_broadcast)
        np.ogrid = _OGrid()
        np.r_ = _RClass()
        np.newaxis = None
        np.True_, np.False_ = True, False
        np.typecodes = {'Character': 'c', 'Integer': 'bhilqnp', 'UnsignedInteger': 'BHILQNP', 'Float': 'efdg', 'Complex': 'FDG',
                        'AllInteger': 'bBhHiIlLqQnNpP', 'AllFloat': 'efdgFDG', 'Datetime': 'Mm', 'All': '?bhilqnpBHILQNPefdgFDGSUVOMm'}
        np.linalg = Namespace('linalg', pinv=self._hooked('linalg.pinv', self.pinv),
                              inv=self._hooked('linalg.inv', self.pinv),
                              norm=self._hooked('linalg.norm', self.norm),
                              solve=self._unmodelled('linalg.solve'), lstsq=self._unmodelled('linalg.lstsq'),
                              LinAlgError=None)
        np.fft = Namespace('fft', fft=self._hooked('np.fft.fft', self.fft))
        np.random = Namespace('random')
        for name in self.UNARY_UFUNCS:
            if name in ('round', 'real', 'imag', 'iscomplex', 'isreal'):
                continue                         # functions, not ufuncs (np.round takes decimals)
            setattr(np, name, UfuncModel(self, name, self._strip_kw(getattr(np, name)), 1))
        for name in ('maximum', 'minimum', 'arctan2', 'power', 'add', 'subtract', 'multiply', 'divide', 'true_divide',
                     'logical_and', 'logical_or', 'hypot'):
            setattr(np, name, UfuncModel(self, name if name != 'true_divide' else 'divide', getattr(np, name), 2))
        for name, op in (('greater', '>'), ('greater_equal', '>='), ('less', '<'), ('less_equal', '<='), ('equal', '=='), ('not_equal', '!=')):
            setattr(np, name, UfuncModel(self, name, (lambda op: lambda a, b: ew2(lambda x, y: ndarr.s_cmp(op, x, y), a, b))(op), 2))
        for name in ('einsum', 'tensordot', 'take_along_axis', 'matmul', 'vectorize', 'fromiter', 'inner', 'kron', 'trace', 'diagonal',
                     'apply_along_axis', 'atleast_3d', 'array_split', 'split', 'append', 'insert', 'delete', 'roll', 'nan_to_num',
                     'argwhere', 'searchsorted', 'select', 'piecewise', 'frompyfunc', 'nansum', 'nanmean', 'average', 'std', 'var',
                     'floor_divide', 'mod', 'remainder', 'fmax', 'fmin', 'copysign', 'heaviside', 'logaddexp', 'cbrt', 'exp2',
                     'reciprocal', 'positive', 'fabs', 'deg2rad', 'rad2deg', 'trunc', 'signbit', 'isin', 'interp', 'gradient',
                     'cross', 'linalg_dummy', 'empty_like_dummy', 'indices', 'mgrid', 'ix_', 'dstack', 'block', 'rot90', 'squeeze_dummy',
                     'trapezoid', 'logspace', 'geomspace', 'bincount', 'histogram', 'cov', 'corrcoef', 'convolve', 'correlate',
                     'polyder', 'polyint', 'roots', 'poly1d', 'vander', 'nanstd', 'nanvar', 'nanargmax', 'nancumsum', 'nanprod',
                     'around', 'fix', 'angle', 'unwrap', 'sinc', 'i0', 'float_power', 'ldexp', 'frexp', 'modf', 'divmod',
                     'bitwise_and', 'bitwise_or', 'invert', 'left_shift', 'right_shift', 'packbits', 'lexsort', 'partition',
                     'argpartition', 'sort_complex', 'msort', 'in1d', 'intersect1d', 'union1d', 'setdiff1d', 'setxor1d', 'ediff1d',
                     'iterable', 'may_share_memory', 'shares_memory', 'can_cast', 'promote_types', 'min_scalar_type', 'common_type',
                     'ndindex', 'ndenumerate', 'nditer', 'errstate_dummy', 'require', 'asfortranarray', 'asarray_chkfinite'):
            if name.endswith('_dummy') or name in np.__dict__:
                continue
            fn = getattr(self, 'np_' + name, None)
            setattr(np, name, self._hooked('np.' + name, fn) if fn is not None else self._unmodelled('np.' + name))
        return np

    @staticmethod
    def _strip_kw(f):
        return lambda x: f(x)


    def _unmodelled(self, name):
        def f(*a, **k):
            h = self.hooks.get(name)
            if h is not None:
                r = h(self, *a, **k)
                if r is not NotImplemented:
                    return r
            raise AnalysisError('no model for %s' % name)
        f.__name__ = name
        return f

    def _hooked(self, name, fn):
        def f(*a, **k):
            h = self.hooks.get(name)
            if h is not None:
                r = h(self, *a, **k)
                if r is not NotImplemented:
                    return r
            try:
                return fn(*a, **k)
            except AlgebraError as exc:
                raise AnalysisError('algebra in %s: %s' % (name, exc))
        f.__name__ = name
        return f

    # ------------------------------------------------------------------ element kernels
    def scalar_fn(self, name, x):
        h = self.hooks.get('ufunc')
        if h is not None:
            r = h(name, x)
            if r is not NotImplemented:
                return r
        if isinstance(x, Choice):
            return x.map(lambda v: self.scalar_fn(name, v))
        eh = getattr(x, name + '_', None)
        if eh is not None:
            return eh()
        if name in ('abs', 'absolute'):
            return s_abs(x)
        if isinstance(x, Unk):
            return Unk(('fn', name, x.expr))
        if isinstance(x, bool):
            x = int(x)
        if name == 'logical_not':
            return ndarr.s_not(bool(x)) if isinstance(x, (int, bool)) else ndarr.s_not(x)
        if not isinstance(x, (int, Fr, Poly, Rat)):
            raise AnalysisError('np.%s of %r' % (name, type(x).__name__))
        if name == 'sqrt':
            c = ndarr.concrete_real(x)
            if c is not None and c >= 0:
                r = exact_sqrt(Fr(c))
                if r is not None:
                    return r
            try:
                return Poly.of(x) ** Fr(1, 2) if isinstance(x, Poly) else opaque('sqrt', x)
            except AlgebraError:
                return opaque('sqrt', x)
        if name == 'real':
            if isinstance(x, Poly):
                return x.real()
            return x if isinstance(x, (int, Fr)) else opaque('real', x)
        if name == 'imag':
            if isinstance(x, Poly):
                return x.imag()
            return 0 if isinstance(x, (int, Fr)) else opaque('imag', x)
        if name in ('conj', 'conjugate'):
            return x.conj() if isinstance(x, Poly) else x
        if name in ('isnan', 'isinf'):
            if isinstance(x, Poly) and (x.atoms() & {'nan', 'inf'}):
                if name == 'isinf' and x.is_monomial():
                    (mono, c), = x.t.items()
                    if mono == (('inf', Fr(1)),) and c.is_real() and not c.is_zero():
                        return True          # +-c * inf
                return Unk(('fn', name, x))
            return False
        if name == 'isfinite':
            return True
        if name == 'iscomplex':
            if isinstance(x, (int, Fr)):
                return False
            if isinstance(x, Poly):
                if x.is_real():
                    return False
                if x.imag().is_const() and not x.imag().is_zero():
                    return True
                return Unk(('fn', 'iscomplex', x))
            return Unk(('fn', 'iscomplex', x))
        if name == 'isreal':
            r = self.scalar_fn('iscomplex', x)
            return ndarr.s_not(r)
        if name == 'negative':
            return -x
        if name == 'square':
            return x * x
        c = ndarr.concrete_real(x)
        if name == 'sign' and c is not None:
            return (c > 0) - (c < 0)
        if name in ('floor', 'ceil', 'round', 'rint') and c is not None:
            import math
            if name == 'floor':
                return math.floor(c)
            if name == 'ceil':
                return math.ceil(c)
            return round(c)
        if c is not None:
            if name in ('exp', 'exp2', 'cos', 'cosh') and c == 0:
                return 1
            if name in ('sin', 'tan', 'sinh', 'tanh', 'arctan', 'arcsin', 'arcsinh', 'arctanh', 'expm1',
                        'log1p') and c == 0:
                return 0
            if name in ('log', 'log2', 'log10') and c == 1:
                return 0
            if name == 'log2' and c > 0:
                fr = Fr(c)
                if fr.denominator == 1 and (fr.numerator & (fr.numerator - 1)) == 0:
                    return fr.numerator.bit_length() - 1
        return opaque(name, x)

    def scalar_fn2(self, name, a, b):
        h = self.hooks.get('ufunc2')
        if h is not None:
            r = h(name, a, b)
            if r is not NotImplemented:
                return r
        if isinstance(a, Choice) or isinstance(b, Choice):
            return ndarr._lift_choice(lambda x, y: self.scalar_fn2(name, x, y), a, b)
        for v in (a, b):
            eh = getattr(v, 'minmax_', None)
            if eh is not None and name in ('maximum', 'minimum'):
                return eh('max' if name == 'maximum' else 'min', [a, b])
        ca, cb = ndarr.concrete_real(a), ndarr.concrete_real(b)
        if name in ('maximum', 'minimum'):
            if ca is not None and cb is not None:
                if name == 'maximum':
                    return a if ca >= cb else b
                return a if ca <= cb else b
            from .absint import sym_minmax
            if a == b:
                return a
            return sym_minmax('max' if name == 'maximum' else 'min', [a, b])
        return opaque(name, a, b)

    def ufunc(self, name):
        def f(x, *args, **kw):
            if kw.get('out') is not None or args:
                raise AnalysisError('np.%s with out=/extra args' % name)
            return self.apply_ufunc(name, x)
        f.__name__ = 'np.' + name
        return self._hooked('np.' + name, f)

    def apply_ufunc(self, name, x):
        from .absint import Obj
        if isinstance(x, Obj):
            mname = {'abs': '__abs__', 'absolute': '__abs__', 'negative': '__neg__'}.get(name, name)
            if mname in ('real', 'imag'):
                return self.interp.getattr(x, mname)
            return self.interp.getattr(x, mname)()
        if isinstance(x, (list, tuple)):
            x = asarr(x)
        if isinstance(x, Arr):
            if x.items() and any(isinstance(v, Obj) for v in x.items()):
                return Arr(x.shape, [self.apply_ufunc(name, v) for v in x.items()], kind='O')
            return Arr(x.shape, [self.scalar_fn(name, v) for v in x.items()])
        return self.scalar_fn(name, x)

    def ufunc2(self, name):
        def f(a, b, **kw):
            if kw:
                raise AnalysisError('np.%s with keywords' % name)
            return ewn(lambda x, y: self.scalar_fn2(name, x, y), a, b)
        f.__name__ = 'np.' + name
        return self._hooked('np.' + name, f)

    def _bin(self, op, a, b):
        from .absint import Obj
        if isinstance(a, Obj) or isinstance(b, Obj):
            import ast
            opnode = {s_pow: ast.Pow(), s_add: ast.Add(), s_sub: ast.Sub(), s_mul: ast.Mult(),
                      s_div: ast.Div()}[op]
            return self.interp.binop(opnode, a, b)
        return ew2(op, a, b)

    # ------------------------------------------------------------------ creation / conversion
    def np_asarray(self, x, dtype=None, **kw):
        _only(kw, ('order', 'subok', 'like', 'copy'), 'np.asarray')
        from .absint import Obj
        if dtype_target_kind(dtype) == 'f':
            return cast_to_dtype(self, self.np_asarray(x, **kw), dtype)
        if isinstance(x, Arr):
            return x
        if isinstance(x, Obj):
            return Arr((), [x], kind='O')
        a = asarr(x)
        if a.kind is None and a.size and all(isinstance(v, int) and not isinstance(v, bool) for v in a.items()):
            a.kind = 'i'        # integer dtype (matters for *_like constructors, which inherit it)
        return a
    np_asanyarray = np_asarray
    np_ascontiguousarray = np_asarray

    def np_array(self, x, dtype=None, copy=True, **kw):
        _only(kw, ('order', 'subok', 'like', 'ndmin'), 'np.array')
        from .absint import Obj
        ndmin = kw.get('ndmin', 0)
        if isinstance(x, Arr):
            a = x.copy()
        elif isinstance(x, Obj):
            a = Arr((), [x], kind='O')
        else:
            if not isinstance(x, (list, tuple)) and hasattr(x, '__iter__') and not isinstance(x, (str, Poly, Rat)):
                x = list(x)
            a = asarr(x)
            a = a.copy() if a is x else a
        if isinstance(ndmin, int) and a.ndim < ndmin:
            a = a.reshape((1,) * (ndmin - a.ndim) + tuple(a.shape))
        return cast_to_dtype(self, a, dtype)

    def np_copy(self, x):
        return asarr(x).copy()

    def np_atleast_1d(self, *xs):
        out = []
        for x in xs:
            a = self.np_asarray(x)
            if a.ndim == 0:
                a = a.reshape(1)
            out.append(a)
        return out[0] if len(out) == 1 else out

    def np_atleast_2d(self, *xs):
        out = []
        for x in xs:
            a = self.np_asarray(x)
            if a.ndim == 0:
                a = a.reshape(1, 1)
            elif a.ndim == 1:
                a = a.reshape(1, a.shape[0])
            out.append(a)
        return out[0] if len(out) == 1 else out

    def np_resize(self, a, new_shape):
        """np.resize: the flattened data repeated / truncated to fill the new shape (never an error)."""
        a = self.np_asarray(a)
        shape = _shape_arg(new_shape)
        n = _prod(shape)
        items = a.ravel().items()
        if not items:
            return self._filled(shape, 0)
        return Arr(shape, [items[k % len(items)] for k in range(n)], kind=a.kind)

    def np_ravel(self, x, order='C'):
        a = self.np_asarray(x)
        if order == 'C':
            return a.ravel()
        if order in ('K', 'A'):
            rank = a.mem_rank()
            if rank is None:
                return a.ravel()
            items = a.items()
            byrank = sorted(range(len(items)), key=lambda i: rank[i])
            return Arr((a.size,), [items[i] for i in byrank], kind=a.kind)
        if order == 'F':
            return a.transpose().ravel().copy() if a.ndim > 1 else a.ravel()
        raise AnalysisError('np.ravel(order=%r)' % (order,))

    def np_reshape(self, x, shape, *a):
        return self.np_asarray(x).reshape(shape)

    def np_transpose(self, x, axes=None):
        a = self.np_asarray(x)
        return a.transpose() if axes is None else a.transpose(axes)

    def np_swapaxes(self, x, axis1, axis2):
        a = self.np_asarray(x)
        perm = list(range(a.ndim))
        perm[axis1], perm[axis2] = perm[axis2], perm[axis1]
        return a.transpose(perm)

    def np_moveaxis(self, x, source, destination):
        a = self.np_asarray(x)
        perm = [k for k in range(a.ndim) if k != source % a.ndim]
        perm.insert(destination % a.ndim, source % a.ndim)
        return a.transpose(perm)

    def np_flip(self, x, axis=None):
        a = self.np_asarray(x)
        idx = tuple(slice(None, None, -1) if (axis is None or k == axis % a.ndim) else slice(None) for k in range(a.ndim))
        return a[idx]

    def np_take(self, a, indices, axis=None, **kw):
        _only(kw, ('mode',), 'np.take')
        a = self.np_asarray(a)
        if axis is not None:
            idx = indices.items() if isinstance(indices, Arr) else (list(indices) if isinstance(indices, (list, tuple)) else indices)
            if isinstance(indices, Arr) and indices.ndim != 1:
                raise AnalysisError('np.take along an axis with an index array of rank %d' % indices.ndim)
            key = [slice(None)] * a.ndim
            key[axis % a.ndim] = idx if isinstance(idx, int) else Arr((len(idx),), list(idx), kind='i')
            return a[tuple(key)]
        flat = a.ravel()
        if isinstance(indices, Arr):
            return Arr(indices.shape, [ndarr.flat_get(flat, i) for i in indices.items()])
        return ndarr.flat_get(flat, indices)

    def np_squeeze(self, x, axis=None):
        return self.np_asarray(x).squeeze(axis)

    def np_expand_dims(self, x, axis):
        a = self.np_asarray(x)
        sh = list(a.shape)
        sh.insert(axis if axis >= 0 else len(sh) + 1 + axis, 1)
        return a.reshape(sh)

    def np_broadcast_to(self, x, shape):
        return broadcast_to(self.np_asarray(x), _shape_arg(shape))

    def np_shape(self, x):
        from .absint import Obj
        if isinstance(x, Obj):
            return self.interp.getattr(x, 'shape')
        return shape_of(x)

    def np_size(self, x, axis=None):
        from .absint import Obj
        if isinstance(x, Obj):
            return self.interp.getattr(x, 'size')
        sh = shape_of(x)
        return _prod(sh) if axis is None else sh[axis]

    def np_ndim(self, x):
        return len(self.np_shape(x))

    def _filled(self, shape, value, kind='f'):
        shape = _shape_arg(shape)
        return Arr(shape, [value] * _prod(shape), kind=kind)

    def np_zeros(self, shape, dtype=None, **kw):
        _only(kw, ('order', 'like'), 'np.zeros')
        return self._filled(shape, 0, _kind_of_dtype(dtype))

    def np_ones(self, shape, dtype=None, **kw):
        _only(kw, ('order', 'like'), 'np.ones')
        return self._filled(shape, 1, _kind_of_dtype(dtype))

    def np_empty(self, shape, dtype=None, **kw):
        _only(kw, ('order', 'like'), 'np.empty')
        return self._filled(shape, UNINIT, _kind_of_dtype(dtype))

    def np_full(self, shape, fill_value, dtype=None, **kw):
        _only(kw, ('order', 'like'), 'np.full')
        if isinstance(fill_value, Arr):
            return broadcast_to(fill_value, _shape_arg(shape)).copy()
        if dtype is not None:
            return self._filled(shape, fill_value, _kind_of_dtype(dtype))
        # without dtype the array takes the dtype of the fill value (an integer fill value gives an integer array)
        k = ndarr.elem_dtype_kind(fill_value)
        return self._filled(shape, fill_value, k if k in ('i', 'c') else 'f')

    def np_zeros_like(self, x, dtype=None, **kw):
        _only(kw, ('order', 'subok'), 'np.zeros_like')
        return self._filled(shape_of(x), 0, _kind_of_dtype(dtype))

    def np_ones_like(self, x, dtype=None, **kw):
        _only(kw, ('order', 'subok'), 'np.ones_like')
        return self._filled(shape_of(x), 1, _kind_of_dtype(dtype))

    def np_empty_like(self, x, dtype=None, **kw):
        _only(kw, ('order', 'subok'), 'np.empty_like')
        return self._filled(shape_of(x), UNINIT)

    def np_full_like(self, x, fill_value, dtype=None, **kw):
        _only(kw, ('order', 'subok'), 'np.full_like')
        kind = _kind_of_dtype(dtype) if dtype is not None else (x.kind if isinstance(x, Arr) and x.kind else 'f')
        if kind == 'i' and not isinstance(fill_value, Arr):
            c = ndarr.concrete_real(fill_value)
            if c is None:
                raise AnalysisError('np.full_like of an integer array with a symbolic fill value (cast not modelled)')
            fill_value = int(c)         # the fill value is cast to the integer dtype of x
        return self._filled(shape_of(x), fill_value, kind)

    def np_arange(self, *args, **kw):
        _only(kw, ('dtype', 'like'), 'np.arange')
        vals = [_conc_int(a) for a in args]
        return Arr((len(range(*vals)),), list(range(*vals)), kind='i')

    def np_linspace(self, start, stop, num=50, endpoint=True, **kw):
        _only(kw, ('dtype',), 'np.linspace')
        num = _conc_int(num)
        div = (num - 1) if endpoint else num
        if num == 1:
            return Arr((1,), [start])
        step = s_div(s_sub(stop, start), div)
        return Arr((num,), [s_add(start, s_mul(step, i)) for i in range(num)])

    def np_identity(self, n, dtype=None):
        n = _conc_int(n)
        return Arr((n, n), [1 if i == j else 0 for i in range(n) for j in range(n)])

    def np_eye(self, n, m=None, k=0, dtype=None):
        n = _conc_int(n)
        m = n if m is None else _conc_int(m)
        return Arr((n, m), [1 if j - i == k else 0 for i in range(n) for j in range(m)])

    def _tri_indices(self, n, k, m, lower):
        n = _int_arg(n)
        m = n if m is None else _int_arg(m)
        k = _int_arg(k)
        pairs = [(i, j) for i in range(n) for j in range(m) if (j - i <= k if lower else j - i >= k)]
        return (Arr((len(pairs),), [i for i, j in pairs], kind='i'), Arr((len(pairs),), [j for i, j in pairs], kind='i'))

    def _tri(self, a, k, lower):
        a = self.np_asarray(a)
        if a.ndim != 2:
            raise AnalysisError('np.triu / tril of a %d-d array' % a.ndim)
        k = _int_arg(k)
        rows, cols = a.shape
        items = a.items()
        out = [items[i * cols + j] if (j - i <= k if lower else j - i >= k) else 0 for i in range(rows) for j in range(cols)]
        return Arr(a.shape, out, kind=a.kind)

    def np_triu(self, a, k=0):
        return self._tri(a, k, False)

    def np_tril(self, a, k=0):
        return self._tri(a, k, True)

    def np_tril_indices(self, n, k=0, m=None):
        return self._tri_indices(n, k, m, True)

    def np_triu_indices(self, n, k=0, m=None):
        return self._tri_indices(n, k, m, False)

    def np_diag_indices(self, n, ndim=2):
        n = _int_arg(n)
        return tuple(Arr((n,), list(range(n)), kind='i') for _ in range(_int_arg(ndim)))

    def np_diag(self, v, k=0):
        a = self.np_asarray(v)
        if k != 0:
            raise AnalysisError('np.diag with k != 0')
        if a.ndim == 1:
            n = a.shape[0]
            it = a.items()
            return Arr((n, n), [it[i] if i == j else 0 for i in range(n) for j in range(n)])
        if a.ndim == 2:
            n = min(a.shape)
            return Arr((n,), [a[i, i] for i in range(n)])
        raise InterpValueError('Input must be 1- or 2-d.')

    def np_outer(self, a, b, out=None):
        a, b = self.np_asarray(a).ravel(), self.np_asarray(b).ravel()
        res = Arr((a.size, b.size), [s_mul(x, y) for x in a.items() for y in b.items()])
        if out is not None:
            if out.shape != res.shape:
                raise InterpValueError('output array has wrong shape')
            self.interp.setitem(out, Ellipsis, res)
            return out
        return res

    def np_dot(self, a, b):
        from .absint import Obj
        if isinstance(a, Obj) or isinstance(b, Obj):
            raise AnalysisError('np.dot on objects')
        a, b = self.np_asarray(a), self.np_asarray(b)
        if a.ndim == 0 or b.ndim == 0:
            return a * b
        if a.ndim == 1 and b.ndim == 1:
            if a.shape != b.shape:
                raise InterpValueError('shapes %s and %s not aligned' % (a.shape, b.shape))
            return _sum_items([s_mul(x, y) for x, y in zip(a.items(), b.items())])
        if a.ndim == 2 and b.ndim == 1:
            if a.shape[1] != b.shape[0]:
                raise InterpValueError('shapes %s and %s not aligned' % (a.shape, b.shape))
            return Arr((a.shape[0],), [_sum_items([s_mul(a[i, k], b[k]) for k in range(b.shape[0])])
                                       for i in range(a.shape[0])])
        if a.ndim == 1 and b.ndim == 2:
            if a.shape[0] != b.shape[0]:
                raise InterpValueError('shapes %s and %s not aligned' % (a.shape, b.shape))
            return Arr((b.shape[1],), [_sum_items([s_mul(a[k], b[k, j]) for k in range(a.shape[0])])
                                       for j in range(b.shape[1])])
        if a.ndim == 2 and b.ndim == 2:
            if a.shape[1] != b.shape[0]:
                raise InterpValueError('shapes %s and %s not aligned' % (a.shape, b.shape))
            return Arr((a.shape[0], b.shape[1]),
                       [_sum_items([s_mul(a[i, k], b[k, j]) for k in range(a.shape[1])])
                        for i in range(a.shape[0]) for j in range(b.shape[1])])
        raise AnalysisError('np.dot for ndim > 2')

    def np_vstack(self, tup, **kw):
        _only(kw, ('dtype', 'casting'), 'np.vstack')
        arrs = [self.np_atleast_2d(x) for x in tup]
        if not arrs:
            raise InterpValueError('need at least one array to concatenate')
        return self.np_concatenate(arrs, axis=0)

    def np_hstack(self, tup, **kw):
        _only(kw, ('dtype', 'casting'), 'np.hstack')
        arrs = [self.np_atleast_1d(x) for x in tup]
        if arrs and arrs[0].ndim == 1:
            return self.np_concatenate(arrs, axis=0)
        return self.np_concatenate(arrs, axis=1)

    def np_column_stack(self, tup):
        arrs = []
        for x in tup:
            a = self.np_asarray(x)
            if a.ndim < 2:
                a = a.reshape(a.size, 1)
            arrs.append(a)
        return self.np_concatenate(arrs, axis=1)

    def np_stack(self, tup, axis=0):
        arrs = [self.np_asarray(x) for x in tup]
        r = asarr(list(arrs)).copy()
        axis = _int_arg(axis)
        if axis < 0:
            axis += r.ndim
        if axis != 0:
            r = self.np_moveaxis(r, 0, axis)
        return r

    def np_concatenate(self, tup, axis=0):
        arrs = [self.np_asarray(x) for x in tup]
        if not arrs:
            raise InterpValueError('need at least one array to concatenate')
        nd = arrs[0].ndim
        if nd == 0:
            raise InterpValueError('zero-dimensional arrays cannot be concatenated')
        axis = axis % nd
        for a in arrs:
            if a.ndim != nd:
                raise InterpValueError('all the input array dimensions except for the concatenation axis must '
                                       'match exactly (ndim %d vs %d)' % (nd, a.ndim))
            for k in range(nd):
                if k != axis and a.shape[k] != arrs[0].shape[k]:
                    raise InterpValueError('all the input array dimensions except for the concatenation axis '
                                           'must match exactly, but along dimension %d, the array at index 0 '
                                           'has size %d and another has size %d' % (k, arrs[0].shape[k], a.shape[k]))
        # move axis to front, concatenate, move back
        perm = [axis] + [k for k in range(nd) if k != axis]
        moved = [a.transpose(perm) for a in arrs]
        data = [v for a in moved for v in a.items()]
        shape0 = (sum(a.shape[0] for a in moved),) + moved[0].shape[1:]
        res = Arr(shape0, data)
        inv = [perm.index(k) for k in range(nd)]
        return res.transpose(inv).copy() if axis != 0 else res

    def np_where(self, cond, a=None, b=None):
        if a is None:
            raise AnalysisError('np.where with one argument')

        def pick(c, x, y):
            if c is True or (isinstance(c, int) and not isinstance(c, bool) and c != 0):
                return x
            if c is False or (isinstance(c, int) and c == 0):
                return y
            if isinstance(c, Unk):
                if _same(x, y):
                    return x
                return ndarr.mk_choice(c, x, y)
            raise AnalysisError('np.where condition %r' % (c,))
        return ewn(pick, cond, a, b)

    def np_put(self, a, ind, v, mode='raise'):
        if not isinstance(a, Arr):
            raise InterpTypeError('put: argument 1 must be numpy.ndarray')
        ind = self.np_asarray(ind).ravel()
        vals = self.np_asarray(v).ravel().items()
        if ind.size and not vals:
            raise InterpValueError('put: empty values')
        if self.interp is not None and self.interp.on_store is not None:
            self.interp.on_store(a, ('put', ind), v)
        for k, i in enumerate(ind.items()):
            a.flat[i] = vals[k % len(vals)]

    def np_copyto(self, dst, src, casting='same_kind', where=True):
        if not isinstance(dst, Arr):
            raise InterpTypeError('copyto: dst must be an array')
        srcb = broadcast_to(self.np_asarray(src), dst.shape).items()
        mask = [where] * dst.size if not isinstance(where, Arr) else broadcast_to(where, dst.shape).items()
        if self.interp is not None and self.interp.on_store is not None:
            self.interp.on_store(dst, ('copyto',), src)
        for p, v, m in zip(dst.pos, srcb, mask):
            if m is True or (isinstance(m, int) and not isinstance(m, bool) and m):
                dst.buf.data[p] = v
            elif m is False or m == 0:
                continue
            else:
                dst.buf.data[p] = ndarr.mk_choice(m, v, dst.buf.data[p])
            dst.buf.writes.append((p, 'np.copyto'))

    def np_diff(self, a, n=1, axis=-1):
        a = self.np_asarray(a)
        if n != 1:
            raise AnalysisError('np.diff n != 1')
        if a.ndim == 0:
            raise InterpValueError('diff requires input that is at least one dimensional')
        axis = axis % a.ndim
        hi = [slice(None)] * a.ndim
        lo = [slice(None)] * a.ndim
        hi[axis] = slice(1, None)
        lo[axis] = slice(None, -1)
        return a[tuple(hi)] - a[tuple(lo)]

    # ------------------------------------------------------------------ reductions
    def _reduce(self, a, axis, fn, name, empty=None):
        a = self.np_asarray(a)
        if axis is None:
            items = a.items()
            if not items:
                if empty is None:
                    raise InterpValueError('zero-size array to reduction operation %s which has no identity' % name)
                return empty
            return fn(items)
        axis = axis % a.ndim if a.ndim else 0
        if a.ndim == 0:
            raise InterpRaise('axis %d is out of bounds for array of dimension 0' % axis, 'AxisError')
        perm = [axis] + [k for k in range(a.ndim) if k != axis]
        m = a.transpose(perm)
        n0 = m.shape[0]
        rest = m.shape[1:]
        cols = _prod(rest)
        items = m.items()
        out = []
        for c in range(cols):
            col = [items[r * cols + c] for r in range(n0)]
            if not col:
                if empty is None:
                    raise InterpValueError('zero-size array to reduction operation %s which has no identity' % name)
                out.append(empty)
            else:
                out.append(fn(col))
        return Arr(rest, out)

    def np_sum(self, a, axis=None, **kw):
        _only(kw, ('dtype', 'keepdims'), 'np.sum')
        r = self._reduce(a, axis, _sum_items, 'sum', empty=0)
        return _keepdims(r, a, axis) if kw.get('keepdims') else r

    def np_prod(self, a, axis=None, **kw):
        _only(kw, ('dtype',), 'np.prod')
        def prod(items):
            acc = items[0]
            for v in items[1:]:
                acc = s_mul(acc, v)
            return acc
        return self._reduce(a, axis, prod, 'prod', empty=1)

    def np_mean(self, a, axis=None, **kw):
        _only(kw, ('dtype', 'keepdims'), 'np.mean')
        r = self._reduce(a, axis, lambda it: s_div(_sum_items(it), len(it)), 'mean')
        return _keepdims(r, a, axis) if kw.get('keepdims') else r

    def np_cumsum(self, a, axis=None, dtype=None, **kw):
        _only(kw, (), 'np.cumsum')
        a = self.np_asarray(a)
        if dtype is not None:
            k = dtype_target_kind(dtype)
            if k == 'f' or (k is None and dtype not in (int, INT) and not str(getattr(dtype, 'name', dtype)).startswith(('int', 'uint'))
                            and getattr(dtype, '__name__', '') not in ('intp', 'int64', 'int32', 'int_')):
                a = cast_to_dtype(self, a, dtype)
            # (integer accumulators: sums of truth values / integers are exact in the model anyway)
        if a.ndim > 1 and axis is not None:
            axis = axis % a.ndim
            perm = [axis] + [k for k in range(a.ndim) if k != axis]
            m = a.transpose(perm)
            n0, cols = m.shape[0], _prod(m.shape[1:])
            items = m.items()
            out = [None] * (n0 * cols)
            for c in range(cols):
                acc = 0
                for r in range(n0):
                    v = items[r * cols + c]
                    acc = s_add(acc, int(v) if isinstance(v, bool) else v)
                    out[r * cols + c] = acc
            res = Arr(m.shape, out)
            return res.transpose([perm.index(k) for k in range(a.ndim)]).copy()
        out, acc = [], 0
        for v in a.ravel().items():
            acc = s_add(acc, v)
            out.append(acc)
        return Arr((len(out),), out)

    def np_any(self, a, axis=None, **kw):
        _only(kw, ('keepdims',), 'np.any')
        keep_ = kw.get('keepdims')
        def f(items):
            pend = []
            for v in items:
                if isinstance(v, Unk):
                    pend.append(v.expr)
                elif isinstance(v, Choice):
                    pend.append(('choice', v))
                elif v is True or (not isinstance(v, bool) and _truthy(v)):
                    return True
            return Unk(('any', pend)) if pend else False
        r = self._reduce(a, axis, f, 'any', empty=False)
        return _keepdims(r, a, axis) if keep_ else r

    def np_all(self, a, axis=None, **kw):
        _only(kw, ('keepdims',), 'np.all')
        keep_ = kw.get('keepdims')
        def f(items):
            pend = []
            for v in items:
                if isinstance(v, Unk):
                    pend.append(v.expr)
                elif isinstance(v, Choice):
                    pend.append(('choice', v))
                elif v is False or (not isinstance(v, bool) and not _truthy(v)):
                    return False
            return Unk(('all', pend)) if pend else True
        r = self._reduce(a, axis, f, 'all', empty=True)
        return _keepdims(r, a, axis) if keep_ else r

    def _extreme(self, which, name):
        def red(items):
            conc = [ndarr.concrete_real(v) for v in items]
            if all(c is not None for c in conc):
                best = 0
                for i in range(1, len(items)):
                    if (conc[i] > conc[best]) if which == 'max' else (conc[i] < conc[best]):
                        best = i
                return items[best]
            for v in items:
                h = getattr(v, 'minmax_', None)
                if h is not None:
                    return h(which, items)
            from .absint import sym_minmax
            if len(items) == 1:
                return items[0]
            # an ordering hypothesis / sign information may decide every comparison
            best = items[0]
            for v in items[1:]:
                r = ndarr.s_cmp('>' if which == 'max' else '<', v, best)
                if r is True:
                    best = v
                elif r is not False:
                    return sym_minmax(which, items)
            return best

        def f(a, axis=None, **kw):
            _only(kw, (), 'np.' + name)
            return self._reduce(a, axis, red, name)
        return f

    def np_max(self, a, axis=None, **kw):
        _only(kw, ('keepdims',), 'np.max')
        r = self._extreme('max', 'maximum')(a, axis)
        return _keepdims(r, a, axis) if kw.get('keepdims') else r
    np_amax = np_max

    def np_ptp(self, a, axis=None, **kw):
        _only(kw, (), 'np.ptp')
        return self._bin(s_sub, self.np_max(a, axis), self.np_min(a, axis))

    def np_vdot(self, a, b):
        """sum(conj(a) * b) over the flattened arguments (numpy conjugates the first one)."""
        same_operand = a is b
        a, b = self.np_asarray(a).ravel(), self.np_asarray(b).ravel()
        if a.size != b.size:
            raise InterpValueError('cannot reshape array of size %d into shape (%d,)' % (b.size, a.size))
        if same_operand or all(x is y for x, y in zip(a.items(), b.items())):
            # vdot(w, w) = sum |w_k|^2: real and non-negative by construction
            acc = 0
            for x in a.items():
                m = self.scalar_fn('abs', x)
                acc = s_add(acc, s_mul(m, m))
            return acc
        acc = 0
        for x, y in zip(a.items(), b.items()):
            acc = s_add(acc, s_mul(self.scalar_fn('conj', x), y))
        return acc

    def np_putmask(self, a, mask, values):
        """a.flat[n] = values[n % len(values)] for every n where mask.flat[n] is true - the value is picked by the
        *position* n, not by a running count of the true entries (that is np.place)."""
        if not isinstance(a, Arr):
            raise InterpTypeError('putmask: argument 1 must be numpy.ndarray')
        m = broadcast_to(self.np_asarray(mask), a.shape).items()
        vals = self.np_asarray(values).ravel().items()
        if not vals:
            raise InterpValueError('putmask: empty values')
        if self.interp is not None and self.interp.on_store is not None:
            self.interp.on_store(a, ('putmask', mask), values)
        for n_, mk in enumerate(m):
            v = vals[n_ % len(vals)]
            p_ = a.pos[n_]
            if mk is True or (isinstance(mk, int) and not isinstance(mk, bool) and mk != 0):
                if a.kind == 'i':
                    ndarr.check_int_store(a, v)
                a.buf.data[p_] = v
                a.buf.writes.append((p_, getattr(a, '_where', None)))
            elif mk is False or mk == 0:
                continue
            elif isinstance(mk, Unk):
                a.buf.data[p_] = ndarr.mk_choice(mk, v, a.buf.data[p_])
                a.buf.writes.append((p_, getattr(a, '_where', None)))
            else:
                raise AnalysisError('np.putmask mask element %r' % (mk,))
        return None

    def np_min(self, a, axis=None, **kw):
        _only(kw, ('keepdims',), 'np.min')
        r = self._extreme('min', 'minimum')(a, axis)
        return _keepdims(r, a, axis) if kw.get('keepdims') else r
    np_amin = np_min
    np_nanmin = np_min
    np_nanmax = np_max

    def np_extract(self, condition, arr):
        """np.extract(condition, arr) == np.compress(ravel(condition), ravel(arr)): the selected elements in C order"""
        c = self.np_asarray(condition).ravel().items()
        a = self.np_asarray(arr).ravel()
        if len(c) != a.size:
            raise AnalysisError('np.extract with a condition of another size')
        if any(isinstance(m, (Unk, Choice)) for m in c):
            raise AnalysisError('np.extract with an undetermined condition')
        items = a.items()
        picked = [items[i] for i, m in enumerate(c) if _truthy(m)]
        return Arr((len(picked),), picked, kind=a.kind)

    def np_place(self, arr, mask, vals):
        """np.place: the first N values are put into the N true positions, one after the other (cyclically)"""
        if not isinstance(arr, Arr):
            raise InterpTypeError('place: argument 1 must be numpy.ndarray')
        arr._check_writeable()
        m = broadcast_to(self.np_asarray(mask), arr.shape).items()
        v = self.np_asarray(vals).ravel().items()
        if any(isinstance(x, (Unk, Choice)) for x in m):
            raise AnalysisError('np.place with an undetermined mask')
        k = 0
        for n_, mk in enumerate(m):
            if _truthy(mk):
                if not v:
                    raise InterpValueError('Cannot insert from an empty array!')
                arr.buf.data[arr.pos[n_]] = v[k % len(v)]
                arr.buf.writes.append((arr.pos[n_], getattr(arr, '_where', None)))
                k += 1

    def np_issubdtype(self, a, b):
        def kind_of(t):
            if isinstance(t, DType):
                return t.kind
            nm = getattr(t, '__name__', None)
            return {'float': 'f', 'floating': 'f', 'float64': 'f', 'complex': 'c', 'complexfloating': 'c', 'complex128': 'c',
                    'int': 'i', 'integer': 'i', 'int64': 'i', 'bool': 'b', 'bool_': 'b', 'number': 'n', 'inexact': 'x',
                    'generic': 'g', 'signedinteger': 'i'}.get(nm)
        ka, kb = kind_of(a), kind_of(b)
        if ka is None or kb is None:
            raise AnalysisError('np.issubdtype(%r, %r)' % (a, b))
        if kb == 'g':
            return True
        if kb == 'n':
            return ka in ('f', 'c', 'i')
        if kb == 'x':
            return ka in ('f', 'c')
        return ka == kb

    def np_nonzero(self, a):
        a = self.np_asarray(a)
        if a.ndim == 0:
            raise InterpValueError('Calling nonzero on 0d arrays is not allowed')
        hits = []
        for idx in itertools.product(*[range(n) for n in a.shape]):
            v = a[idx]
            if isinstance(v, (Unk, Choice)):
                raise AnalysisError('nonzero of undetermined mask')
            if _truthy(v):
                hits.append(idx)
        return tuple(Arr((len(hits),), [h[d] for h in hits], kind='i') for d in range(a.ndim))

    def np_flatnonzero(self, a):
        a = self.np_asarray(a).ravel()
        out = []
        for i, v in enumerate(a.items()):
            if isinstance(v, (Unk, Choice)):
                raise AnalysisError('flatnonzero of undetermined mask')
            if _truthy(v):
                out.append(i)
        return Arr((len(out),), out, kind='i')

    def np_ravel_multi_index(self, multi_index, dims, **kw):
        _only(kw, (), 'np.ravel_multi_index')
        dims = tuple(_conc_int(d) for d in dims)
        idx = [self.np_asarray(m) for m in multi_index]
        if len(idx) != len(dims):
            raise InterpValueError('parameter multi_index must be a sequence of length %d' % len(dims))
        strides = ndarr._strides(dims)

        def comb(*vals):
            for v in vals:
                h = getattr(v, 'ravel_index_', None)
                if h is not None:
                    return h(vals, dims)
            tot = 0
            for v, d, st in zip(vals, dims, strides):
                v = _conc_int(v)
                if v < 0 or v >= d:
                    raise InterpValueError('invalid entry in coordinates array')
                tot += v * st
            return tot
        return ewn(comb, *idx)

    def np_unravel_index(self, indices, shape):
        raise AnalysisError('np.unravel_index not modelled')

    # ------------------------------------------------------------------ misc
    def np_result_type(self, *args):
        kinds = []
        for a in args:
            if isinstance(a, DType):
                kinds.append(a.kind)
            elif a is float:
                kinds.append('f')
            elif a is int:
                kinds.append('i')
            elif a is complex:
                kinds.append('c')
            elif dtype_target_kind(a) is not None:
                kinds.append(dtype_target_kind(a))           # float / np.float64 / 'complex128' .. given as a type or a name
            else:
                k = self.kind_of(a)
                if k in ('f', 'i') and not isinstance(a, Arr) and ndarr.concrete_real(a) is None and not isinstance(a, (int, Fr)):
                    # a symbolic scalar that looks real may be an element of a complex array (the model keeps a kind per
                    # element, numpy one dtype per array): its dtype is not known
                    k = '?'
                kinds.append(k)
        if 'O' in kinds:
            return OBJECT
        if 'c' in kinds:
            return COMPLEX
        if '?' in kinds:
            return DType('unknown', '?')
        return FLOAT if 'f' in kinds else INT

    def kind_of(self, a):
        h = self.hooks.get('kind_of')
        if h is not None:
            r = h(a)
            if r is not NotImplemented:
                return r
        if isinstance(a, Arr):
            ks = {self.kind_of(v) for v in a.items()} or {a.kind or 'f'}
            ks = {'c' if k == 'z' else k for k in ks}        # 'z': complex with a definitely non-zero imaginary part
            for k in ('O', '?', 'c', 'f', 'i', 'b'):
                if k in ks:
                    return k
            return 'f'
        if isinstance(a, bool):
            return 'b'
        if isinstance(a, int):
            return 'i'
        if isinstance(a, Fr):
            return 'f'
        if isinstance(a, Poly):
            if a.is_real():
                return 'f'
            return 'c'
        if isinstance(a, Rat):
            return 'f' if a.n.is_real() and a.d.is_real() else 'c'
        k = getattr(a, 'kind_', None)
        if k is not None:
            return 'c' if k() == 'z' else k()
        if isinstance(a, (Unk,)):
            return 'b'
        if isinstance(a, Choice):
            ka, kb = self.kind_of(a.a), self.kind_of(a.b)
            for k in ('O', '?', 'c', 'f', 'i', 'b'):
                if k in (ka, kb):
                    return k
        from .absint import Obj
        if isinstance(a, Obj):
            return 'O'
        if a is UNINIT:
            return 'f'
        return '?'

    def np_iscomplexobj(self, x):
        k = self.kind_of(x)
        if k == '?':
            return Unk('iscomplexobj')
        return k == 'c'

    def np_isrealobj(self, x):
        r = self.np_iscomplexobj(x)
        return ndarr.s_not(r)

    def np_isscalar(self, x):
        return isinstance(x, (int, Fr, Poly, Rat, str))

    def np_broadcast(self, *arrs):
        """np.broadcast(a, b, ...): only the shape attributes of the broadcast object are modelled (not its iteration)."""
        shape = broadcast_shapes(*[self.np_asarray(a).shape for a in arrs])
        return Namespace('broadcast', shape=shape, size=_prod(shape), nd=len(shape), ndim=len(shape), numiter=len(arrs))

    def np_broadcast_arrays(self, *arrs):
        arrs = [self.np_asarray(a) for a in arrs]
        shape = broadcast_shapes(*[a.shape for a in arrs])
        return [broadcast_to(a, shape) for a in arrs]

    def np_clip(self, a, a_min=None, a_max=None, **kw):
        _only(kw, (), 'np.clip')
        a_min = kw.get('min', a_min)
        a_max = kw.get('max', a_max)

        def f(v):
            if a_min is not None:
                v = self.scalar_fn2('maximum', v, a_min)
            if a_max is not None:
                v = self.scalar_fn2('minimum', v, a_max)
            return v
        return ew1(f, a)

    def int_(self, x):
        def f(v):
            c = ndarr.concrete_real(v)
            if c is None:
                h = getattr(v, 'int_', None)
                if h is not None:
                    return h()
                d = numeric_value(v)
                if d is not None:
                    import decimal
                    nearest = d.to_integral_value()
                    if abs(d - nearest) < decimal.Decimal('1e-9'):
                        raise AnalysisError('np.int_(%r): the value is within 1e-9 of an integer; the double precision '
                                            'result depends on the last ulp and is not decided' % (v,))
                    return int(d)         # truncation toward zero, as numpy does
                raise AnalysisError('np.int_ of symbolic value %r' % (v,))
            return int(c)
        return ew1(f, x)

    def factorial(self, n, exact=False):
        import math

        def f(v):
            c = ndarr.concrete_real(v)
            if c is None or c != int(c):
                raise AnalysisError('factorial of non concrete %r' % (v,))
            return math.factorial(int(c)) if c >= 0 else 0
        return ew1(f, n)

    # tolerance comparisons: |a - b| <= atol + rtol * |b| is evaluated symbolically.  Identical terms compare close; for
    # anything else the outcome is an undetermined value marked 'approx' (both outcomes are realisable for symbolic
    # inputs: a == b and |a - b| large) that carries the comparison, so a rule can explore both successors or inspect
    # the tolerance used.
    def _isclose1(self, x, y, rtol, atol):
        if isinstance(x, Unk) or isinstance(y, Unk):
            return Unk(('approx', ('fn', 'isclose', getattr(x, 'expr', x), getattr(y, 'expr', y))))
        if x is y or _same(x, y):
            return True
        d = s_add(x, s_neg(y))
        if ndarr.concrete_real(d) == 0 and ndarr.concrete_real(d) is not None:
            return True
        lhs = self.scalar_fn('abs', d)
        rhs = s_add(atol, s_mul(rtol, self.scalar_fn('abs', y)))
        r = ndarr.s_cmp('<=', lhs, rhs)
        if isinstance(r, Unk):
            return Unk(('approx', r.expr, ('tol', rtol, atol)))
        return r

    def np_isclose(self, a, b, rtol=Fr(1, 10 ** 5), atol=Fr(1, 10 ** 8), equal_nan=False):
        rtol = Fr(str(rtol)) if isinstance(rtol, float) else rtol
        atol = Fr(str(atol)) if isinstance(atol, float) else atol
        return ewn(lambda x, y: self._isclose1(x, y, rtol, atol), a, b)

    def np_allclose(self, a, b, rtol=Fr(1, 10 ** 5), atol=Fr(1, 10 ** 8), equal_nan=False):
        return self.np_all(self.np_isclose(a, b, rtol=rtol, atol=atol, equal_nan=equal_nan))

    def np_array_equal(self, a, b, equal_nan=False):
        a, b = self.np_asarray(a), self.np_asarray(b)
        sa = a.shape if isinstance(a, Arr) else ()
        sb = b.shape if isinstance(b, Arr) else ()
        if sa != sb:
            return False
        ia = a.items() if isinstance(a, Arr) else [a]
        ib = b.items() if isinstance(b, Arr) else [b]
        return self.np_all(Arr((len(ia),), [True if (x is y) else ndarr.s_cmp('==', x, y) for x, y in zip(ia, ib)]))

    def np_real_if_close(self, a, tol=100):
        """Real part when every imaginary part is negligible: decided for definitely real / definitely complex
        element kinds; otherwise the outcome is undetermined and reported as such (no guess)."""
        a = self.np_asarray(a)
        k = self.kind_of(a)
        if k in ('f', 'i', 'b'):
            return a
        items = a.items() if isinstance(a, Arr) else [a]
        im = [self.scalar_fn('imag', v) for v in items]
        if all(ndarr.concrete_real(v) == 0 and ndarr.concrete_real(v) is not None for v in im):
            return self.apply_ufunc('real', a)
        h = self.hooks.get('real_if_close')
        if h is not None:
            return h(self, a, tol)
        # whether the imaginary parts are negligible is a question about the data: a decision of the program, put to the
        # branch oracle of the run like the test of an `if` (a run without an oracle ends here, undecided)
        import ast as _ast
        from .absint import Frame
        I = self.interp
        mags = [ndarr.s_abs(v) if not isinstance(v, (Unk, Choice)) else v for v in im]
        cond = None
        for m in mags:
            c = Unk(('cmp', '<=', m, Poly.sym('EPS') * tol)) if not isinstance(m, Unk) else m
            cond = c if cond is None else Unk(('and', cond.expr, c.expr))
        mod, node = I.cur if I.cur is not None else (None, None)
        if node is None:
            raise AnalysisError('np.real_if_close on values whose imaginary parts are not determined')
        close = I.truth(cond, node, Frame(mod))
        return self.apply_ufunc('real', a) if close else a

    def np_cumprod(self, a, axis=None):
        a = self.np_asarray(a)
        if a.ndim != 1 and axis is not None:
            raise AnalysisError('cumprod on nd array')
        out, acc = [], 1
        integer = all(isinstance(v, int) and not isinstance(v, bool) for v in a.ravel().items())
        for v in a.ravel().items():
            acc = s_mul(acc, v)
            if integer:
                acc = (acc + 2 ** 63) % 2 ** 64 - 2 ** 63          # int64 arithmetic wraps silently
            out.append(acc)
        return Arr((len(out),), out, kind='i' if integer else None)

    # ------------------------------------------------------------------ contraction / gathering idioms of vectorised code
    def np_einsum(self, subscripts, *operands, **kw):
        """np.einsum with a subscript string (explicit `->` or implicit output), by direct summation over the index space."""
        _only(kw, ('optimize',), 'np.einsum')
        if not isinstance(subscripts, str):
            raise AnalysisError('np.einsum with subscript lists')
        spec = subscripts.replace(' ', '')
        if '.' in spec:
            raise AnalysisError('np.einsum with an ellipsis')
        ins, _, out = spec.partition('->')
        terms = ins.split(',')
        ops = [self.np_asarray(o) for o in operands]
        if len(terms) != len(ops):
            raise InterpValueError('more operands provided to einstein sum function than specified in the subscripts string')
        size = {}
        for t, o in zip(terms, ops):
            if len(t) != o.ndim:
                raise InterpValueError('einstein sum subscripts string contains too many subscripts for operand')
            for ch, n in zip(t, o.shape):
                if size.setdefault(ch, n) != n:
                    if n == 1 or size[ch] == 1:
                        raise AnalysisError('np.einsum broadcasting a length-1 axis')
                    raise InterpValueError('operands could not be broadcast together with remapped shapes')
        if '->' not in spec:
            letters = ''.join(terms)
            out = ''.join(sorted(ch for ch in set(letters) if letters.count(ch) == 1))
        if any(ch not in size for ch in out) or len(set(out)) != len(out):
            raise InterpValueError('einstein sum subscripts string included output subscript which never appeared in an input')
        summed = [ch for ch in size if ch not in out]
        oshape = tuple(size[ch] for ch in out)
        items = []
        for oidx in itertools.product(*[range(n) for n in oshape]):
            env = dict(zip(out, oidx))
            acc = []
            for sidx in itertools.product(*[range(size[ch]) for ch in summed]):
                env.update(zip(summed, sidx))
                prod = None
                for t, o in zip(terms, ops):
                    v = o[tuple(env[ch] for ch in t)] if t else o.item()
                    prod = v if prod is None else s_mul(prod, v)
                acc.append(prod)
            items.append(_sum_items(acc) if acc else 0)
        res = Arr(oshape, items)
        return res.item() if not oshape else res

    def np_tensordot(self, a, b, axes=2):
        a, b = self.np_asarray(a), self.np_asarray(b)
        if isinstance(axes, int):
            ax_a, ax_b = list(range(a.ndim - axes, a.ndim)), list(range(axes))
        else:
            ax_a, ax_b = axes
            ax_a = [ax_a] if isinstance(ax_a, int) else list(ax_a)
            ax_b = [ax_b] if isinstance(ax_b, int) else list(ax_b)
        ax_a = [x % a.ndim for x in ax_a]
        ax_b = [x % b.ndim for x in ax_b]
        if len(ax_a) != len(ax_b) or any(a.shape[i] != b.shape[j] for i, j in zip(ax_a, ax_b)):
            raise InterpValueError('shape-mismatch for sum')
        letters = 'abcdefghijklmnopqrstuvwxyz'
        la = list(letters[:a.ndim])
        lb = list(letters[a.ndim:a.ndim + b.ndim])
        for i, j in zip(ax_a, ax_b):
            lb[j] = la[i]
        out = [ch for k, ch in enumerate(la) if k not in ax_a] + [ch for k, ch in enumerate(lb) if k not in ax_b]
        r = self.np_einsum('%s,%s->%s' % (''.join(la), ''.join(lb), ''.join(out)), a, b)
        return r

    def np_inner(self, a, b):
        a, b = self.np_asarray(a), self.np_asarray(b)
        if a.ndim == 0 or b.ndim == 0:
            return a * b
        return self.np_tensordot(a, b, axes=([-1], [-1]))

    def np_matmul(self, a, b, **kw):
        _only(kw, (), 'np.matmul')
        import ast as _ast
        return self.interp.binop(_ast.MatMult(), a, b)

    def np_take_along_axis(self, arr, indices, axis):
        arr, indices = self.np_asarray(arr), self.np_asarray(indices)
        if axis is None:
            arr, axis = arr.ravel(), 0
        if arr.ndim != indices.ndim:
            raise InterpValueError('`indices` and `arr` must have the same number of dimensions')
        axis = axis % arr.ndim
        shape = list(broadcast_shapes(tuple(n if k != axis else 1 for k, n in enumerate(arr.shape)),
                                      tuple(n if k != axis else 1 for k, n in enumerate(indices.shape))))
        shape[axis] = indices.shape[axis]
        ib = broadcast_to(indices, tuple(shape))
        items = []
        for idx in itertools.product(*[range(n) for n in shape]):
            k = ib[idx]
            if not isinstance(k, int) or isinstance(k, bool):
                raise AnalysisError('np.take_along_axis with a non concrete index %r' % (k,))
            src = tuple((k if d == axis else (i if arr.shape[d] != 1 else 0)) for d, i in enumerate(idx))
            if not -arr.shape[axis] <= k < arr.shape[axis]:
                raise InterpIndexError('index %d is out of bounds for axis %d with size %d' % (k, axis, arr.shape[axis]))
            items.append(arr[src])
        return Arr(tuple(shape), items, kind=arr.kind)

    def np_vectorize(self, pyfunc, **kw):
        _only(kw, ('otypes',), 'np.vectorize')

        def call(*args):
            arrs = [self.np_asarray(a) for a in args]
            shape = broadcast_shapes(*[a.shape for a in arrs])
            arrs = [broadcast_to(a, shape) for a in arrs]
            items = [pyfunc(*vals) for vals in zip(*[a.items() for a in arrs])]
            items = [v.item() if isinstance(v, Arr) and v.size == 1 else v for v in items]
            return Arr(shape, items)
        return call

    def np_fromiter(self, it, dtype=None, count=-1, **kw):
        _only(kw, (), 'np.fromiter')
        vals = []
        for v in self.interp.iterate(it):
            if count >= 0 and len(vals) >= count:
                break
            vals.append(v)
        return cast_to_dtype(self, self.np_asarray(vals) if vals else Arr((0,), []), dtype) if dtype is not None else self.np_asarray(vals)

    def np_repeat(self, a, repeats, axis=None):
        a = self.np_asarray(a)
        if axis is not None and a.ndim != 1:
            raise AnalysisError('np.repeat along an axis of a %d-d array' % a.ndim)
        flat = a.ravel().items()
        reps = [repeats] * len(flat) if isinstance(repeats, int) else list(self.np_asarray(repeats).items())
        if len(reps) != len(flat) or not all(isinstance(r, int) for r in reps):
            raise AnalysisError('np.repeat with repeats %r' % (repeats,))
        out = [v for v, r in zip(flat, reps) for _ in range(r)]
        return Arr((len(out),), out, kind=a.kind)

    def np_tile(self, a, reps):
        a = self.np_asarray(a)
        reps = (reps,) if isinstance(reps, int) else tuple(_conc_int(r) for r in (reps.items() if isinstance(reps, Arr) else reps))
        nd = max(a.ndim, len(reps))
        shape = (1,) * (nd - a.ndim) + tuple(a.shape)
        reps = (1,) * (nd - len(reps)) + reps
        a = a.reshape(shape) if nd else a
        out_shape = tuple(s_ * r for s_, r in zip(shape, reps))
        items = [a[tuple(i % s_ for i, s_ in zip(idx, shape))] if nd else a.item()
                 for idx in itertools.product(*[range(n) for n in out_shape])]
        return Arr(out_shape, items, kind=a.kind)

    def np_count_nonzero(self, a, axis=None, **kw):
        _only(kw, ('keepdims',), 'np.count_nonzero')
        a = self.np_asarray(a)
        flags = []
        for v in a.items():
            if isinstance(v, bool):
                flags.append(1 if v else 0)
            else:
                c = ndarr.concrete_real(v)
                if c is None:
                    from .dv import UnkInt, tags_of
                    if isinstance(v, Unk) and tags_of(v):
                        flags.append(UnkInt(tags_of(v)))         # 0 or 1, depending on the data named by the tags
                        continue
                    raise AnalysisError('np.count_nonzero of an undetermined element %r' % (v,))
                flags.append(1 if c != 0 else 0)
        return self.np_sum(Arr(a.shape, flags, kind='i'), axis=axis, **kw)

    def np_nan_to_num(self, x, copy=True, nan=0.0, posinf=None, neginf=None):
        """np.nan_to_num: elements known to be NaN take `nan`; symbolic elements stand for finite values (the assumption of
        every run) and pass unchanged; an explicitly infinite element is not modelled."""
        a = self.np_asarray(x)
        out = []
        for v in a.items():
            if getattr(v, 'isnan_', None) is not None and v.isnan_() is True:
                out.append(nan)
            elif isinstance(v, Poly) and ({'inf', 'nan'} & set(v.atoms())):
                raise AnalysisError('np.nan_to_num of an explicitly infinite / NaN symbol')
            else:
                out.append(v)
        r = Arr(a.shape, out, kind=a.kind)
        if not copy and isinstance(x, Arr):
            x[...] = r
            return x
        return r if isinstance(x, Arr) or a.ndim else r.item()

    def np_searchsorted(self, a, v, side='left', sorter=None):
        """np.searchsorted on concrete data (tables of sizes and the like)"""
        if sorter is not None:
            raise AnalysisError('np.searchsorted with a sorter')
        import bisect
        a = self.np_asarray(a)
        keys = [ndarr.concrete_real(x) for x in a.ravel().items()]
        if any(k is None for k in keys):
            raise AnalysisError('np.searchsorted in a table of symbolic values')
        fn = bisect.bisect_left if side == 'left' else bisect.bisect_right

        def one(x):
            c = ndarr.concrete_real(x)
            if c is None:
                raise AnalysisError('np.searchsorted of a symbolic value %r' % (x,))
            return fn(keys, c)
        if isinstance(v, (Arr, list, tuple)):
            va = self.np_asarray(v)
            return Arr(va.shape, [one(x) for x in va.items()], kind='i')
        return one(v)

    def np_trace(self, a, offset=0):
        a = self.np_asarray(a)
        if a.ndim != 2:
            raise AnalysisError('np.trace of a %d-d array' % a.ndim)
        return _sum_items([a[i, i + offset] for i in range(a.shape[0]) if 0 <= i + offset < a.shape[1]])

    def np_append(self, arr, values, axis=None):
        arr, values = self.np_asarray(arr), self.np_asarray(values)
        if axis is None:
            return self.np_concatenate([arr.ravel(), values.ravel()])
        return self.np_concatenate([arr, values], axis=axis)

    def np_roll(self, a, shift, axis=None):
        a = self.np_asarray(a)
        if axis is not None and a.ndim != 1:
            raise AnalysisError('np.roll along an axis of a %d-d array' % a.ndim)
        flat = a.ravel().items()
        n = len(flat)
        if not isinstance(shift, int):
            raise AnalysisError('np.roll by %r' % (shift,))
        k = shift % n if n else 0
        return Arr(a.shape, flat[n - k:] + flat[:n - k], kind=a.kind)

    def np_trapz(self, *a, **k):
        raise InterpRaise("module 'numpy' has no attribute 'trapz'", 'AttributeError')

    # data dependent kernels: only through hooks
    def np_percentile(self, a, q, axis=None, **kw):
        _only(kw, ('method', 'interpolation'), 'np.percentile')
        raise AnalysisError('np.percentile needs a rule specific model')
    np_nanpercentile = np_percentile
    np_median = np_percentile
    np_nanmedian = np_percentile

    def np_nanargmin(self, a, axis=None):
        raise AnalysisError('np.nanargmin needs a rule specific model')
    np_argmin = np_nanargmin
    np_argmax = np_nanargmin

    def _ranks(self, a):
        a = self.np_asarray(a)
        if a.ndim != 1:
            raise AnalysisError('sort of a non 1-d array')
        keys = []
        if ndarr.ELEMENT_RANK is not None:
            ranks = [ndarr.ELEMENT_RANK(v) for v in a.items()]
            if all(r is not None for r in ranks):
                return a, [(1, r) for r in ranks]
        for v in a.items():
            c = ndarr.concrete_real(v)
            if c is not None:
                keys.append((0, c))
                continue
            r = ndarr._rank_of(v) if isinstance(v, Poly) else None
            if r is None:
                return a, self._ranks_by_comparison(a.items())
            keys.append((1, r))
        if len({k[0] for k in keys}) > 1:
            return a, self._ranks_by_comparison(a.items())
        return a, keys

    @staticmethod
    def _ranks_by_comparison(items):
        """rank keys of symbolic values whose pairwise order is decided (declared signs, ordering hypothesis)"""
        n = len(items)
        below = [0] * n
        for i in range(n):
            for j in range(i + 1, n):
                lt = ndarr.s_cmp('<', items[i], items[j])
                gt = ndarr.s_cmp('>', items[i], items[j])
                if not isinstance(lt, bool) or not isinstance(gt, bool):
                    raise NeedsOrdering('np.sort / argsort of symbolic data without an ordering hypothesis')
                if lt:
                    below[j] += 1
                elif gt:
                    below[i] += 1
        return [(1, b) for b in below]

    def np_argsort(self, a, axis=-1, **kw):
        _only(kw, ('kind', 'stable'), 'np.argsort')
        a, keys = self._ranks(a)
        order = sorted(range(len(keys)), key=lambda i: keys[i])
        return Arr((len(order),), order, kind='i')

    def np_sort(self, a, axis=-1, **kw):
        _only(kw, ('kind', 'stable'), 'np.sort')
        a, keys = self._ranks(a)
        order = sorted(range(len(keys)), key=lambda i: keys[i])
        items = a.items()
        return Arr((len(order),), [items[i] for i in order])

    def np_unique(self, a, return_index=False, return_inverse=False, return_counts=False, **kw):
        _only(kw, (), 'np.unique')
        a, keys = self._ranks(self.np_asarray(a).ravel())
        seen, out, first, inverse_of_key, counts = {}, [], [], {}, []
        items = a.items()
        for i in sorted(range(len(keys)), key=lambda i: (keys[i], i)):
            if keys[i] not in seen:
                seen[keys[i]] = len(out)
                out.append(items[i])
                first.append(i)              # index of the first occurrence in the input
                counts.append(0)
            counts[seen[keys[i]]] += 1
        res = [Arr((len(out),), out)]
        if return_index:
            res.append(Arr((len(first),), first, kind='i'))
        if return_inverse:
            res.append(Arr((len(keys),), [seen[k] for k in keys], kind='i'))
        if return_counts:
            res.append(Arr((len(counts),), counts, kind='i'))
        return res[0] if len(res) == 1 else tuple(res)

    def pinv(self, m, **kw):
        raise AnalysisError('linalg.pinv needs a rule specific model')

    def norm(self, x, ord=None, axis=None, **kw):
        x = self.np_asarray(x)
        if axis is not None or kw:
            raise AnalysisError('linalg.norm with axis/keepdims')
        if isinstance(ord, (int, Fr)) and ord == 2 and x.ndim == 1:
            ord = None
        if ord == 'fro' and x.ndim == 2:
            ord = None
        if ord is None and x.ndim <= 2:
            # Euclidean / Frobenius norm: depends on the multiset of entries only, and is homogeneous - a factor common to
            # every entry (every entry a single monomial carrying the same power of the same atom) comes out as its magnitude
            items = x.ravel().items()
            common = None
            if items and all(isinstance(v, Poly) and len(v.t) == 1 for v in items):
                for v in items:
                    (mono, _c), = v.t.items()
                    d = dict(mono)
                    common = d if common is None else {a_: e for a_, e in common.items() if d.get(a_) == e}
                common = {a_: e for a_, e in (common or {}).items() if a_ in ndarr.ATOM_ARGS or a_ in ndarr.POSITIVE_ATOMS}
            if common:
                factor = Poly.const(1)
                for a_, e in sorted(common.items()):
                    factor = factor * Poly.sym(a_) ** e
                rest = Arr(x.shape, [v / factor for v in x.items()])
                return ndarr.s_abs(factor) * self.norm(rest, ord=ord)
            name = 'norm2(%s)' % ', '.join(sorted(repr(v) for v in x.ravel().items()))
        else:
            name = 'norm[ord=%r,ndim=%d](%s)' % (ord, x.ndim, ', '.join(repr(v) for v in x.ravel().items()))
        ndarr.POSITIVE_ATOMS.add(name)
        return Poly.sym(name)

    def fft(self, x, *a, **kw):
        raise AnalysisError('np.fft.fft needs a rule specific model')

    def convolve1d(self, seq, weights, axis=-1, output=None, mode='reflect', cval=0.0, origin=0):
        """scipy.ndimage.convolve1d, library model confirmed by experiment (DESIGN section 7):
        out[i] = sum_k w[k] * x[i + (len(w)//2 + origin) - k]   (index reflected at the borders).
        Borders: positions whose window leaves the array are marked BORDER (their value depends on the
        boundary mode; the analysed code must trim them)."""
        h = self.hooks.get('convolve1d')
        if h is not None:
            r = h(self, seq, weights, axis=axis, mode=mode, origin=origin)
            if r is not NotImplemented:
                return r
        seq = self.np_asarray(seq)
        w = self.np_asarray(weights).ravel().items()
        if seq.ndim == 0:
            raise InterpRaise('input and output rank must be > 0', 'RuntimeError')
        axis = axis % seq.ndim
        n_w = len(w)
        origin = _conc_int(origin)
        if not (-(n_w // 2) <= origin <= (n_w - 1) // 2):
            raise InterpValueError('invalid origin')
        perm = [axis] + [k for k in range(seq.ndim) if k != axis]
        m = seq.transpose(perm)
        n0, rest = m.shape[0], m.shape[1:]
        cols = _prod(rest)
        items = m.items()
        out = [None] * (n0 * cols)
        for c in range(cols):
            col = [items[r * cols + c] for r in range(n0)]
            for i in range(n0):
                acc, border = 0, False
                for k in range(n_w):
                    j = i + (n_w // 2 + origin) - k
                    if j < 0 or j >= n0:
                        border = True
                        break
                    acc = s_add(acc, s_mul(w[k], col[j]))
                out[i * cols + c] = BORDER if border else acc
        res = Arr((n0,) + rest, out)
        inv = [perm.index(k) for k in range(seq.ndim)]
        return res.transpose(inv).copy()


def _correlate_from_convolve(self, seq, weights, axis=-1, output=None, mode='reflect', cval=0.0, origin=0):
    """scipy.ndimage.correlate1d expressed through the convolve1d model:
    correlate1d(x, w, origin=o) == convolve1d(x, w[::-1], origin=-o - (1 if len(w) is even else 0))"""
    w = self.np_asarray(weights).ravel()
    n = w.size
    o = -_conc_int(origin) - (0 if n % 2 else 1)
    if self.kind_of(w) == 'c':
        w = ew1(ndarr.elem_conj, w)          # scipy's correlate1d conjugates complex weights
    return self.convolve1d(seq, w[::-1], axis=axis, mode=mode, origin=o)


Models.correlate1d = _correlate_from_convolve


class _Border(object):
    """Element of a convolution result whose window left the array (depends on the boundary mode)."""

    def __repr__(self):
        return 'BORDER'

    def _b(self, *a):
        return self
    __add__ = __radd__ = __sub__ = __rsub__ = __mul__ = __rmul__ = __truediv__ = __rtruediv__ = _b
    __neg__ = __abs__ = __pow__ = _b
    abs_ = real_ = imag_ = _b

    def cmp_(self, op, other):
        return Unk('border')
    rcmp_ = cmp_


BORDER = _Border()


class _Uninit(object):
    def __repr__(self):
        return 'UNINIT'

    def _b(self, *a):
        raise AnalysisError('use of uninitialised array element (np.empty)')
    __add__ = __radd__ = __sub__ = __rsub__ = __mul__ = __rmul__ = __truediv__ = __rtruediv__ = _b
    __neg__ = __abs__ = __pow__ = _b


UNINIT = _Uninit()


class _NdarrayType(object):
    def isinstance_(self, x):
        return isinstance(x, Arr)


class _OGrid(object):
    def __getitem__(self, idx):
        if not isinstance(idx, tuple):
            idx = (idx,)
        out = []
        nd = len(idx)
        for k, s in enumerate(idx):
            vals = list(range(s.start or 0, s.stop, s.step or 1))
            shape = [1] * nd
            shape[k] = len(vals)
            out.append(Arr(tuple(shape), vals, kind='i'))
        return out if nd > 1 else out[0]


class _RClass(object):
    def __getitem__(self, idx):
        if not isinstance(idx, tuple):
            idx = (idx,)
        vals = []
        for v in idx:
            if isinstance(v, slice):
                vals.extend(range(v.start or 0, v.stop, v.step or 1))
            elif isinstance(v, Arr):
                vals.extend(v.ravel().items())
            elif isinstance(v, (list, tuple)):
                vals.extend(v)
            else:
                vals.append(v)
        return Arr((len(vals),), vals)


def _kind_of_dtype(dtype):
    if dtype is None or dtype is float:
        return 'f'
    if dtype is int:
        return 'i'
    if dtype is complex:
        return 'c'
    if dtype is bool:
        return 'b'
    if isinstance(dtype, DType):
        return dtype.kind
    return 'f'


def _shape_arg(shape):
    if isinstance(shape, Arr):
        shape = shape.items()
    if isinstance(shape, (list, tuple)):
        return tuple(_conc_int(s) for s in shape)
    return (_conc_int(shape),)


def _conc_int(v):
    if isinstance(v, Arr) and v.size == 1:
        v = v.item()
    if isinstance(v, bool):
        return int(v)
    if isinstance(v, int):
        return v
    if isinstance(v, Fr) and v.denominator == 1:
        return int(v)
    raise AnalysisError('expected a concrete integer, got %r' % (v,))


def _sum_items(items):
    acc = 0
    for v in items:
        acc = s_add(acc, v)
    return acc


def _truthy(v):
    c = ndarr.concrete_real(v)
    if c is not None:
        return c != 0
    if isinstance(v, (Poly, Rat)):
        if v.is_zero():
            return False
        raise AnalysisError('truth value of symbolic number %r' % (v,))
    return bool(v)


def _same(x, y):
    try:
        return x is y or (type(x) is type(y) and x == y) is True
    except Exception:
        return False
