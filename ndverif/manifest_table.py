"""Single source of truth for MANIFEST.json (tools/gen_manifest.py)."""

NOTES = ('Static analysis only: every verdict is computed from the ast of /repo/src/numdifftools/*.py on each run; '
         'nothing is imported or executed from the package, no solver and no test is run. Each check decides the '
         'named structural clauses of its property (see DESIGN.md section 4) and says which clauses it does not decide. '
         'Exit 2 + ANALYSIS-ERROR means the analysis could not decide (never a verdict).')

CHECKS = {
    'C17': {
        'level': 'Structural clauses of C17 on every outcome of the convergence tests of abstract runs of Taylor.__call__ (iteration cap 4-6): the complex FFT data '
                 'never reaches a real-only kernel; every state attribute written during a call is reset by _initialize; failed is exactly "cap reached without '
                 'convergence"; derivative() scales values and error estimates by the same k!. Accuracy, degeneracy promises and coefficient count not decided.',
        'note': 'np.fft.fft is summarised as "complex output depending on all inputs". _num_taylor_coefficients(n) >= n+1 is not decided (last-ulp dependence of np.log2).',
        'technique': 'abstract interpretation of the Taylor state machine over the data-abstract domain with exploration of undetermined branches; exact algebra for derivative()',
    },
    'C18': {
        'level': 'Structural clauses of C18: NaN-masking of Limit.__call__ (finite values of f returned unchanged, singular entries replaced elementwise, shape kept), '
                 'direction of approach and evaluation points for above/below/forward/backward, argument forwarding, the Residue multiplier d_z**pole_order with '
                 'the same d_z, default order, Richardson parameters, dtype-kind flow for complex z0 / spiral path / complex f. Accuracy of the limit not decided.',
        'note': 'Trusted: abstract interpreter, numpy summaries. _extrapolate is cut off in the exact-algebra runs.',
        'technique': 'abstract interpretation of Limit / Residue over the data-abstract domain (NaN mask, kinds) and exact algebra (evaluation points, multiplier)',
    },
    'C19': {
        'level': 'What nd_scipy.Jacobian / Gradient hand to scipy approx_derivative: method-name mapping against the set accepted by the installed SciPy '
                 '(source parsed with ast), every keyword in the signature, fun / step (as rel_step) / args / kwargs / bounds (5 box shapes) / sparsity '
                 'forwarded unchanged, Gradient flatten-in squeeze-out. Accuracy and bound handling inside SciPy are trusted.',
        'note': 'SciPy is trusted and never imported; only its source is parsed.',
        'technique': 'abstract interpretation of __call__ with approx_derivative replaced by a recording stub; signature read from the SciPy AST',
    },
    'C04': {
        'level': 'Exact 2-D Taylor signature of every cell of the six Hessian quotients with a distinct symbolic step per coordinate (exact on quadratics, '
                 'correct divisor, error powers modelled by the Richardson stage; to total order 6, thorough 8), exact symmetry / full coverage of the fill, '
                 'order tables and pass-through apply, Hessdiag rules for all orders (table level + end to end), shapes and data dependence of Hessian / '
                 'Hessdiag calls incl. f returning a length-1 array, dtype-kind flow for complex valued f. Accuracy for non-quadratic f not decided.',
        'note': 'Dimensions concretised to 1..3 (the quotients are uniform in the dimension). Trusted: abstract interpreter, exact algebra.',
        'technique': 'abstract interpretation: stencil / multivariate Taylor-signature domain for the quotients, data-dependence domain for shapes and dtype kinds',
    },
    'C15': {
        'level': 'fd_weights_all / fd_weights on symbolic distinct nodes (2..4, thorough 5) and symbolic expansion point equal the closed-form Lagrange-derivative '
                 'weights for all rows n < len(x) (rational function identities), under several ordering hypotheses of the nodes. Conditioning not decided.',
        'note': 'Node counts beyond 5 are not explored (the recursion is uniform in the node count). Trusted: exact rational-function algebra.',
        'technique': 'abstract interpretation of the Fornberg recursion over exact rational functions; comparison with the closed form of the definition',
    },
    'C16': {
        'level': 'Index arithmetic of fd_derivative for symbolic grids (minimal length and longer), n 1..4(6), m 1..3(4): every output is the weights of x[S] '
                 'about x[t] applied to fx[S] with the same S, >= 2*(n//2+m)+1 nodes, each index written once. Exactness on polynomials then follows from C15.',
        'note': 'Conditional on C15. Rounding / conditioning not decided.',
        'technique': 'abstract interpretation with array views carrying exact index sets; fd_weights calls intercepted (who-may-call / argument agreement rule)',
    },
    'C11': {
        'level': 'Every misuse listed in C11 is run in the abstract interpreter and must end in ValueError on every path through undetermined '
                 'branches (complex x / complex valued f for complex-step methods in all five classes, on fresh and on previously used objects; '
                 'multicomplex n = 3..10 for Derivative, Jacobian and Gradient; too few steps; wrong output size; directionaldiff / fd_weights / '
                 'fd_derivative / Residue guards; 14 path names other than the two valid ones).',
        'note': 'Complex misuse is modelled as "definitely non-real" values; complex dtype with zero imaginary parts is legal input and not covered.',
        'technique': 'abstract interpretation of the misuse calls (data-abstract and exact-algebra domains): a ValueError guard must dominate every return',
    },
    'C10': {
        'level': 'Generated sequences of the Basic/Min/Max/C step generators for symbolic base step, ratio and x against the closed forms parsed from the '
                 'class docstrings; ordering; defaults (base step, ratio, nominal step, counts incl. the CStepGenerator docstring formula); option handling; '
                 'the zero filter for scalar and array valued steps (an array step is kept only if no element is zero); '
                 'and, by end-to-end abstract runs, that every default (method, n 1..10, order 1..8) configuration gets enough steps.',
        'note': 'default_scale has no specification other than the code and is not checked. Assumes ratio > 1, base step > 0, no zero step.',
        'technique': 'abstract interpretation of the generator classes over exact algebra; code/docstring agreement; end-to-end abstract runs of Derivative',
    },
    'C13': {
        'level': 'Formal clauses of C13 by abstract interpretation of dea3: Shanks fixed-point identity (rational function identity in L, a, q), form of '
                 'the convergence / irregular-behaviour guard (cross-checked against Dea._dea), non-negative error estimate, no in-place write to '
                 'inputs, elementwise dependence and shapes, symmetric trimming, nothing raises, and every division by / product of data values of the '
                 'abstract run happens with the floating-point warnings silenced. Rounding bounds / honesty of the estimate not decided.',
        'note': 'Regularisers dropped for the identity. Trusted: abstract interpreter, exact rational-function algebra.',
        'technique': 'abstract interpretation of dea3 over exact algebra (guarded choices kept symbolic) and over the data-dependence / sign / aliasing domain',
    },
    'C14': {
        'level': 'EpsAlg against the exact Wynn epsilon table for symbolic sequences (rational function identities); Dea: first extrapolation equals dea3, '
                 'values are even-order table entries with guards off through table shifts, table index bound explored over every guard outcome when more '
                 'terms than the table holds are fed, error floor from the third term on for every guard outcome (also after a restart of the table). '
                 'Finiteness under rounding not decided.',
        'note': 'Open known finding: IndexError on the all_converged path (F8). The EpsAlg vanishing-difference guard is accepted up to 1e-30.',
        'technique': 'abstract interpretation of EpsAlg/Dea over exact rational functions and over an opaque-data domain with exploration of guard outcomes',
    },
    'C07': {
        'level': 'Formal statement of C07 for a symbolic (real or complex) step ratio, spacing 1..4, leading order, 0..5 terms and short / long '
                 'sequences: abstract run of Richardson.__call__ on a symbolic model sequence; weights sum to one and annihilate each modelled power in '
                 'every output slot; output counts; column independence; non-negative error estimates on all branches. Rounding / conditioning not decided.',
        'note': 'Trusted: convolve1d summary, Vandermonde non-singularity (pinv == inverse). Open known finding: num_terms=0 with N>=2 returns one error estimate fewer.',
        'technique': 'abstract interpretation of Richardson.rule/_r_matrix/__call__ over exact algebra with a symbolic pseudo inverse (W*M = I applied afterwards)',
    },
    'C12': {
        'level': 'Formal identity between every Bicomplex operation and the holomorphic extension given by the idempotent decomposition: '
                 'ring operations and exp/sin/cos/sinh/cosh/expm1 by a decision procedure on exp-polynomials of symbolic components; log, '
                 'log1p, mod_c, arg_c and powers under a polar substitution; division and all derived / inverse functions against the '
                 'textbook identity table in a formal field of functions. Branch cuts, regularisers and rounding are not decided.',
        'note': 'Regularisers (_TINY, clip) dropped, principal branch assumed. Trusted: exact algebra, "idempotent decomposition is a ring isomorphism".',
        'technique': 'abstract interpretation of the Bicomplex method bodies over exact exp-polynomial / rational-function algebra; comparison with specification terms',
    },
    'C09': {
        'level': 'History independence is decided on a table of operation sequences (setter changes / restores, shared step generator, '
                 'warm rule cache with neighbouring ratios and sibling rows, repeated calls with other arguments) by comparing the abstract '
                 'result for a symbolic f with that of a fresh object; plus rule-cache seeding / writer check, shared-default inventory and '
                 'in-place-write check of inputs. The scenario table is finite; sequences outside it are not decided.',
        'note': 'Trusted: determinism of numpy/scipy kernels, GIL-atomic dict operations (thread clause is argued, not explored).',
        'technique': 'abstract interpretation of operation sequences over the exact function-value domain; equality of abstract results with a fresh object',
    },
    'C03': {
        'level': 'Jacobian difference quotients: one-coordinate perturbation and Taylor signature of the paired scalar rule (exact on affine '
                 'maps) for all configuration classes, end-to-end runs in 2 variables; shape / axis bookkeeping of _expand_steps, _vstack and '
                 'the final reshape over the full case table (len(x) 1..3 x output shapes (), (m,), (m,k)) in the data-dependence domain; '
                 'Gradient ravel/squeeze; directionaldiff normalisation. Accuracy on nonlinear maps is not decided.',
        'note': 'Trusted: abstract interpreter, numpy shape-operation summaries. Shape cases are concretised to dimensions 1..3 (branches in the code '
                'depend only on "== 1" vs ">= 2").',
        'technique': 'abstract interpretation: stencil/Taylor-signature domain for the quotients, data-dependence domain with concrete shapes for axis roles',
    },
    'C02': {
        'level': 'The self-consistency clauses of the full_output record (f_value == f(x), error_estimate >= 0, final_step one of the '
                 'generated steps, one entry per result entry, field order) are decided on every path of abstract runs of __call__ of the '
                 'five classes in a data-dependence / sign / provenance domain. The honesty clause (true error <= c * estimate) is not decided.',
        'note': 'Numerical honesty of the estimate is outside static reach and is not claimed. Trusted: abstract interpreter, numpy summaries.',
        'technique': 'abstract interpretation of __call__ over a data-dependence + sign + selection-provenance domain; both sides of undetermined branches analysed',
    },
    'C08': {
        'level': 'Data dependence of every output element on the input elements is computed through the whole Derivative.__call__ pipeline '
                 '(all numpy operations summarised per axis) for x of rank 0..3; shape preservation and argument forwarding are decided in the same runs.',
        'note': 'Bit-identity of third-party column-wise kernels is trusted. The zero-step filter of the basic generators is a tabled whole-array predicate.',
        'technique': 'abstract interpretation of Derivative.__call__ over a data-dependence (column separability) domain with concrete shapes',
    },
    'C01': {
        'level': 'Formal (exact arithmetic) correctness of the whole first half of the Derivative pipeline for every accepted '
                 '(method, n, order): table level identities for all configuration classes plus end-to-end abstract runs of '
                 '_derivative_nonzero_order / _derivative_zero_order. The numerical accuracy envelope itself is not decided.',
        'note': 'Decides a necessary condition (formal order of accuracy, exact f^(n) coefficient) - not the size of the error. '
                'Trusted: python ast, abstract interpreter, numpy/scipy summaries (convolve1d model), Vandermonde non-singularity.',
        'technique': 'abstract interpretation (exact algebra + symbolic function-value domain) of dispatch, quotients, rule(), _apply, _vstack; Taylor-signature identities',
    },
    'C05': {
        'level': 'Every call of the user function made by any of the 31 difference quotients is extracted with its exact offset and '
                 'classified against the method promise for every (class, method, configuration class, dimension 1..3); evaluation '
                 'sites and generator step signs come from end-to-end abstract runs. Exhaustive over dispatch classes.',
        'note': 'Assumes positive base step / ratio (negative user base_step is outside the claim). Trusted: python ast, abstract interpreter.',
        'technique': 'abstract interpretation of the difference quotients with a recording symbolic f; offset classification in Q(zeta8)[j]',
    },
    'C06': {
        'level': 'For every configuration class of (rule class, method, n, order) and a symbolic step ratio the formal '
                 'identities that make the rule exact to its stated order are decided by abstract interpretation with exact '
                 'algebra; exhaustive over configuration classes (periodicity argument B1), all Taylor orders (recurrence bound).',
        'note': 'Trusted: python ast, the abstract interpreter and its numpy summaries, generalised Vandermonde non-singularity, '
                'pinv == inverse for invertible matrices. Not decided: conditioning / rounding of pinv.',
        'technique': 'abstract interpretation of rule()/_fd_matrix/difference quotients over exact algebra (Q(zeta8)[j] polynomials) + Taylor-signature identities',
    },
}

NOT_APPLICABLE = {}     # every property has at least one structural clause that is decided; undecided clauses are listed per check
