"""Single source of truth for MANIFEST.json (tools/gen_manifest.py)."""

NOTES = ('Static analysis only: every verdict is computed from the ast of /repo/src/numdifftools/*.py on each run; '
         'nothing is imported or executed from the package, no solver and no test is run. Each check decides the '
         'named structural clauses of its property (see DESIGN.md section 4) and says which clauses it does not decide. '
         'Exit 2 + ANALYSIS-ERROR means the analysis could not decide (never a verdict).')

CHECKS = {
    'C06': {
        'level': 'For every configuration class of (rule class, method, n, order) and a symbolic step ratio the formal '
                 'identities that make the rule exact to its stated order are decided by abstract interpretation with exact '
                 'algebra; exhaustive over configuration classes (periodicity argument B1), all Taylor orders (recurrence bound).',
        'note': 'Trusted: python ast, the abstract interpreter and its numpy summaries, generalised Vandermonde non-singularity, '
                'pinv == inverse for invertible matrices. Not decided: conditioning / rounding of pinv.',
        'technique': 'abstract interpretation of rule()/_fd_matrix/difference quotients over exact algebra (Q(zeta8)[j] polynomials) + Taylor-signature identities',
    },
}

_PENDING = 'check under construction in this session; will be claimed or declined with a reason when built'
NOT_APPLICABLE = {p: _PENDING for p in ['C%02d' % i for i in range(1, 20)] if p not in CHECKS}
