"""Single source of truth for MANIFEST.json (tools/gen_manifest.py)."""

NOTES = ('Static analysis only: every verdict is computed from the ast of /repo/src/numdifftools/*.py on each run; '
         'nothing is imported or executed from the package, no solver and no test is run. Each check decides the '
         'named structural clauses of its property (see DESIGN.md section 4) and says which clauses it does not decide. '
         'Exit 2 + ANALYSIS-ERROR means the analysis could not decide (never a verdict).')

CHECKS = {
    'C01': {
        'level': 'Formal (exact arithmetic) correctness of the whole first half of the Derivative pipeline for every accepted '
                 '(method, n, order): table level identities for all configuration classes plus end-to-end abstract runs of '
                 '_derivative_nonzero_order / _derivative_zero_order. The numerical accuracy envelope itself is not decided.',
        'note': 'Decides a necessary condition (formal order of accuracy, exact f^(n) coefficient) - not the size of the error. '
                'Trusted: python ast, abstract interpreter, numpy/scipy summaries (convolve1d model), Vandermonde non-singularity.',
        'technique': 'abstract interpretation (exact algebra + symbolic function-value domain) of dispatch, quotients, rule(), _apply, _vstack; Taylor-signature identities',
    },
    'C05': {
        'level': 'Every call of the user function made by any of the 31 difference quotients is extracted with its exact offset and '
                 'classified against the method promise for every (class, method, configuration class, dimension 1..3); evaluation '
                 'sites and generator step signs come from end-to-end abstract runs. Exhaustive over dispatch classes.',
        'note': 'Assumes positive base step / ratio (negative user base_step is outside the claim). Trusted: python ast, abstract interpreter.',
        'technique': 'abstract interpretation of the difference quotients with a recording symbolic f; offset classification in Q(zeta8)[j]',
    },
    'C06': {
        'level': 'For every configuration class of (rule class, method, n, order) and a symbolic step ratio the formal '
                 'identities that make the rule exact to its stated order are decided by abstract interpretation with exact '
                 'algebra; exhaustive over configuration classes (periodicity argument B1), all Taylor orders (recurrence bound).',
        'note': 'Trusted: python ast, the abstract interpreter and its numpy summaries, generalised Vandermonde non-singularity, '
                'pinv == inverse for invertible matrices. Not decided: conditioning / rounding of pinv.',
        'technique': 'abstract interpretation of rule()/_fd_matrix/difference quotients over exact algebra (Q(zeta8)[j] polynomials) + Taylor-signature identities',
    },
}

_PENDING = 'check under construction in this session; will be claimed or declined with a reason when built'
NOT_APPLICABLE = {p: _PENDING for p in ['C%02d' % i for i in range(1, 20)] if p not in CHECKS}
