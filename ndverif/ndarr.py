"""Symbolic n-d arrays with numpy view/aliasing semantics (the shape is concrete, the elements abstract).

Arr = (shape, buffer, positions).  Slicing shares the buffer (a view), arithmetic allocates.  Every
buffer keeps a write log so that rules can ask "was this input written in place?".
"""
from fractions import Fraction as Fr
import itertools
import operator

from .srcmodel import AnalysisError


class Buffer(object):
    __slots__ = ('data', 'writes', 'label')

    def __init__(self, data, label=None):
        self.data = list(data)
        self.writes = []          # (position, where) records
        self.label = label


def _prod(shape):
    p = 1
    for s in shape:
        p *= s
    return p


class Unk(object):
    """A boolean (or other) value the analysis cannot determine.  `expr` is a structured description:
    ('cmp', op, a, b) | ('and', x, y) | ('or', x, y) | ('not', x) | ('any', [..]) | ('all', [..]) |
    ('fn', name, args...) | a plain string."""
    __slots__ = ('expr',)

    def __init__(self, expr=''):
        self.expr = expr

    @property
    def why(self):
        return unk_str(self.expr)

    def __bool__(self):
        raise AnalysisError('branch on a value the analysis cannot determine: %s' % self.why)

    def __repr__(self):
        return 'Unk(%s)' % self.why

    def _b(self, o):
        return Unk(('op', self.expr, o.expr if isinstance(o, Unk) else o))
    __and__ = __rand__ = lambda self, o: s_and(self, o)
    __or__ = __ror__ = lambda self, o: s_or(self, o)
    __add__ = __radd__ = __mul__ = __rmul__ = _b
    __sub__ = __rsub__ = _b

    def __invert__(self):
        return Unk(('not', self.expr))

    def flat_get(self, a):
        """table[index] where the index is integer arithmetic over undetermined truth values (`2 * [p] + [q]`): the entry
        for every outcome of the truth values, as a choice between the entries"""
        leaves, keys = [], []

        def collect(e):
            if isinstance(e, Unk):
                return collect(e.expr)
            if isinstance(e, (bool, int)):
                return
            if isinstance(e, tuple) and e and e[0] == 'fn' and e[1] in ('add', 'subtract', 'multiply', 'logical_not',
                                                                         'logical_and', 'logical_or'):
                for x in e[2:]:
                    collect(x)
                return
            if isinstance(e, tuple) and e and e[0] in ('cmp', 'not', 'and', 'or'):
                k = repr(Unk(e))
                if k not in keys:
                    keys.append(k)
                    leaves.append(e)
                return
            raise AnalysisError('non concrete array index %r' % (self,))

        def value(e, env):
            if isinstance(e, Unk):
                return value(e.expr, env)
            if isinstance(e, (bool, int)):
                return int(e)
            if e[0] == 'fn':
                vs = [value(x, env) for x in e[2:]]
                if e[1] == 'add':
                    return vs[0] + vs[1]
                if e[1] == 'subtract':
                    return vs[0] - vs[1]
                if e[1] == 'multiply':
                    return vs[0] * vs[1]
                if e[1] == 'logical_not':
                    return int(not vs[0])
                if e[1] == 'logical_and':
                    return int(bool(vs[0]) and bool(vs[1]))
                return int(bool(vs[0]) or bool(vs[1]))
            return int(env[repr(Unk(e))])
        collect(self.expr)
        if not leaves or len(leaves) > 4:
            raise AnalysisError('non concrete array index %r' % (self,))

        def build(k, env):
            if k == len(leaves):
                ii = value(self.expr, env)
                if ii < -a.size or ii >= a.size:
                    raise AnalysisError('array index %d out of bounds on one outcome of %r' % (ii, self))
                return a.buf.data[a.pos[ii]]
            yes = build(k + 1, dict(env, **{keys[k]: True}))
            no = build(k + 1, dict(env, **{keys[k]: False}))
            return _same_or_choice(Unk(leaves[k]), yes, no)
        return build(0, {})

    def any(self, *a, **k):
        return self

    def all(self, *a, **k):
        return self

    def comparisons(self):
        """All ('cmp', op, a, b) leaves."""
        out = []

        def walk(e):
            if isinstance(e, Unk):
                walk(e.expr)
            elif isinstance(e, tuple) and e:
                if e[0] == 'cmp':
                    out.append(e)
                else:
                    for x in e[1:]:
                        walk(x)
            elif isinstance(e, list):
                for x in e:
                    walk(x)
        walk(self.expr)
        return out


def unk_str(e):
    if isinstance(e, Unk):
        return unk_str(e.expr)
    if isinstance(e, tuple) and e:
        if e[0] == 'cmp':
            return '%r %s %r' % (e[2], e[1], e[3])
        if e[0] in ('and', 'or'):
            return '(%s %s %s)' % (unk_str(e[1]), e[0], unk_str(e[2]))
        if e[0] == 'not':
            return 'not %s' % unk_str(e[1])
        if e[0] in ('any', 'all'):
            return '%s(%s)' % (e[0], ', '.join(unk_str(x) for x in e[1][:3]))
        return '%s(%s)' % (e[0], ', '.join(unk_str(x) for x in e[1:]))
    return str(e)


class Arr(object):
    __array_priority__ = 1000

    def __init__(self, shape, data=None, buf=None, pos=None, kind=None):
        self.shape = tuple(int(s) for s in shape)
        if buf is None:
            data = list(data)
            if len(data) != _prod(self.shape):
                raise AnalysisError('array data/shape mismatch %s vs %d' % (self.shape, len(data)))
            buf = Buffer(data)
            pos = list(range(len(data)))
        self.buf, self.pos = buf, pos
        self.kind = kind            # optional dtype-kind tag ('f', 'c', 'i', 'b', 'O')
        self.memrank = None         # memory rank of each logical element when it is known not to be C order
        self.readonly = False       # flags.writeable is False (setflags(write=False)); views made afterwards inherit it

    # ---- basic protocol
    @property
    def ndim(self):
        return len(self.shape)

    @property
    def size(self):
        return _prod(self.shape)

    def __len__(self):
        if not self.shape:
            raise InterpTypeError('len() of unsized object')
        return self.shape[0]

    def items(self):
        d = self.buf.data
        return [d[p] for p in self.pos]

    def item(self):
        if self.size != 1:
            raise AnalysisError('item() of array with size %d' % self.size)
        return self.buf.data[self.pos[0]]

    def __iter__(self):
        if not self.shape:
            raise InterpTypeError('iteration over a 0-d array')
        for i in range(self.shape[0]):
            yield self[i]

    def mem_rank(self):
        """Rank of every logical (C order) element in memory order, or None for C-contiguous / unknown layout.
        Views of a buffer inherit the order of their buffer positions; results of elementwise operations inherit
        the layout of their operands (numpy's order='K' behaviour)."""
        if self.memrank is not None:
            return self.memrank
        if self.ndim >= 2 and len(set(self.pos)) == len(self.pos) and any(self.pos[i] > self.pos[i + 1]
                                                                          for i in range(len(self.pos) - 1)):
            order = sorted(range(len(self.pos)), key=lambda i: self.pos[i])
            rank = [0] * len(order)
            for r, i in enumerate(order):
                rank[i] = r
            return rank
        return None

    def copy(self):
        a = Arr(self.shape, self.items(), kind=self.kind)
        a.memrank = self.mem_rank()
        return a

    def view(self, shape=None, pos=None, **kw):
        if shape is None and pos is None:
            # ndarray.view(): a new array object on the same memory (own flags, same shape and layout)
            if kw:
                raise AnalysisError('ndarray.view(%s)' % ', '.join(sorted(kw)))
            v = Arr(self.shape, buf=self.buf, pos=list(self.pos), kind=self.kind)
            v.readonly = self.readonly
            v.memrank = getattr(self, 'memrank', None)
            return v
        if not isinstance(shape, tuple) or pos is None:
            raise AnalysisError('ndarray.view with a dtype / type argument')
        v = Arr(shape, buf=self.buf, pos=pos, kind=self.kind)
        v.readonly = self.readonly
        return v

    @property
    def flags(self):
        a = self

        class _Flags(object):
            c_contiguous = a.mem_rank() is None and sorted(a.pos) == list(range(min(a.pos or [0]), min(a.pos or [0]) + len(a.pos)))
            owndata = len(a.pos) == len(a.buf.data)
            aligned = True
            _names = {'WRITEABLE': 'writeable', 'C_CONTIGUOUS': 'c_contiguous', 'OWNDATA': 'owndata', 'ALIGNED': 'aligned'}

            @property
            def writeable(self):
                return not a.readonly

            @writeable.setter
            def writeable(self, value):
                a.readonly = not value          # (flags.writeable = False locks this array object, as setflags does)

            def __getitem__(self, key):
                return getattr(self, self._names[key])

            def __setitem__(self, key, value):
                if self._names.get(key) != 'writeable':
                    raise AnalysisError('ndarray.flags[%r] = ..' % (key,))
                self.writeable = value

            def __setattr__(self, name, value):
                if name != 'writeable':
                    raise AnalysisError('ndarray.flags.%s = ..' % name)
                object.__setattr__(self, name, value)
        return _Flags()

    def setflags(self, write=None, **kw):
        if kw:
            raise AnalysisError('setflags(%s)' % ', '.join(kw))
        if write is not None:
            self.readonly = not write

    def _check_writeable(self):
        if self.readonly:
            raise InterpValueError('assignment destination is read-only')

    def __repr__(self):
        return 'Arr%s%r' % (self.shape, self.items() if self.size <= 12 else self.items()[:12] + ['...'])

    def __bool__(self):
        if self.size != 1:
            raise AnalysisError('truth value of an array with more than one element')
        return bool(self.item())

    def __hash__(self):
        return id(self)

    # ---- shape ops
    def ravel(self):
        # numpy returns a view when the array is C-contiguous and a copy otherwise (e.g. a transposed / Fortran
        # ordered array): a write through the result of ravel() of such an array is lost
        if self.mem_rank() is not None:
            return Arr((self.size,), self.items(), kind=self.kind)
        return self.view((self.size,), list(self.pos))

    def flatten(self):
        return Arr((self.size,), self.items(), kind=self.kind)

    def reshape(self, *shape):
        if len(shape) == 1 and isinstance(shape[0], (tuple, list)):
            shape = tuple(shape[0])
        shape = [int(s) for s in shape]
        if shape.count(-1) > 1:
            raise AnalysisError('reshape with more than one -1')
        if -1 in shape:
            known = _prod([s for s in shape if s != -1])
            if known == 0 or self.size % known:
                raise InterpValueError('cannot reshape array of size %d into shape %s' % (self.size, tuple(shape)))
            shape[shape.index(-1)] = self.size // known
        if _prod(shape) != self.size:
            raise InterpValueError('cannot reshape array of size %d into shape %s' % (self.size, tuple(shape)))
        return self.view(tuple(shape), list(self.pos))

    def transpose(self, *axes):
        if len(axes) == 1 and isinstance(axes[0], (tuple, list)):
            axes = tuple(axes[0])
        if not axes or axes == (None,):
            axes = tuple(range(self.ndim))[::-1]
        axes = [int(a) + (self.ndim if int(a) < 0 else 0) for a in axes]
        if sorted(axes) != list(range(self.ndim)):
            raise InterpValueError("axes don't match array")
        new_shape = tuple(self.shape[a] for a in axes)
        strides = _strides(self.shape)
        pos = []
        for idx in itertools.product(*[range(s) for s in new_shape]):
            off = sum(idx[k] * strides[axes[k]] for k in range(len(axes)))
            pos.append(self.pos[off])
        return self.view(new_shape, pos)

    @property
    def T(self):
        return self.transpose()

    def squeeze(self, axis=None):
        if axis is None:
            shape = tuple(s for s in self.shape if s != 1)
        else:
            if self.shape[axis] != 1:
                raise InterpValueError('cannot select an axis to squeeze out which has size not equal to one')
            shape = tuple(s for k, s in enumerate(self.shape) if k != axis % self.ndim)
        return self.view(shape, list(self.pos))

    @property
    def flat(self):
        return FlatView(self)

    @property
    def real(self):
        return ew1(elem_real, self)

    @property
    def imag(self):
        return ew1(elem_imag, self)

    def conj(self):
        return ew1(elem_conj, self)
    conjugate = conj

    def clip(self, min=None, max=None, **kw):
        from . import libmodels
        return libmodels.CURRENT.np.clip(self, min, max, **kw)

    # reductions and other methods that numpy also has as functions: the method is the function applied to the array, with
    # every argument handed on (a keyword the summary of the function does not know is refused there, not dropped here)
    def _np(name):        # noqa: N805
        def method(self, *a, **kw):
            from . import libmodels
            return getattr(libmodels.CURRENT.np, name)(self, *a, **kw)
        method.__name__ = name
        return method
    sum, any, all, max, min = _np('sum'), _np('any'), _np('all'), _np('max'), _np('min')
    prod, mean, cumsum, cumprod = _np('prod'), _np('mean'), _np('cumsum'), _np('cumprod')
    argmin, argmax, argsort, nonzero = _np('argmin'), _np('argmax'), _np('argsort'), _np('nonzero')
    take, repeat, swapaxes, trace, ptp = _np('take'), _np('repeat'), _np('swapaxes'), _np('trace'), _np('ptp')
    del _np

    def dot(self, other):
        from . import libmodels
        return libmodels.CURRENT.np.dot(self, other)

    def astype(self, dtype, **kw):
        from . import libmodels
        r = self.copy()
        if libmodels.CURRENT is not None:
            r2 = libmodels.cast_to_dtype(libmodels.CURRENT, r, dtype)
            return r2
        return r

    def tobytes(self, *a, **k):
        """A hashable stand-in for the raw buffer: equal iff shape and every element are the same abstract value."""
        return ('bytes', self.shape, tuple(_elem_key(v) for v in self.items()))
    tostring = tobytes

    def fill(self, value):
        self[...] = value

    def tolist(self):
        if self.ndim == 0:
            return self.item()
        return [v.tolist() if isinstance(v, Arr) else v for v in self]

    @property
    def dtype(self):
        from . import libmodels
        if self.size and all(isinstance(v, (bool, Unk)) for v in self.items()) and self.kind in (None, 'b'):
            return libmodels.BOOL            # an array of truth values (concrete or undetermined): a boolean mask
        return libmodels.CURRENT.np_result_type(self)

    # ---- indexing
    def _resolve(self, index):
        """-> (positions into self.pos order, result shape)"""
        if not isinstance(index, tuple):
            index = (index,)
        index = list(index)
        # expand Ellipsis
        n_real = sum(1 for i in index if i is not None and i is not Ellipsis)
        if any(i is Ellipsis for i in index):
            k = [i is Ellipsis for i in index].index(True)
            index[k:k + 1] = [slice(None)] * (self.ndim - n_real)
        else:
            index += [slice(None)] * (self.ndim - n_real)
        n_real = sum(1 for i in index if i is not None)
        if n_real != self.ndim:
            raise InterpIndexError('too many indices for array: array is %d-dimensional' % self.ndim)
        adv = [i for i in index if isinstance(i, Arr)]
        for k, i in enumerate(index):
            # a concrete 1-d boolean mask along one axis is the integer index array of its true positions
            if isinstance(i, Arr) and i.ndim == 1 and i.items() and all(isinstance(v, bool) for v in i.items()):
                index[k] = Arr((sum(1 for v in i.items() if v),), [p for p, v in enumerate(i.items()) if v], kind='i')
        adv = [i for i in index if isinstance(i, Arr)]
        if any(isinstance(i, Arr) and i.items() and isinstance(i.items()[0], bool) for i in adv):
            raise AnalysisError('boolean mask indexing handled by caller')
        if len(adv) == 1 and adv[0].ndim == 1 and all(isinstance(i, slice) or i is adv[0] for i in index) and \
                not isinstance(index[0], Arr):
            # slices and exactly one 1-d index array (not leading): its dimension stays in place
            strides = _strides(self.shape)
            ranges = []
            for dim, i in enumerate(index):
                n = self.shape[dim]
                if isinstance(i, slice):
                    ranges.append(list(range(*i.indices(n))))
                else:
                    lst = []
                    for v in i.items():
                        ii = _as_int(v)
                        if ii < -n or ii >= n:
                            raise InterpIndexError('index %d is out of bounds for axis %d with size %d' % (ii, dim, n))
                        lst.append(ii % n)
                    ranges.append(lst)
            pos = [sum(c * strides[d] for d, c in enumerate(combo)) for combo in itertools.product(*ranges)]
            return pos, tuple(len(r) for r in ranges)
        strides = _strides(self.shape)
        if not adv:
            axes_ranges, out_shape, dim = [], [], 0
            for i in index:
                if i is None:
                    out_shape.append(1)
                    continue
                n = self.shape[dim]
                if isinstance(i, slice):
                    rng = range(*i.indices(n))
                    axes_ranges.append((dim, list(rng)))
                    out_shape.append(len(rng))
                else:
                    ii = _as_int(i)
                    if ii < -n or ii >= n:
                        raise InterpIndexError('index %d is out of bounds for axis %d with size %d' % (ii, dim, n))
                    axes_ranges.append((dim, [ii % n]))
                dim += 1
            pos = []
            for combo in itertools.product(*[r for _, r in axes_ranges]):
                pos.append(sum(c * strides[d] for c, (d, _) in zip(combo, axes_ranges)))
            return pos, tuple(out_shape)
        # advanced: ints and int-arrays only, optionally trailing full slices
        lead, trail = [], []
        for i in index:
            if i is None:
                raise AnalysisError('newaxis with advanced indexing')
            if isinstance(i, slice):
                trail.append(i)
            else:
                if trail:
                    raise AnalysisError('advanced index after a slice')
                lead.append(i)
        bshape = ()
        for i in lead:
            if isinstance(i, Arr):
                bshape = broadcast_shapes(bshape, i.shape)
        lead_b = [broadcast_to(i, bshape).items() if isinstance(i, Arr) else [_as_int(i)] * _prod(bshape)
                  for i in lead]
        trail_ranges = []
        for k, s in enumerate(trail):
            n = self.shape[len(lead) + k]
            trail_ranges.append(list(range(*s.indices(n))))
        pos = []
        for e in range(_prod(bshape)):
            base = 0
            for d, col in enumerate(lead_b):
                n = self.shape[d]
                ii = _as_int(col[e])
                if ii < -n or ii >= n:
                    raise InterpIndexError('index %d is out of bounds for axis %d with size %d' % (ii, d, n))
                base += (ii % n) * strides[d]
            for combo in itertools.product(*trail_ranges):
                pos.append(base + sum(c * strides[len(lead) + k] for k, c in enumerate(combo)))
        return pos, tuple(bshape) + tuple(len(r) for r in trail_ranges)

    def __getitem__(self, index):
        if isinstance(index, Arr) and index.size and all(isinstance(v, (bool, Unk)) for v in index.items()) \
                and index.shape == self.shape:
            if all(isinstance(v, bool) for v in index.items()):
                # a concrete boolean mask selects (copies) the true positions in C order
                picked = [v for v, m in zip(self.items(), index.items()) if m]
                return Arr((len(picked),), picked, kind=self.kind)
            return MaskedSel(self, index)
        if self.ndim == 1 and isinstance(index, Arr) and any(hasattr(v, 'flat_get') for v in index.items()):
            # data dependent positions in a 1-d array: the same as .flat[index]
            return Arr(index.shape, [flat_get(self, v) for v in index.items()], kind=self.kind)
        if self.ndim == 2 and isinstance(index, tuple) and len(index) == 2 and isinstance(index[0], Arr) \
                and any(type(v).__name__ == 'IdxAny' for v in index[0].items()):
            # table[rows, columns] with rows computed from data and concrete columns: each result element is some entry of
            # its column (the join of the column, plus what the row index depends on)
            cols = index[1] if isinstance(index[1], Arr) else None
            if cols is None or cols.shape != index[0].shape or not all(isinstance(c, int) for c in cols.items()):
                raise AnalysisError('two-dimensional gather with data dependent rows and columns %r' % (index[1],))
            from .dv import join_values
            out = []
            for r, c in zip(index[0].items(), cols.items()):
                column = [self[k, c] for k in range(self.shape[0])]
                out.append(join_values(column, getattr(r, 'tags', ())) if type(r).__name__ == 'IdxAny' else self[_as_int(r), c])
            return Arr(index[0].shape, out, kind=self.kind)
        pos, shape = self._resolve(index)
        if shape == () and not _has_adv_or_slice(index):
            return self.buf.data[self.pos[pos[0]]]
        idx = index if isinstance(index, tuple) else (index,)
        if any(isinstance(i, Arr) for i in idx):
            # advanced (integer array) indexing returns a copy in numpy
            d = self.buf.data
            return Arr(shape, [d[self.pos[p]] for p in pos], kind=self.kind)
        return self.view(shape, [self.pos[p] for p in pos])

    def _axis_mask(self, index):
        """index = (:, .., mask, .., :) with one 1-d boolean (or undetermined) mask along one axis -> full-shape mask, else None"""
        if not isinstance(index, tuple) or len(index) != self.ndim:
            return None
        axis = None
        for k, i in enumerate(index):
            if isinstance(i, slice) and i == slice(None):
                continue
            if isinstance(i, Arr) and i.ndim == 1 and i.size == self.shape[k] and i.size and axis is None and \
                    all(isinstance(v, (bool, Unk)) for v in i.items()):
                axis = k
                continue
            return None
        if axis is None:
            return None
        m = index[axis].items()
        strides = _strides(self.shape)
        return Arr(self.shape, [m[(p // strides[axis]) % self.shape[axis]] for p in range(self.size)])

    def __setitem__(self, index, value):
        self._check_writeable()
        where = getattr(self, '_where', None)
        if self.kind == 'i':
            check_int_store(self, value)
        if isinstance(value, (list, tuple)):
            value = asarr(list(value))             # a python sequence is converted like numpy does
        full = self._axis_mask(index)
        if full is not None:
            if isinstance(value, Arr) and value.size > 1:
                raise AnalysisError('array value stored through a mask along one axis')
            index = full
        if isinstance(index, Arr) and index.size and all(isinstance(v, (bool, Unk)) for v in index.items()) \
                and index.shape == self.shape:
            n_true = sum(1 for m in index.items() if m is True)
            if isinstance(value, Arr) and value.shape != self.shape and (value.size > 1 or value.size == n_true) and \
                    all(isinstance(m, bool) for m in index.items()):
                # numpy assigns the values to the true positions one after the other
                if value.size != n_true:
                    raise InterpValueError('NumPy boolean array indexing assignment cannot assign %d input values to the %d '
                                           'output values where the mask is true' % (value.size, n_true))
                it = iter(value.ravel().items())
                vals = [next(it) if m else None for m in index.items()]
            else:
                vals = broadcast_to(value, self.shape).items() if isinstance(value, Arr) else [value] * self.size
            for p, m, v in zip(self.pos, index.items(), vals):
                if m is True:
                    self.buf.data[p] = v
                elif m is False:
                    pass
                else:
                    self.buf.data[p] = mk_choice(m, v, self.buf.data[p])
                self.buf.writes.append((p, where))
            return
        pos, shape = self._resolve(index)
        if isinstance(value, Arr):
            vals = broadcast_to(value, shape).items()        # copies values first (overlap safe)
        else:
            vals = [value] * len(pos)
        for p, v in zip(pos, vals):
            self.buf.data[self.pos[p]] = v
            self.buf.writes.append((self.pos[p], where))

    # ---- arithmetic
    def _bin(self, other, op):
        return ew2(op, self, other)

    def _rbin(self, other, op):
        return ew2(op, other, self)

    def __add__(self, o): return self._bin(o, s_add)
    def __radd__(self, o): return self._rbin(o, s_add)
    def __sub__(self, o): return self._bin(o, s_sub)
    def __rsub__(self, o): return self._rbin(o, s_sub)
    def __mul__(self, o): return self._bin(o, s_mul)
    def __rmul__(self, o): return self._rbin(o, s_mul)
    def __truediv__(self, o): return self._bin(o, s_div)
    def __rtruediv__(self, o): return self._rbin(o, s_div)
    def __floordiv__(self, o): return self._bin(o, s_floordiv)
    def __rfloordiv__(self, o): return self._rbin(o, s_floordiv)
    def __mod__(self, o): return self._bin(o, s_mod)
    def __pow__(self, o): return self._bin(o, s_pow)
    def __rpow__(self, o): return self._rbin(o, s_pow)
    def __neg__(self): return ew1(s_neg, self)
    def __pos__(self): return self
    def __abs__(self): return ew1(s_abs, self)
    def __lt__(self, o): return self._bin(o, lambda a, b: s_cmp('<', a, b))
    def __le__(self, o): return self._bin(o, lambda a, b: s_cmp('<=', a, b))
    def __gt__(self, o): return self._bin(o, lambda a, b: s_cmp('>', a, b))
    def __ge__(self, o): return self._bin(o, lambda a, b: s_cmp('>=', a, b))
    def __eq__(self, o): return self._bin(o, lambda a, b: s_cmp('==', a, b))
    def __ne__(self, o): return self._bin(o, lambda a, b: s_cmp('!=', a, b))
    def __and__(self, o): return self._bin(o, s_and)
    def __or__(self, o): return self._bin(o, s_or)
    def __rand__(self, o): return self._rbin(o, s_and)
    def __ror__(self, o): return self._rbin(o, s_or)
    def __invert__(self): return ew1(s_not, self)

    def _iop(self, o, op):
        res = ew2(op, self, o)
        if res.shape != self.shape:
            raise InterpValueError('non-broadcastable output operand')
        where = getattr(self, '_where', None)
        for p, v in zip(self.pos, res.items()):
            self.buf.data[p] = v
            self.buf.writes.append((p, where))
        return self

    def __iadd__(self, o): return self._iop(o, s_add)
    def __isub__(self, o): return self._iop(o, s_sub)
    def __imul__(self, o): return self._iop(o, s_mul)
    def __itruediv__(self, o): return self._iop(o, s_div)


def _elem_key(v):
    try:
        hash(v)
        return v
    except TypeError:
        return repr(v)


def elem_real(e):
    from .algebra import Poly
    if isinstance(e, Choice):
        return e.map(elem_real)
    if isinstance(e, Poly):
        return e.real()
    if isinstance(e, (int, Fr, bool)):
        return e
    h = getattr(e, 'real_', None)
    if h is not None:
        return h()
    raise AnalysisError('real part of %r' % (e,))


def elem_imag(e):
    from .algebra import Poly
    if isinstance(e, Choice):
        return e.map(elem_imag)
    if isinstance(e, Poly):
        return e.imag()
    if isinstance(e, (int, Fr, bool)):
        return 0
    h = getattr(e, 'imag_', None)
    if h is not None:
        return h()
    raise AnalysisError('imaginary part of %r' % (e,))


def elem_conj(e):
    from .algebra import Poly
    if isinstance(e, Poly):
        return e.conj()
    if isinstance(e, (int, Fr, bool)):
        return e
    h = getattr(e, 'conj_', None)
    if h is not None:
        return h()
    raise AnalysisError('conjugate of %r' % (e,))


class InterpRaise(Exception):
    """The analysed code (or a library model) raises a python exception of class exc_name."""
    exc_name = 'Exception'

    def __init__(self, msg='', exc_name=None, value=None):
        Exception.__init__(self, msg)
        if exc_name is not None:
            self.exc_name = exc_name
        self.msg = msg
        self.value = value


class InterpValueError(InterpRaise):
    """numpy would raise ValueError here."""
    exc_name = 'ValueError'


class InterpIndexError(InterpRaise):
    """numpy / python would raise IndexError here."""
    exc_name = 'IndexError'


class InterpTypeError(InterpRaise):
    """numpy would raise TypeError here."""
    exc_name = 'TypeError'


def _has_adv_or_slice(index):
    idx = index if isinstance(index, tuple) else (index,)
    return any(isinstance(i, (slice, Arr)) or i is None or i is Ellipsis for i in idx)


def _as_int(i):
    if isinstance(i, bool):
        return int(i)
    if isinstance(i, int):
        return i
    if isinstance(i, Fr) and i.denominator == 1:
        raise InterpIndexError('only integers, slices (`:`), ellipsis (`...`) are valid indices (got float-like %s)' % i)
    if isinstance(i, Arr) and i.size == 1:
        return _as_int(i.item())
    tags = getattr(i, 'tags', None)
    if tags:
        # an index computed from data: the run cannot go on, but what the index depends on is known
        from .dv import DataDependentInt
        raise DataDependentInt(tags, 'array index computed from data (%s)' % type(i).__name__)
    raise AnalysisError('non concrete array index %r' % (i,))


def _strides(shape):
    st, acc = [], 1
    for s in reversed(shape):
        st.append(acc)
        acc *= s
    return st[::-1]


class FlatView(object):
    def __init__(self, arr):
        self.arr = arr

    def __getitem__(self, idx):
        a = self.arr
        if isinstance(idx, Arr):
            vals = [flat_get(a, i) for i in idx.items()]
            return Arr(idx.shape, vals, kind=a.kind)
        if isinstance(idx, slice):
            rng = range(*idx.indices(a.size))
            return a.view((len(rng),), [a.pos[i] for i in rng])
        return flat_get(a, idx)

    def __setitem__(self, idx, value):
        a = self.arr
        a._check_writeable()
        if a.kind == 'i':
            check_int_store(a, value)
        if isinstance(idx, Arr):
            vals = broadcast_to(value, idx.shape).items() if isinstance(value, Arr) else [value] * idx.size
            for i, v in zip(idx.items(), vals):
                ii = _as_int(i)
                a.buf.data[a.pos[ii]] = v
                a.buf.writes.append((a.pos[ii], None))
            return
        ii = _as_int(idx)
        a.buf.data[a.pos[ii]] = value
        a.buf.writes.append((a.pos[ii], None))

    def __iter__(self):
        return iter(self.arr.items())


CAST_HOOK = None        # callable(arr, value, kind): a rule that wants to judge truncating stores itself


def elem_dtype_kind(v):
    """'i' / 'f' / 'c' for a value whose dtype kind is known, None when it is not."""
    from .algebra import Poly
    if isinstance(v, (bool, int)):
        return 'i'
    if isinstance(v, Fr):
        return 'i' if v.denominator == 1 else 'f'
    k = getattr(v, 'kind', None)
    if isinstance(k, str) and k in ('i', 'b', 'f', 'c', 'z'):
        return {'b': 'i', 'z': 'c'}.get(k, k)
    if type(v).__name__ in ('IdxAny', 'UnkInt'):
        return 'i'
    if isinstance(v, Poly):
        c = concrete_real(v)
        if c is not None:
            return 'i' if Fr(c).denominator == 1 else 'f'
        return 'f' if v.is_real() else 'c'
    return None


def check_int_store(arr, value):
    """A store into an integer array casts: a float / complex value is truncated silently by numpy."""
    vals = value.items() if isinstance(value, Arr) else [value]
    for v in vals:
        k = elem_dtype_kind(v)
        if k in ('f', 'c'):
            if CAST_HOOK is not None:
                CAST_HOOK(arr, v, k)
                return
            raise AnalysisError('store of a %s value (%r) into an integer array: the truncating cast is not modelled'
                                % ({'f': 'float', 'c': 'complex'}[k], v))


def flat_get(a, i):
    hook = getattr(i, 'flat_get', None)
    if hook is not None:
        return hook(a)
    ii = _as_int(i)
    if ii < -a.size or ii >= a.size:
        raise InterpIndexError('index %d is out of bounds for size %d' % (ii, a.size))
    return a.buf.data[a.pos[ii]]


class MaskedSel(object):
    """Result of a[boolean_mask] with a symbolic mask: only usable as the receiver of method calls we model."""

    def __init__(self, arr, mask):
        self.arr, self.mask = arr, mask

    @property
    def size(self):
        if MASKED_SIZE_HOOK is None:
            raise AnalysisError('size of a selection by an undetermined boolean mask')
        return MASKED_SIZE_HOOK(self)

    @property
    def ndim(self):
        return 1

    def _reduce(self, name):
        if MASKED_REDUCE_HOOK is None:
            raise AnalysisError('%s of a selection by an undetermined boolean mask' % name)
        return MASKED_REDUCE_HOOK(self, name)

    def min(self, axis=None):
        return self._reduce('min')

    def max(self, axis=None):
        return self._reduce('max')


MASKED_SIZE_HOOK = None      # set by the data-abstract domain: number of selected elements as an unknown integer
MASKED_REDUCE_HOOK = None    # set by the data-abstract domain: min / max of the selected elements (join of the candidates)


class Choice(object):
    """np.where / masked store with a symbolic condition: cond ? a : b (elementwise)."""
    __slots__ = ('cond', 'a', 'b')

    def __init__(self, cond, a, b):
        self.cond, self.a, self.b = cond, a, b

    def __repr__(self):
        return 'Choice(%r ? %r : %r)' % (self.cond, self.a, self.b)

    def map(self, fn):
        return _same_or_choice(self.cond, fn(self.a), fn(self.b))

    def flat_get(self, arr):
        # table[index] with an index that is one of two, depending on an undetermined condition
        return _same_or_choice(self.cond, flat_get(arr, self.a), flat_get(arr, self.b))


def mk_choice(cond, a, b):
    """cond ? a : b for an undetermined cond; element types may supply their own join (choice_)."""
    for x in (a, b):
        h = getattr(type(x), 'choice_', None)
        if h is not None:
            return h(cond, a, b)
    mm = _choice_as_minmax(cond, a, b)
    if mm is not None:
        return mm
    return Choice(cond, a, b)


def _choice_as_minmax(cond, a, b):
    """`np.where(a > b, a, b)` (a masked store, a conditional expression ..) of two symbolic numbers is max(a, b): the
    selection idiom is evaluated as the canonical max / min atom instead of as a choice (DESIGN.md B18)"""
    from .algebra import Poly, Rat, alg_equal
    e = cond.expr if isinstance(cond, Unk) else None
    if not (isinstance(e, tuple) and len(e) == 4 and e[0] == 'cmp' and e[1] in ('>', '>=', '<', '<=')):
        return None
    x, y = e[2], e[3]
    if not all(isinstance(v, (int, Fr, Poly, Rat)) and not isinstance(v, bool) for v in (a, b, x, y)):
        return None
    try:
        if alg_equal(x, y):
            return None
        if alg_equal(a, x) and alg_equal(b, y):
            takes_left = True
        elif alg_equal(a, y) and alg_equal(b, x):
            takes_left = False
        else:
            return None
    except Exception:
        return None
    greater = e[1] in ('>', '>=')
    from .absint import sym_minmax
    return sym_minmax('max' if greater == takes_left else 'min', [x, y])


# ---------------------------------------------------------------- scalar kernel
def _same_or_choice(cond, x, y):
    """cond ? x : y - which is just x when both sides are the same exact value (|(-v)| and |v|, ..)"""
    from .algebra import Poly
    if type(x) is type(y) and isinstance(x, (int, Fr, Poly)) and not isinstance(x, bool) and (x is y or repr(x) == repr(y)):
        return x
    return Choice(cond, x, y)


def _lift_choice(op, a, b):
    if isinstance(a, Choice):
        return _same_or_choice(a.cond, op(a.a, b), op(a.b, b))
    return _same_or_choice(b.cond, op(a, b.a), op(a, b.b))


def _wrap2(pyop, name):
    def f(a, b):
        if isinstance(a, Choice) or isinstance(b, Choice):
            return _lift_choice(f, a, b)
        if isinstance(a, Unk) or isinstance(b, Unk):
            return Unk(('fn', name, a, b))
        try:
            r = pyop(a, b)
        except TypeError:
            for o in (a, b):
                if type(o).__name__ in ('IdxAny', 'UnkIndexSet') and getattr(o, 'tags', None):
                    # arithmetic on an index computed from data: the run cannot go on, what the index depends on is known
                    from .dv import DataDependentInt
                    raise DataDependentInt(o.tags, 'arithmetic (%s) on an index computed from data' % name)
            plain = (int, float, Fr, str, bytes, list, tuple, dict, type(None))
            if isinstance(a, plain) and isinstance(b, plain):
                # python's own operands: the TypeError is the behaviour of the program (1 / 'x', [] - 1, None * 2.0 ...)
                raise InterpRaise('unsupported operand type(s) for %s: %r and %r' % (name, type(a).__name__, type(b).__name__), 'TypeError')
            raise AnalysisError('unsupported operands for %s: %r, %r' % (name, type(a).__name__, type(b).__name__))
        if r is NotImplemented:
            raise AnalysisError('unsupported operands for %s: %r, %r' % (name, type(a).__name__, type(b).__name__))
        return r
    return f


def _num(x):
    """bool -> int so that True + True == 2 like numpy (bool arrays use + as or: handled by s_add)."""
    return x


s_sub = _wrap2(operator.sub, 'sub')
s_floordiv = _wrap2(operator.floordiv, 'floordiv')
s_mod = _wrap2(operator.mod, 'mod')


def s_add(a, b):
    if isinstance(a, bool) and isinstance(b, bool):
        return a or b                       # numpy bool + bool is logical or
    if (isinstance(a, (bool, Unk)) and isinstance(b, (bool, Unk))):
        return s_or(a, b)
    return _wrap2(operator.add, 'add')(a, b)


def s_mul(a, b):
    if OP_HOOK is not None:
        OP_HOOK('mul', a, b)
    if isinstance(a, bool) and isinstance(b, bool):
        return a and b
    if (isinstance(a, (bool, Unk)) and isinstance(b, (bool, Unk))):
        return s_and(a, b)
    if isinstance(a, Unk) or isinstance(b, Unk):
        # bool mask times number: keep as a choice
        m, v = (a, b) if isinstance(a, Unk) else (b, a)
        return mk_choice(m, v, 0)
    if a is True:
        return b
    if b is True:
        return a
    if a is False or b is False:
        return 0
    return _wrap2(operator.mul, 'mul')(a, b)


ELEMENT_RANK = None       # ordering hypothesis of a rule for abstract elements: callable(value) -> rank or None
OP_HOOK = None            # rule hook: called as OP_HOOK(kind, a, b) for every scalar division / multiplication of the run


def s_div(a, b):
    if OP_HOOK is not None:
        OP_HOOK('div', a, b)
    if isinstance(a, Choice) or isinstance(b, Choice):
        return _lift_choice(s_div, a, b)
    if isinstance(a, (bool, int)) and isinstance(b, (bool, int)) and not isinstance(a, Unk):
        if b == 0:
            return Unk('x/0')
        return Fr(int(a), int(b))
    if isinstance(b, (int, Fr)) and b == 0:
        h = getattr(a, 'divzero_', None)
        if h is not None:
            return h()                   # abstract elements keep their identity (inf / nan of the same dtype kind)
        return Unk('x/0')
    return _wrap2(operator.truediv, 'div')(a, b)


POW_ATOMS = {}            # name of an opaque power atom -> (base, rational exponent)


def Z8_ONE():
    from .algebra import Z8
    return Z8.ONE


def s_pow(a, b):
    from .algebra import Poly, Rat, AlgebraError
    if isinstance(a, Choice) or isinstance(b, Choice):
        return _lift_choice(s_pow, a, b)
    if isinstance(b, bool):
        b = int(b)
    if isinstance(a, bool):
        a = int(a)
    if isinstance(a, (int, Fr)) and isinstance(b, (int, Fr)):
        if isinstance(b, Fr) and b.denominator == 1:
            b = int(b)
        if isinstance(b, int):
            if b >= 0:
                return a ** b
            if a == 0:
                return Unk('0**negative')
            return Fr(a) ** b
        try:
            return (Poly.const(a) ** b).const_value().rational()
        except AlgebraError:
            return Poly.sym('pow(%s,%s)' % (a, b))
    # (X ** (1/n)) ** n is X for the principal root: undo an opaque root when it is raised to a matching integer power
    if isinstance(a, Poly) and isinstance(b, (int, Fr)) and len(a.t) == 1:
        (mono, c), = a.t.items()
        if len(mono) == 1 and mono[0][1] == 1 and mono[0][0] in POW_ATOMS and c == Z8_ONE():
            base, p0 = POW_ATOMS[mono[0][0]]
            e = Fr(p0) * Fr(b)
            if e.denominator == 1 and Fr(1, 1) / Fr(p0) == int(Fr(1, 1) / Fr(p0)) and int(b) == b and b > 0:
                return s_pow(base, int(e))
    try:
        r = operator.pow(a, b)
    except (TypeError, AlgebraError):
        r = NotImplemented
    if r is NotImplemented:
        if hasattr(a, 'key') and hasattr(b, 'key') or isinstance(b, (Poly, Rat)) or isinstance(a, (Poly, Rat)):
            name = 'pow(%r,%r)' % (a, b)
            if isinstance(a, (Poly, Rat)) and isinstance(b, Fr):
                POW_ATOMS[name] = (a, b)
            return Poly.sym(name)
        raise AnalysisError('unsupported pow %r ** %r' % (a, b))
    return r


def s_neg(a):
    if isinstance(a, Choice):
        return a.map(s_neg)
    if isinstance(a, Unk):
        return a
    return -a


POSITIVE_ATOMS = set()     # atoms the running rule assumes to be positive reals (recorded in its evidence)
ORDER_RANK = {}            # ordering hypothesis: atom -> rank (a < b iff rank[a] < rank[b]); used for comparisons only


def poly_sign(a):
    """Sign (-1, 0, 1) of a Poly that is a single monomial in positive atoms with a real coefficient
    (or a constant); None when unknown."""
    from .algebra import Poly
    if not isinstance(a, Poly):
        return None
    if a.is_zero():
        return 0
    if not a.is_monomial():
        signs = set()
        for m, c in a.t.items():
            if not c.is_real() or any(s not in POSITIVE_ATOMS for s, _ in m):
                return None
            signs.add(c.sign_real())
        return signs.pop() if len(signs) == 1 else None
    (m, c), = a.t.items()
    if not c.is_real():
        return None
    if any(s not in POSITIVE_ATOMS for s, _ in m):
        return None
    return c.sign_real()


ATOM_ARGS = {}             # opaque atom -> (function, arguments) for abs / max / min atoms (read by homogeneity_degree)


def homogeneity_degree(v, scaled, unit=()):
    """Degree d with v(t*x) = t^d * v(x) for all t > 0 when the symbols in `scaled` are multiplied by t and the atoms in
    `unit` (and constants) stay; 'mixed' when v is not homogeneous in that sense (max(|x|, 1), x + 1); None when an atom
    of unknown behaviour occurs."""
    from .algebra import Poly, Rat
    if isinstance(v, Rat):
        n, d = homogeneity_degree(v.n, scaled, unit), homogeneity_degree(v.d, scaled, unit)
        if n is None or d is None:
            return None
        if 'mixed' in (n, d):
            return 'mixed'
        return n - d
    if concrete_real(v) is not None or isinstance(v, (int, Fr, complex, float)):
        return 0
    if not isinstance(v, Poly):
        return None
    degs = set()
    for mono, coef in v.t.items():
        tot = 0
        for atom, e in mono:
            if atom in scaled:
                d = 1
            elif atom in unit:
                d = 0
            elif atom in ATOM_ARGS:
                ds = [homogeneity_degree(x, scaled, unit) for x in ATOM_ARGS[atom][1]]
                if any(x is None for x in ds):
                    return None
                if 'mixed' in ds or len(set(ds)) != 1:
                    return 'mixed'
                d = ds[0]
            else:
                return None
            tot += d * e
        degs.add(tot)
    if len(degs) > 1:
        return 'mixed'
    return degs.pop() if degs else 0


def evaluate_concrete(v, env):
    """Value of a Poly / Rat when the atoms in `env` take the given concrete reals and abs / max / min atoms are
    recomputed from their arguments; None when another atom occurs."""
    from .algebra import Poly, Rat, AlgebraError
    if isinstance(v, Rat):
        n, d = evaluate_concrete(v.n, env), evaluate_concrete(v.d, env)
        if n is None or d is None:
            return None
        try:
            return n / d
        except (ZeroDivisionError, AlgebraError):
            return None
    if not isinstance(v, Poly):
        return v if isinstance(v, (int, Fr)) else None
    mapping = {}
    for atom in v.atoms():
        if atom in env:
            mapping[atom] = Poly.const(env[atom])
        elif atom in ATOM_ARGS:
            fn, args = ATOM_ARGS[atom]
            vals = []
            for x in args:
                c = evaluate_concrete(x, env)
                c = concrete_real(c) if c is not None else None
                if c is None:
                    return None
                vals.append(c)
            mapping[atom] = Poly.const(abs(vals[0]) if fn == 'abs' else (max(vals) if fn == 'max' else min(vals)))
        else:
            return None
    try:
        return v.subs(mapping)
    except (AlgebraError, TypeError):
        return None


def cond_at(e, env):
    """Truth value of an undetermined condition at concrete values of its atoms; None when it cannot be computed."""
    if isinstance(e, Unk):
        return cond_at(e.expr, env)
    if isinstance(e, bool):
        return e
    if not (isinstance(e, tuple) and e):
        return None
    if e[0] == 'not':
        r = cond_at(e[1], env)
        return None if r is None else not r
    if e[0] in ('and', 'or'):
        x, y = cond_at(e[1], env), cond_at(e[2], env)
        if x is None or y is None:
            return None
        return (x and y) if e[0] == 'and' else (x or y)
    if e[0] == 'cmp' and e[1] in _CMP:
        va, vb = evaluate_concrete(e[2], env), evaluate_concrete(e[3], env)
        ca = concrete_real(va) if va is not None else None
        cb = concrete_real(vb) if vb is not None else None
        if ca is None or cb is None:
            return None
        return _CMP[e[1]](ca, cb)
    return None


def resolve_at(v, env):
    """The branch of a (nested) guarded choice taken at concrete values of the atoms its conditions read - a witness that
    this branch is feasible.  Returns (value, [conditions decided]) or None when a condition cannot be computed."""
    seen = []
    while isinstance(v, Choice):
        r = cond_at(v.cond, env)
        if r is None:
            return None
        seen.append((repr(v.cond)[:120], r))
        v = v.a if r else v.b
    return v, seen


def offset_depends_on_point(d, xnames):
    """Witness that `d` (= point - x) is not one value for all x: its values at x = 3 and at |x| = 10^200 or 10^400 (every
    other atom at 2^-10).  None when no witness is found (d may still be constant in x: undecided)."""
    from .algebra import Poly
    if not isinstance(d, Poly):
        return None

    def at(X):
        env = {}
        for atom in d.atoms():
            _collect_plain_atoms(atom, env)
        env = {a_: (X if a_ in xnames else Fr(1, 1024)) for a_ in env}
        return evaluate_concrete(d, env)
    base = at(Fr(3))
    if base is None:
        return None
    for X in (Fr(10) ** 200, -Fr(10) ** 200, Fr(10) ** 400, Fr(10) ** -200):
        other = at(X)
        if other is not None and repr(other) != repr(base):
            return {'x': '3', 'point_minus_x': repr(base)[:80], 'other_x': '10^%d' % (len(str(abs(X).numerator)) - 1) if abs(X) > 1 else '10^-200',
                    'point_minus_x_there': repr(other)[:80]}
    return None


def _collect_plain_atoms(atom, out):
    from .algebra import Poly, Rat
    if atom in ATOM_ARGS:
        for x in ATOM_ARGS[atom][1]:
            if isinstance(x, (Poly, Rat)):
                for a_ in x.atoms():
                    _collect_plain_atoms(a_, out)
    else:
        out[atom] = True


def _replace_even(v, name, arg):
    """atom^(2k) -> arg^(2k) in a Poly / Rat; None when an odd power of the atom occurs."""
    from .algebra import Z8, Poly, Rat
    if isinstance(v, Rat):
        n, d = _replace_even(v.n, name, arg), _replace_even(v.d, name, arg)
        return None if n is None or d is None else n / d
    if not isinstance(v, Poly):
        return v
    out = Poly.const(0)
    for m, c in v.t.items():
        term = Poly.const(c)
        for s_, e in m:
            if s_ == name:
                if e.denominator != 1 or e.numerator % 2:
                    return None
                term = term * (arg * arg) ** (e.numerator // 2)
            else:
                term = term * Poly({((s_, e),): Z8.ONE})
        out = out + term
    return out


def _square_without_abs(v):
    """v * v with every abs atom of a real argument replaced by its argument (|p|^2 = p^2); None if v is not of that kind."""
    from .algebra import AlgebraError, Poly
    try:
        sq = v * v
        names = [a_ for a_ in sq.atoms() if a_ in ATOM_ARGS and ATOM_ARGS[a_][0] == 'abs']
        for name in names:
            arg = ATOM_ARGS[name][1][0]
            if isinstance(arg, Poly) and not arg.is_real():
                return None
            # only even powers of the atom may occur in the square of a product of magnitudes
            sq = _replace_even(sq, name, arg)
            if sq is None:
                return None
        if any(a_ in ATOM_ARGS for a_ in sq.atoms()):
            return None
        return sq
    except (AlgebraError, TypeError, AttributeError):
        return None


def same_magnitude(a, b):
    """Two ways of writing one non-negative quantity: identical, or equal squares once |p|^2 is read as p^2."""
    from .algebra import alg_equal, AlgebraError
    try:
        if repr(a) == repr(b) or alg_equal(a, b):
            return True
        sa, sb = _square_without_abs(a), _square_without_abs(b)
        return sa is not None and sb is not None and alg_equal(sa, sb)
    except (AlgebraError, TypeError):
        return False


def s_abs(a):
    from .algebra import Poly, Rat
    if isinstance(a, Choice):
        return a.map(s_abs)
    if isinstance(a, (int, Fr)):
        return abs(a)
    if isinstance(a, Poly):
        sg = poly_sign(a)
        if sg is not None:
            return a if sg >= 0 else -a
    if hasattr(a, 'abs_'):
        return a.abs_()
    if isinstance(a, (Poly, Rat)):
        name = 'abs(%r)' % (a,)
        ATOM_ARGS[name] = ('abs', (a,))
        return Poly.sym(name)
    if isinstance(a, Unk):
        return a
    raise AnalysisError('abs of %r' % (a,))


def s_not(a):
    if isinstance(a, bool):
        return not a
    if isinstance(a, Unk):
        return Unk(('not', a.expr))
    if isinstance(a, int):
        return ~a
    raise AnalysisError('invert of %r' % (a,))


def s_and(a, b):
    if a is False or b is False:
        return False
    if a is True:
        return b
    if b is True:
        return a
    if isinstance(a, int) and isinstance(b, int) and not isinstance(a, bool):
        return a & b
    return Unk(('and', a.expr if isinstance(a, Unk) else a, b.expr if isinstance(b, Unk) else b))


def s_or(a, b):
    if a is True or b is True:
        return True
    if a is False:
        return b
    if b is False:
        return a
    if isinstance(a, int) and isinstance(b, int) and not isinstance(a, bool):
        return a | b
    return Unk(('or', a.expr if isinstance(a, Unk) else a, b.expr if isinstance(b, Unk) else b))


_CMP = {'<': operator.lt, '<=': operator.le, '>': operator.gt, '>=': operator.ge,
        '==': operator.eq, '!=': operator.ne}


def concrete_real(x):
    """-> Fraction-like real number when x is a concrete real constant, else None."""
    from .algebra import Poly, Z8
    if isinstance(x, bool):
        return int(x)
    if isinstance(x, (int, Fr)):
        return x
    if isinstance(x, Poly) and x.is_const():
        c = x.const_value()
        if c.is_rational():
            return c.rational()
    return None


def _extended_real(x):
    """concrete_real, or +-math.inf for a positive / negative rational multiple of np.inf, else None"""
    from .algebra import Poly
    c = concrete_real(x)
    if c is not None:
        return c
    if isinstance(x, Poly) and x.is_monomial():
        (mono, coef), = x.t.items()
        if mono == (('inf', Fr(1)),) and coef.is_rational() and coef.rational() != 0:
            import math
            return math.inf if coef.rational() > 0 else -math.inf
    return None


def s_cmp(op, a, b):
    from .algebra import Poly, Rat, Z8, alg_equal
    ca, cb = concrete_real(a), concrete_real(b)
    if ca is not None and cb is not None:
        return _CMP[op](ca, cb)
    ea, eb = _extended_real(a), _extended_real(b)
    if ea is not None and eb is not None:
        return _CMP[op](ea, eb)          # a number against +-inf, or two infinities
    if isinstance(a, str) or isinstance(b, str) or a is None or b is None:
        return _CMP[op](a, b) if op in ('==', '!=') else _raise_cmp(a, b)
    hook = getattr(a, 'cmp_', None)
    if hook is not None:
        r = hook(op, b)
        if r is not None:
            return r
    hook = getattr(b, 'rcmp_', None)
    if hook is not None:
        r = hook(op, a)
        if r is not None:
            return r
    if ORDER_RANK and isinstance(a, (Poly, int, Fr)) and isinstance(b, (Poly, int, Fr)):
        sg = _rank_sign(a, b)
        if sg is not None:
            return _CMP[op](sg, 0)
    if isinstance(a, (Poly, Rat, int, Fr)) and isinstance(b, (Poly, Rat, int, Fr)):
        # real constants in Q(sqrt2)
        try:
            d = a - b
            if isinstance(d, Poly):
                s = poly_sign(d)
                if s is not None:
                    return _CMP[op](s, 0)
        except Exception:
            pass
        if op in ('==', '!='):
            try:
                if alg_equal(a, b):
                    return op == '=='
                d = a - b
                # a single monomial in positive atoms with a non zero (possibly complex) coefficient is not zero
                if isinstance(d, Poly) and d.is_monomial() and not d.is_zero():
                    (m, c), = d.t.items()
                    if all(sy in POSITIVE_ATOMS for sy, _ in m):
                        return op == '!='
            except Exception:
                pass
        return Unk(('cmp', op, a, b))
    return Unk(('cmp', op, a, b))


def _rank_of(p):
    """rank of a Poly that is a single ranked atom (ordering hypothesis), else None"""
    if len(p.t) == 1:
        (mono, c), = p.t.items()
        if len(mono) == 1 and mono[0][1] == 1 and mono[0][0] in ORDER_RANK:
            from .algebra import Z8
            if c == Z8.ONE:
                return ORDER_RANK[mono[0][0]]
    return None


def _rank_sign(a, b):
    """sign of a - b when a - b == s - t for two atoms ranked by the ordering hypothesis, else None"""
    from .algebra import Poly, Z8
    try:
        d = Poly.of(a) - Poly.of(b)
    except Exception:
        return None
    if len(d.t) != 2:
        return None
    plus = minus = None
    for mono, c in d.t.items():
        if len(mono) != 1 or mono[0][1] != 1 or mono[0][0] not in ORDER_RANK:
            return None
        if c == Z8.ONE:
            plus = mono[0][0]
        elif c == -Z8.ONE:
            minus = mono[0][0]
        else:
            return None
    if plus is None or minus is None:
        return None
    r = ORDER_RANK[plus] - ORDER_RANK[minus]
    return (r > 0) - (r < 0)


def _raise_cmp(a, b):
    raise AnalysisError('ordering comparison of %r and %r' % (a, b))


# ---------------------------------------------------------------- broadcasting
def broadcast_shapes(*shapes):
    nd = max(len(s) for s in shapes) if shapes else 0
    out = []
    for k in range(nd):
        dim = 1
        for s in shapes:
            i = k - (nd - len(s))
            if i >= 0:
                d = s[i]
                if d != 1:
                    if dim != 1 and dim != d:
                        raise InterpValueError('operands could not be broadcast together with shapes %s'
                                               % ' '.join(str(tuple(x)) for x in shapes))
                    dim = d
        out.append(dim)
    return tuple(out)


def broadcast_to(a, shape):
    if not isinstance(a, Arr):
        a = Arr((), [a])
    shape = tuple(shape)
    if a.shape == shape:
        return a
    if broadcast_shapes(a.shape, shape) != shape:
        raise InterpValueError('could not broadcast input array from shape %s into shape %s' % (a.shape, shape))
    nd = len(shape)
    ashape = (1,) * (nd - a.ndim) + a.shape
    strides = _strides(ashape)
    pos = []
    for idx in itertools.product(*[range(s) for s in shape]):
        off = sum((i if ashape[k] != 1 else 0) * strides[k] for k, i in enumerate(idx))
        pos.append(a.pos[off])
    return a.view(shape, pos)


def is_arraylike(x):
    return isinstance(x, (Arr, list, tuple))


def asarr(x, copy=False):
    if isinstance(x, Arr):
        return x.copy() if copy else x
    if isinstance(x, (list, tuple)):
        items = [asarr(e) if isinstance(e, (list, tuple, Arr)) else e for e in x]
        if items and any(isinstance(e, Arr) for e in items):
            if not all(isinstance(e, Arr) for e in items):
                if all((not isinstance(e, Arr)) or e.shape == () for e in items):
                    items = [e.item() if isinstance(e, Arr) else e for e in items]
                    return Arr((len(items),), items)
                raise InterpValueError('setting an array element with a sequence. The requested array has an '
                                       'inhomogeneous shape')
            sh = items[0].shape
            if any(e.shape != sh for e in items):
                raise InterpValueError('setting an array element with a sequence. The requested array has an '
                                       'inhomogeneous shape')
            data = [v for e in items for v in e.items()]
            return Arr((len(items),) + sh, data)
        return Arr((len(items),), items)
    return Arr((), [x])


def _inherit_layout(res, *ins):
    for a in ins:
        if isinstance(a, Arr) and a.shape == res.shape:
            r = a.mem_rank()
            if r is not None:
                res.memrank = r
                break
    return res


def ew1(fn, a):
    if isinstance(a, Arr):
        return _inherit_layout(Arr(a.shape, [fn(v) for v in a.items()], kind=a.kind), a)
    if isinstance(a, (list, tuple)):
        return ew1(fn, asarr(a))
    return fn(a)


def ew2(fn, a, b):
    if isinstance(a, (list, tuple)):
        a = asarr(a)
    if isinstance(b, (list, tuple)):
        b = asarr(b)
    if not isinstance(a, Arr) and not isinstance(b, Arr):
        return fn(a, b)
    sa = a.shape if isinstance(a, Arr) else ()
    sb = b.shape if isinstance(b, Arr) else ()
    shape = broadcast_shapes(sa, sb)
    ia = broadcast_to(a, shape).items() if isinstance(a, Arr) else [a] * _prod(shape)
    ib = broadcast_to(b, shape).items() if isinstance(b, Arr) else [b] * _prod(shape)
    return _inherit_layout(Arr(shape, [fn(x, y) for x, y in zip(ia, ib)]), a, b)


def ewn(fn, *args):
    args = [asarr(a) if isinstance(a, (list, tuple)) else a for a in args]
    shapes = [a.shape for a in args if isinstance(a, Arr)]
    if not shapes:
        return fn(*args)
    shape = broadcast_shapes(*shapes)
    cols = [broadcast_to(a, shape).items() if isinstance(a, Arr) else [a] * _prod(shape) for a in args]
    return _inherit_layout(Arr(shape, [fn(*vals) for vals in zip(*cols)]), *args)


def shape_of(x):
    if isinstance(x, Arr):
        return x.shape
    if isinstance(x, (list, tuple)):
        return asarr(x).shape
    return ()


def size_of(x):
    return _prod(shape_of(x))
