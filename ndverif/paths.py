"""Exploration of tolerance ('approx') predicates in the exact-algebra rules.

np.isclose / np.allclose on symbolic operands are undetermined: both outcomes are realisable (a == b makes them true,
|a - b| large makes them false), and on the `true` side the operands are still *different* numbers in general.  A rule
that states an exact identity therefore has to hold on both successors, with the operands left symbolic.  Nothing is
solved: every combination of outcomes (one per source site) is interpreted and judged separately."""
from fractions import Fraction as Fr

from .dv import Explorer
from .ndarr import Unk


def has_approx(v):
    def walk(e):
        if isinstance(e, Unk):
            return walk(e.expr)
        if isinstance(e, tuple) and e:
            if e[0] == 'approx':
                return True
            return any(walk(x) for x in e[1:])
        if isinstance(e, list):
            return any(walk(x) for x in e)
        return False
    return walk(v)


NEGLIGIBLE_RTOL = Fr(1, 10 ** 9)
NEGLIGIBLE_ATOL = Fr(1, 10 ** 30)


def tolerances(v):
    """[(rtol, atol)] of every tolerance comparison inside an undetermined value."""
    out = []

    def walk(e):
        if isinstance(e, Unk):
            walk(e.expr)
        elif isinstance(e, tuple) and e:
            if e[0] == 'tol':
                out.append((e[1], e[2]))
                return
            for x in e[1:]:
                walk(x)
        elif isinstance(e, list):
            for x in e:
                walk(x)
    walk(v)
    return out


def only_negligible(decisions_values):
    """True when every tolerance predicate answered `true` on this path only tolerates rounding-sized differences
    (rtol <= 1e-9, atol <= 1e-30): such a path is a refinement of exact equality of the operands, which a run on
    generic symbolic operands does not represent (it is judged on instances where the operands are identical)."""
    for value, outcome in decisions_values:
        if not outcome or (isinstance(value, tuple) and value[:1] == ('zero',)):
            continue
        tols = tolerances(value)
        if not tols:
            return False
        for rtol, atol in tols:
            try:
                if not (Fr(rtol) <= NEGLIGIBLE_RTOL and Fr(atol) <= NEGLIGIBLE_ATOL):
                    return False
            except (TypeError, ValueError):
                return False
    return True


def bare_symbol(v):
    """name of the atom when v is exactly one symbol (coefficient 1, power 1), else None"""
    from .algebra import Poly, Z8
    if isinstance(v, Poly) and len(v.t) == 1:
        (mono, c), = v.t.items()
        if c == Z8.ONE and len(mono) == 1 and mono[0][1] == 1:
            return mono[0][0]
    return None


def linear_in(v, symbols):
    """(symbol, expr) with v == 0  <=>  symbol == expr, when v is a polynomial that is linear in one of `symbols` with a
    constant coefficient (the other part may be anything without that symbol); else None."""
    from .algebra import Poly
    if not isinstance(v, Poly):
        return None
    for sym in symbols:
        a, rest, ok = Poly.const(0), Poly.const(0), True
        for mono, c in v.t.items():
            d = dict(mono)
            if sym in d:
                if d[sym] != 1 or len(d) != 1:
                    ok = False
                    break
                a = a + Poly.const(c)
            else:
                rest = rest + Poly({mono: c})
        if ok and not a.is_zero():
            return sym, -rest * a.inv()
    return None


def zero_substitution(rec):
    """{symbol: expr} for the recorded truthiness decisions that came out as `== 0`; and the remaining records."""
    sub, rest = {}, []
    for v, o in rec:
        if isinstance(v, tuple) and v[:1] == ('zero',):
            if o:
                sub[v[1]] = v[2]
        else:
            rest.append((v, o))
    return sub, rest


def approx_paths(run, fallback=None, max_paths=32, records=None, zero_symbols=()):
    """run(oracle) -> result.  Returns [(decisions, result, InterpRaise or None)], one entry per combination of outcomes of
    the tolerance predicates met; any other undetermined branch goes to `fallback` (None: analysis error).

    Truthiness of a quantity that is linear in one of `zero_symbols` (`if not x0:`, `x0 or default`) is explored by
    hypothesis: one set of runs in which no such quantity is zero, and one set per distinct quantity q met in which exactly
    q == 0 holds (the others are non-zero: distinct quantities of generic inputs do not vanish together).  The records of
    a path carry the substitution that makes its hypothesis true, so the rule can judge the path for such inputs."""
    hyps = [None]
    seen = set()
    all_paths = []
    k = 0
    while k < len(hyps):
        hyp = hyps[k]
        k += 1
        ex = Explorer(max_paths=max_paths)
        local_records = []

        def body(oracle, hyp=hyp, local_records=local_records):
            rec = []
            local_records.append(rec)     # records[i] belongs to paths[i]: (undetermined value, truth of its un-negated form)

            def o(interp, node, fr, value):
                if has_approx(value):
                    r = oracle(interp, node, fr, value)
                    neg, e = False, value
                    while isinstance(e, Unk) and isinstance(e.expr, tuple) and e.expr[:1] == ('not',):
                        neg, e = not neg, Unk(e.expr[1])
                    rec.append((e, r != neg))
                    return r
                lin = linear_in(value, zero_symbols)
                if lin is not None:
                    key = (lin[0], repr(lin[1]))
                    if key not in seen:
                        seen.add(key)
                        hyps.append(key + (lin[1],))
                    is_zero = hyp is not None and key == hyp[:2]
                    if is_zero and not any(isinstance(v, tuple) and v[:1] == ('zero',) for v, _ in rec):
                        rec.append((('zero', lin[0], lin[1]), True))
                    return not is_zero
                return fallback(interp, node, fr, value) if fallback is not None else None
            return run(o)
        ex.run(body)
        for (decisions, res, exc), rec in zip(ex.paths, local_records):
            if hyp is not None:
                decisions = list(decisions) + [(True, '%s == 0' % hyp[0] if hyp[1] == '0' else '%s == %s' % hyp[:2], '', frozenset())]
            all_paths.append((decisions, res, exc))
            if records is not None:
                records.append(rec)
        if len(all_paths) > 4 * max_paths:
            from .srcmodel import AnalysisError
            raise AnalysisError('more than %d paths through undetermined predicates' % (4 * max_paths))
    return all_paths


def path_text(decisions):
    return ', '.join('%s=%s' % (d[1][:60], d[0]) for d in decisions) or 'straight'
