"""End-to-end abstract run of the first half of the Derivative pipeline
(_get_functions, _get_steps, _eval_first, diff, set_richardson_rule, fd_rule.apply) with

  * a symbolic user function (stencil.FV elements),
  * symbolic base step h and (optionally) symbolic step ratio r,
  * the pseudo inverse of the moment matrix kept as a matrix of atoms W[a,b] together with the
    abstractly evaluated matrix M, so that  sum_m W[a,m] * M[m,j] = delta(a,j)  can be applied afterwards.

Result: for every output row i the formal Taylor series of der_init[i].
"""
from fractions import Fraction as Fr

from .srcmodel import AnalysisError, NotAnOffset
from .algebra import Poly, Rat, Z8, AlgebraError
from . import ndarr
from .ndarr import Arr, Unk, InterpRaise

# atoms assumed to be positive reals in the end-to-end runs (stated as assumptions in the evidence)
ASSUMED_POSITIVE = ('h', 'r', 'EPS', 'TINY', 'HUGE', 'pi') + tuple('h%d' % k for k in range(8))
from .absint import Interp, Obj, Closure, ClassRef
from .libmodels import Models
from .stencil import FV, taylor_signature, FX_KEY, _as_poly


class PinvRegistry(object):
    def __init__(self):
        self.mats = {}      # tag -> Arr matrix (abstract entries)
        self.count = 0

    def hook(self, models, m, *a, **kw):
        m = models.np_asarray(m)
        if m.ndim != 2 or m.shape[0] != m.shape[1]:
            raise AnalysisError('pinv of a non square matrix %s' % (m.shape,))
        tag = 'W%d' % self.count
        self.count += 1
        self.mats[tag] = m.copy()
        n = m.shape[0]
        names = ['%s_%d_%d' % (tag, a, b) for a in range(n) for b in range(n)]
        from . import algebra
        if any(isinstance(v, Poly) and not v.is_real() for v in m.items()):
            algebra.COMPLEX_ATOMS.update(names)      # the inverse of a complex matrix is complex
        else:
            algebra.COMPLEX_ATOMS.difference_update(names)   # the names are reused by every registry: no stale marks
        return Arr((n, n), [Poly.sym(nm) for nm in names])

    def lstsq_hook(self, models, a, b, *args, **kw):
        """linalg.lstsq(A, b) for a square (assumed invertible) A: x = inv(A) b with inv(A) kept symbolic."""
        a = models.np_asarray(a)
        b = models.np_asarray(b)
        if a.ndim != 2 or a.shape[0] != a.shape[1]:
            raise AnalysisError('lstsq of a non square system %s' % (a.shape,))
        W = self.hook(models, a)
        x = models.np_dot(W, b)
        return (x, None, a.shape[0], None)

    def split(self, poly):
        """poly -> ({(tag, 'row'|'col', a): [g_0 .. g_{n-1}]}, rest)
        row group:  sum_m W[tag][a, m] * g_m      col group:  sum_m W[tag][m, a] * g_m
        Raises if a term is not linear in the W atoms."""
        per_tag, rest = {}, Poly.const(0)
        for mono, c in poly.t.items():
            ws = [(s, e) for s, e in mono if s[0] == 'W' and '_' in s and s.split('_')[0] in self.mats]
            if not ws:
                rest = rest + Poly({mono: c})
                continue
            if len(ws) != 1 or ws[0][1] != 1:
                raise AnalysisError('term not linear in the rule weights: %r' % (Poly({mono: c}),))
            tag, a, b = ws[0][0].split('_')
            g = Poly({tuple(x for x in mono if x[0] != ws[0][0]): c})
            per_tag.setdefault(tag, []).append((int(a), int(b), g))
        groups = {}
        for tag, items in per_tag.items():
            n = self.mats[tag].shape[0]
            rows = {a for a, b, g in items}
            cols = {b for a, b, g in items}
            if len(rows) == 1:
                a = rows.pop()
                vec = [Poly.const(0)] * n
                for _, b, g in items:
                    vec[b] = vec[b] + g
                groups[(tag, 'row', a)] = vec
            elif len(cols) == 1:
                b = cols.pop()
                vec = [Poly.const(0)] * n
                for a, _, g in items:
                    vec[a] = vec[a] + g
                groups[(tag, 'col', b)] = vec
            else:
                # several rows: one group per row
                for a in rows:
                    vec = [Poly.const(0)] * n
                    for a2, b, g in items:
                        if a2 == a:
                            vec[b] = vec[b] + g
                    groups[(tag, 'row', a)] = vec
        return groups, rest

    def resolve(self, poly):
        """Apply W*M = I (row groups) and M*W = I (column groups).  Returns (resolved Poly without W atoms,
        unresolved Poly that keeps its W atoms, notes)."""
        groups, rest = self.split(poly)
        unresolved = Poly.const(0)
        notes = []
        for (tag, kind, a), g in groups.items():
            M = self.mats[tag]
            n = M.shape[0]
            hit = None
            for j in range(n):
                vec = [_as_poly(M[m, j]) for m in range(n)] if kind == 'row' else [_as_poly(M[j, m]) for m in range(n)]
                piv = next((m for m in range(n) if not vec[m].is_zero()), None)
                if piv is None:
                    continue
                ok = True
                for m in range(n):
                    if not (g[m] * vec[piv] - g[piv] * vec[m]).is_zero():
                        ok = False
                        break
                if ok and not all(x.is_zero() for x in g):
                    hit = (j, piv, vec)
                    break
            if hit is None:
                if all(x.is_zero() for x in g):
                    continue
                for m in range(n):
                    nm = '%s_%d_%d' % ((tag, a, m) if kind == 'row' else (tag, m, a))
                    unresolved = unresolved + Poly.sym(nm) * g[m]
                continue
            j, piv, vec = hit
            lam = g[piv] / vec[piv]
            notes.append((tag, kind, a, j))
            if j == a:
                rest = rest + lam
        return rest, unresolved, notes


def column_exponents(M, ratio_atom):
    """For a moment/Richardson matrix whose entries are c_j * r**(-i*k_j): -> list of (k_j, c_j)
    or raises AnalysisError when an entry does not have that geometric row structure."""
    n_rows, n_cols = M.shape
    out = []
    for j in range(n_cols):
        c0 = _as_poly(M[0, j])
        if not c0.is_const():
            raise AnalysisError('row 0 of the matrix is not constant in the step ratio: %r' % (c0,))
        k = None
        for i in range(n_rows):
            e = _as_poly(M[i, j])
            q = e / c0 if not c0.is_zero() else None
            if q is None or not q.is_monomial():
                raise AnalysisError('matrix entry (%d,%d) is not a monomial multiple of row 0: %r' % (i, j, e))
            (mono, coef), = q.t.items()
            if coef != Z8.ONE:
                raise AnalysisError('matrix entry (%d,%d): coefficient varies along the column' % (i, j))
            d = dict(mono)
            if set(d) - {ratio_atom}:
                raise AnalysisError('matrix entry (%d,%d) depends on %r' % (i, j, sorted(d)))
            ex = -d.get(ratio_atom, Fr(0))
            if i == 0:
                if ex != 0:
                    raise AnalysisError('row 0 depends on the ratio')
            elif i == 1:
                k = ex
            else:
                if ex != i * k:
                    return None
        out.append((k if k is not None else Fr(0), c0))
    return out


def finite_values_oracle(interp, node, fr, value):
    """End-to-end runs use a symbolic f whose values are generic finite numbers: a test for NaN among them is false.
    (Rules about the *set* of evaluation points explore such tests on both sides instead: C05.)"""
    from .ndarr import Unk

    def only_isnan(e):
        if isinstance(e, Unk):
            return only_isnan(e.expr)
        if isinstance(e, str):
            return e == 'isnan(f)'
        if isinstance(e, tuple) and e and e[0] in ('all', 'any'):
            return bool(e[1]) and all(only_isnan(x) for x in e[1])
        return False
    if only_isnan(value):
        return False
    return None


class Pipeline(object):
    """One interpreter + models configured for end-to-end runs."""

    def __init__(self, repo, branch_oracle=None):
        self.repo = repo
        self.reg = PinvRegistry()
        self.models = Models(hooks={'linalg.pinv': self.reg.hook})
        if branch_oracle is None:
            branch_oracle = finite_values_oracle
        self.interp = Interp(repo, self.models, branch_oracle=branch_oracle)
        self.models.bind(self.interp)
        self.calls = []
        self.bicomplex = repo.cls('multicomplex', 'Bicomplex')
        ndarr.POSITIVE_ATOMS.clear()
        ndarr.POSITIVE_ATOMS.update(ASSUMED_POSITIVE)

    # -- symbolic user function for scalar / vector mode
    def make_user_f(self, xs, dim, extra_check=None):
        I = self.interp
        calls = self.calls
        bic = self.bicomplex
        self.base_xs = list(xs)
        P = self

        def user_f(arg, *extra, **kw):
            xs = P.base_xs                       # the point of the current call (set_point)
            xatoms = {repr(x) for x in xs}
            if extra_check is not None:
                extra_check(extra, kw)
            where = I.where()
            z2 = None
            kind = 'plain'
            if isinstance(arg, Obj) and arg.cls.is_subclass_of(bic):
                z2 = arg.attrs['z2']
                arg = arg.attrs['z1']
                kind = 'bicomplex'
            if dim is None:
                vals = [arg.item() if isinstance(arg, Arr) and arg.size == 1 else arg]
                z2v = [0] if z2 is None else [z2.item() if isinstance(z2, Arr) and z2.size == 1 else z2]
            else:
                if not isinstance(arg, Arr) or arg.shape != (dim,):
                    raise AnalysisError('f called with argument of shape %r, expected %r [%s]'
                                        % (getattr(arg, 'shape', None), (dim,), where))
                vals = arg.items()
                z2v = [0] * dim if z2 is None else z2.items()
            off = []
            for v, xk, w in zip(vals, xs, z2v):
                d = _as_poly(v) - xk + Poly.const(Z8.J) * _as_poly(w)
                if d.atoms() & xatoms:
                    wit = ndarr.offset_depends_on_point(d, xatoms)
                    if wit is not None:
                        raise NotAnOffset('evaluation point is not x + offset: %s [%s]' % (repr(v)[:200], where), dict(wit, at=where))
                    raise AnalysisError('evaluation point is not x + offset: %r [%s]' % (v, where))
                off.append(d)
            key = tuple(off)
            if extra or kw:
                # extra call arguments are part of the identity of the evaluation
                key = key + (('args', repr(extra), repr(sorted(kw.items()))),)
            calls.append((key, where, kind))
            if kind == 'bicomplex':
                o = Obj(bic)
                o.attrs['z1'] = FV.atom(key, 'A')
                o.attrs['z2'] = FV.atom(key, 'B')
                return o
            return FV.atom(key, 'A')
        return user_f

    def set_point(self, x):
        """Declare the point at which the next call is made (offsets of the evaluations are taken from it)."""
        self.base_xs = x.items() if isinstance(x, Arr) else [x]

    def clear_cache(self):
        """Restore the rule cache to its import-time content (normally empty)."""
        fd = self.repo.module('finite_difference')
        ok, cache = self.interp.ns(fd).get('FD_RULES')
        if ok and isinstance(cache, dict):
            if not hasattr(self, '_cache_init'):
                self._cache_init = dict(cache)
            cache.clear()
            cache.update(self._cache_init)
    reset_cache = clear_cache

    def cache(self):
        fd = self.repo.module('finite_difference')
        ok, cache = self.interp.ns(fd).get('FD_RULES')
        return cache if ok else None

    def canon(self, v):
        """Canonical, registry independent description of an abstract value (W atoms are renamed after the
        content of their matrix)."""
        return canon_value(v, self.reg)

    def build(self, clsname, method, order, n=None, step=None, dim=None, full_output=False, **options):
        """Construct core.<clsname>(f, ...) abstractly.  Returns (obj, x)."""
        I = self.interp
        cref = I.get_global('core', clsname)
        if dim is None:
            xs = [Poly.sym('x')]
            x = xs[0]
        else:
            xs = [Poly.sym('x%d' % k) for k in range(dim)]
            x = Arr((dim,), xs)
        self.calls = []
        f = self.make_user_f(xs, dim)
        kw = dict(method=method, step=step, full_output=full_output)
        if order is not None:
            kw['order'] = order
        if n is not None:
            kw['n'] = n
        kw.update(options)
        obj = cref(f, **kw)
        return obj, x

    def sym_generator(self, kind='Min', ratio='r', base='h', num_steps=None, **kw):
        """A Min/MaxStepGenerator with symbolic base step and ratio."""
        I = self.interp
        cref = I.get_global('step_generators', kind + 'StepGenerator')
        r = Poly.sym(ratio) if isinstance(ratio, str) else ratio
        b = Poly.sym(base) if isinstance(base, str) else base
        return cref(base_step=b, step_ratio=r, num_steps=num_steps, step_nom=1, **kw)


def _mat_key(M):
    return 'M[' + ';'.join(repr(e) for e in M.items()) + ']' + repr(M.shape)


def _canon_str(text, reg):
    """rename W<k>_ tokens (also inside the names of opaque atoms) after the content of their matrix"""
    import re

    def sub(m):
        tag = m.group(1)
        if tag in reg.mats:
            return 'W{%s}_' % _mat_key(reg.mats[tag])
        return m.group(0)
    return re.sub(r'(W\d+)_', sub, text)


def canon_poly(p, reg):
    if not isinstance(p, Poly):
        return _canon_str(repr(p), reg)
    if True:
        out = []
        for mono, c in p.t.items():
            m2 = tuple(sorted((_canon_str(s_, reg), e) for s_, e in mono))
            out.append((m2, repr(c)))
        return repr(sorted(out))
    ren = {}
    for a in p.atoms():
        if a[0] == 'W' and '_' in a and a.split('_')[0] in reg.mats:
            tag, i, j = a.split('_')
            ren[a] = 'W{%s}_%s_%s' % (_mat_key(reg.mats[tag]), i, j)
    if not ren:
        return repr(p)
    out = []
    for mono, c in p.t.items():
        m2 = tuple(sorted((ren.get(s, s), e) for s, e in mono))
        out.append((m2, repr(c)))
    return repr(sorted(out))


def canon_value(v, reg):
    from .stencil import FV
    from .absint import Obj
    if isinstance(v, Arr):
        return ('arr', v.shape, tuple(canon_value(e, reg) for e in v.items()))
    if isinstance(v, (tuple, list)):
        return ('seq', tuple(canon_value(e, reg) for e in v))
    if isinstance(v, FV):
        terms = []
        for proj, inner in v.terms.items():
            for (off, comp), c in inner.items():
                terms.append((repr(proj), repr(off), comp, canon_poly(c, reg)))
        return ('fv', tuple(sorted(terms)))
    if isinstance(v, Poly):
        return canon_poly(v, reg)
    if isinstance(v, Rat):
        return ('rat', canon_poly(v.n, reg), canon_poly(v.d, reg))
    if isinstance(v, Obj):
        return ('obj', v.cls.name, tuple(sorted((k, canon_value(x, reg)) for k, x in v.attrs.items()
                                               if not callable(x) and not isinstance(x, Obj))))
    return _canon_str(repr(v), reg)
