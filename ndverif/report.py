"""Instance records, evidence / replay writers, known-finding matching and exit codes."""
import hashlib
import json
import os
import sys
import time

VERIF_DIR = os.path.dirname(os.path.dirname(os.path.abspath(__file__)))
EVIDENCE_DIR = os.path.join(VERIF_DIR, 'evidence')
REPLAY_DIR = os.path.join(VERIF_DIR, 'replays')
KNOWN_FILE = os.path.join(VERIF_DIR, 'known_findings.json')


def load_known():
    if not os.path.isfile(KNOWN_FILE):
        return []
    with open(KNOWN_FILE) as fh:
        data = json.load(fh)
    return data.get('findings', [])


class Rule(object):
    def __init__(self, rid, text, min_instances):
        self.id, self.text, self.min_instances = rid, text, min_instances
        self.instances = 0
        self.violations = 0


class Report(object):
    def __init__(self, prop_id, tier, seed=0, repo_root='/repo', quiet=False):
        self.prop, self.tier, self.seed = prop_id, tier, seed
        self.repo_root = repo_root
        self.rules = {}
        self.order = []
        self.instances = []       # dicts
        self.distinct = set()
        self.assumptions = []
        self.notes = {}
        self.t0 = time.time()
        self.quiet = quiet
        self.self_validation = None
        self.undecided_list = []

    # -- declaration
    def rule(self, rid, text, min_instances=1):
        if rid not in self.rules:
            self.rules[rid] = Rule(rid, text, min_instances)
            self.order.append(rid)
        return rid

    def assume(self, text):
        if text not in self.assumptions:
            self.assumptions.append(text)

    # -- recording
    def _add(self, verdict, rule, construct, where, fact, expected=None, config=None, key=None):
        r = self.rules[rule]
        r.instances += 1
        rec = {'property': self.prop, 'rule': rule, 'construct': construct, 'config': config,
               'where': where, 'fact': fact, 'expected': expected, 'verdict': verdict,
               'key': key or ''}
        self.instances.append(rec)
        self.distinct.add((rule, construct, str(config), json.dumps(fact, sort_keys=True, default=str)))
        if verdict == 'violation':
            r.violations += 1
        return rec

    def ok(self, rule, construct, where, fact, config=None):
        return self._add('ok', rule, construct, where, fact, None, config)

    def violation(self, rule, construct, where, fact, expected, config=None, key=None):
        """key: short stable identification of *which* violation of this rule/construct it is
        (used to match known findings; never a line number)."""
        return self._add('violation', rule, construct, where, fact, expected, config, key)

    def undecided(self, rule, construct, reason, config=None):
        """An instance the analysis could not decide.  If no violation is found elsewhere the run ends as
        ANALYSIS-ERROR (exit 2); a violation found on an understood instance still counts."""
        self.undecided_list.append({'rule': rule, 'construct': construct, 'reason': str(reason)[:300], 'config': config})

    def check(self, cond, rule, construct, where, fact, expected, config=None, key=None):
        if cond:
            return self.ok(rule, construct, where, fact, config)
        return self.violation(rule, construct, where, fact, expected, config, key)

    def unlisted_violations(self):
        """Violations that are not open known findings (does not change any verdict)."""
        open_known = [k for k in load_known() if k.get('property') == self.prop and k.get('status') == 'open']
        out = []
        for v in self.instances:
            if v['verdict'] != 'violation':
                continue
            if not any(k.get('rule') == v['rule'] and k.get('construct') == v['construct'] and
                       (not k.get('key') or k.get('key') == v['key']) for k in open_known):
                out.append(v)
        return out

    # -- finishing
    def finish(self, write_evidence=True):
        from .srcmodel import AnalysisError
        short = [(rid, self.rules[rid]) for rid in self.order if self.rules[rid].instances < self.rules[rid].min_instances]
        if short and not any(i['verdict'] == 'violation' for i in self.instances):
            if self.undecided_list:
                u = self.undecided_list[0]          # the more informative reason: the instances exist but could not be decided
                raise AnalysisError('%d instance(s) could not be decided, first: %s %s (%s): %s'
                                    % (len(self.undecided_list), u['rule'], u['construct'], u['config'], u['reason']))
            rid, r = short[0]
            raise AnalysisError('rule %s matched %d instances, expected at least %d (anchor vanished?)'
                                % (rid, r.instances, r.min_instances))
        known = [k for k in load_known() if k.get('property') == self.prop]
        open_known = [k for k in known if k.get('status') == 'open']
        viol = [i for i in self.instances if i['verdict'] == 'violation']
        unlisted, listed = [], {}
        for v in viol:
            hit = None
            for k in open_known:
                if k.get('rule') == v['rule'] and k.get('construct') == v['construct'] and \
                        (not k.get('key') or k.get('key') == v['key']):
                    hit = k
                    break
            if hit is None:
                unlisted.append(v)
            else:
                v['verdict'] = 'known-finding'
                listed.setdefault(id(hit), (hit, []))[1].append(v)
        lines = []
        for hit, vs in listed.values():
            lines.append('KNOWN-FINDING: property=%s %s [%s %s] (%d instance%s)'
                         % (self.prop, hit.get('what', ''), hit.get('rule'), hit.get('construct'),
                            len(vs), '' if len(vs) == 1 else 's'))
        replay_paths = []
        # group unlisted violations by (rule, construct, key) -> one replay file each
        groups = {}
        for v in unlisted:
            groups.setdefault((v['rule'], v['construct'], v['key']), []).append(v)
        for (rule, construct, key), vs in groups.items():
            path = self._write_replay(rule, construct, key, vs)
            replay_paths.append(path)
            v = vs[0]
            lines.append('VIOLATION property=%s replay=%s' % (self.prop, path))
            lines.append('  rule=%s construct=%s key=%s at %s' % (rule, construct, key, v['where']))
            lines.append('  found:    %s' % json.dumps(v['fact'], default=str)[:600])
            lines.append('  expected: %s' % v['expected'])
            if len(vs) > 1:
                lines.append('  (%d instances; first shown, config=%s)' % (len(vs), v['config']))
        wall = time.time() - self.t0
        if self.undecided_list and not unlisted:
            u = self.undecided_list[0]
            raise AnalysisError('%d instance(s) could not be decided, first: %s %s (%s): %s'
                                % (len(self.undecided_list), u['rule'], u['construct'], u['config'], u['reason']))
        if write_evidence:
            self._write_evidence(wall, len(unlisted), len(viol) - len(unlisted))
        if not self.quiet:
            n_ok = sum(1 for i in self.instances if i['verdict'] == 'ok')
            print('%s tier=%s: %d instances over %d rules, %d ok, %d known-finding, %d violation(s) in %.2fs'
                  % (self.prop, self.tier, len(self.instances), len(self.rules), n_ok,
                     len(viol) - len(unlisted), len(unlisted), wall))
            for rid in self.order:
                r = self.rules[rid]
                print('  %-16s %4d instances (min %d)%s' % (rid, r.instances, r.min_instances,
                                                          '  not ok: %d' % r.violations if r.violations else ''))
            for ln in lines:
                print(ln)
        return (1 if unlisted else 0), unlisted

    def _write_replay(self, rule, construct, key, vs):
        os.makedirs(REPLAY_DIR, exist_ok=True)
        h = hashlib.sha1(('%s|%s|%s' % (rule, construct, key)).encode()).hexdigest()[:10]
        path = os.path.join(REPLAY_DIR, '%s-%s.json' % (self.prop, h))
        with open(path, 'w') as fh:
            json.dump({'property': self.prop, 'rule': rule, 'construct': construct, 'key': key,
                       'tier': self.tier, 'repo': self.repo_root, 'instances': vs[:20]}, fh, indent=1, default=str)
        return path

    def _write_evidence(self, wall, n_unlisted, n_known):
        os.makedirs(EVIDENCE_DIR, exist_ok=True)
        n_ok = sum(1 for i in self.instances if i['verdict'] == 'ok')
        samples = self._samples()
        cov = {
            'explanation': self.notes.get('explanation', ''),
            'evaluations': len(self.instances),
            'distinct_nontrivial': len(self.distinct),
            'rule': ('instances are enumerated from the analysed source (one per rule template x construct x '
                     'configuration class); distinct = distinct (rule, construct, configuration, extracted fact); '
                     'every instance is non-trivial in that its verdict is computed from the parsed source'),
            'obligations': len(self.instances),
            'discharged': n_ok,
            'known_findings': n_known,
            'samples': samples,
            'rules': [{'id': rid, 'text': self.rules[rid].text, 'instances': self.rules[rid].instances,
                       'min_instances': self.rules[rid].min_instances,
                       'violations': self.rules[rid].violations} for rid in self.order],
            'files': self.notes.get('files', []),
            'library_versions': self.notes.get('library_versions', {}),
            'checker_cmd': '/venv/bin/python -m ndverif check %s --tier %s' % (self.prop, self.tier),
            'trusted_base': self.notes.get('trusted_base', []),
            'exhaustive': bool(self.notes.get('exhaustive', False)),
        }
        for k, v in self.notes.items():
            if k not in cov:
                cov[k] = v
        if self.self_validation is not None:
            cov['self_validation'] = self.self_validation
        ev = {'property_id': self.prop, 'tier': self.tier, 'seed': int(self.seed), 'level': 'other',
              'coverage': cov, 'assumptions': self.assumptions, 'wall_s': round(wall, 3),
              'violations': n_unlisted}
        path = os.path.join(EVIDENCE_DIR, '%s.json' % self.prop)
        tmp = path + '.tmp'
        with open(tmp, 'w') as fh:
            json.dump(ev, fh, indent=1, default=str)
        os.replace(tmp, path)

    def _samples(self):
        import random
        rnd = random.Random(self.seed)
        by_rule = {}
        for i in self.instances:
            by_rule.setdefault(i['rule'], []).append(i)
        out = []
        for rid in self.order:
            lst = by_rule.get(rid, [])
            bad = [i for i in lst if i['verdict'] != 'ok']
            pick = bad[:2]
            rest = [i for i in lst if i['verdict'] == 'ok']
            if rest:
                pick += rnd.sample(rest, min(2, len(rest)))
            for i in pick:
                out.append({k: (v if k != 'fact' else _trim(v)) for k, v in i.items()})
        return out


def _trim(v, limit=900):
    s = json.dumps(v, default=str)
    if len(s) <= limit:
        return v
    return s[:limit] + '...'
