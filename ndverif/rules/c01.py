"""C01 Derivative returns the true n-th derivative within the accuracy envelope (formal clauses only)."""
import math

from ..srcmodel import AnalysisError
from ..stages import estimates
from ast import unparse as ast_unparse
from ..algebra import Poly
from ..ndarr import Arr, InterpRaise
from ..pipeline import Pipeline
from ..stencil import FV
from . import formal, e2e


def run(ctx):
    rep, facts = ctx.rep, ctx.facts
    rep.notes['explanation'] = (
        'The numerical envelope of C01 (how small the error is for a given f, x and step sequence) is NOT decided. '
        'Decided: the formal correctness of the pipeline in exact arithmetic for every accepted (method, n, order): '
        'sum_i w_i D(h r^-i) / h^n = f^(n)(x) + O(h^method_order), with error powers exactly those the Richardson '
        'stage models - a necessary condition of the envelope that is broken by a wrong sign / offset in a parity '
        'class, an n mod 8 flip case, a wrong quotient coefficient, a wrong rule row, the h**n scaling, the '
        'convolution orientation, or the f(x) argument. Table level rules cover all configuration classes; '
        'end-to-end abstract runs of _derivative_nonzero_order cover the wiring; n = 0 is run end to end.')
    rep.assume('f real analytic and real valued at real x (formal Taylor series); steps positive')
    rep.assume('generalised Vandermonde non-singularity; pinv == inverse')
    n = formal.check_formal(rep, facts, ['LogRule'], ctx.tier)
    rep.notes['configurations'] = n
    rep.rule('R-E2E', e2e.RULE_TEXT, 30)
    P = Pipeline(facts.repo)
    count = 0
    for method, nn, order in e2e.sample_configs(ctx.tier):
        for gen in (('sym-min',) if ctx.tier == 'quick' else ('sym-min', 'sym-max', 'default')):
            if gen != 'sym-min' and (nn > 4 or order > 4):
                continue
            e2e.run_one(rep, P, 'Derivative', method, nn, order, gen)
            count += 1
    # complex *valued* f with the real-step methods: real and imaginary parts are differentiated by the same stencil
    for method in ('central', 'forward', 'backward'):
        for nn, order in ((1, 2), (2, 2), (3, 4), (1, 4)) if ctx.tier == 'quick' else ((1, 2), (2, 2), (3, 4), (1, 4), (4, 2), (2, 6), (5, 2)):
            e2e.run_one(rep, P, 'Derivative', method, nn, order, 'sym-min', complex_valued=True)
            count += 1
    rep.notes['e2e_runs'] = count
    zero_order(ctx, P)
    arrays(ctx)
    wynn(ctx)
    rep.notes['exhaustive'] = True
    from . import history
    history.check_cache_seed(rep, ctx.repo)
    history.run_cache_scenarios(rep, ctx.repo, 'Derivative', None)
    rep.notes['trusted_base'] = ['python ast', 'ndverif abstract interpreter and numpy summaries',
                                 'convolve1d model (DESIGN section 7)', 'generalised Vandermonde non-singularity']


def arrays(ctx):
    """Array arguments (the statement says scalars and arrays): the data-dependence run of C08 on a few configurations,
    including a transposed (Fortran ordered) view, filed under this property."""
    from . import c08
    rep = ctx.rep
    rep.rule('R-ARRAY', 'array x (C ordered and a transposed view): the result has the shape of x and element c is computed '
             'from difference quotients and steps of element c only (abstract data-dependence run of Derivative.__call__, '
             'shared with C08); an array power of Bicomplex treats each element as the scalar call does (shared with C12)', 6)
    core = ctx.repo.module('core')
    for shape in ((3,), 'T(3, 2)'):
        for method, n, order in (('central', 1, 2), ('complex', 1, 2), ('forward', 2, 2)):
            c08.one(ctx, core, shape, method, n, order, False, rule_as='R-ARRAY')
    # multicomplex on arrays goes through Bicomplex.__pow__ with a per-element fallback for x = 0: shared with C12
    from . import c12
    c12.elementwise(ctx, ctx.repo.module('multicomplex'), rule='R-ARRAY')


def zero_order(ctx, P):
    """n == 0 returns f(x) itself: one evaluation at x, a 0-term Richardson rule."""
    rep = ctx.rep
    rep.rule('R-ZERO', 'n == 0: f is evaluated exactly once, at x, with the call '
             'arguments; the estimate table is that value; the Richardson rule has 0 terms (weights ones(1)); '
             'setting n re-selects the evaluation routine', 4)
    I = P.interp
    core = P.repo.module('core')
    for method in ('central', 'forward', 'complex', 'multicomplex'):
        try:
            obj, x = P.build('Derivative', method, 2, n=0)
            (der, h, shape), fx = estimates(I, obj, x)
        except InterpRaise as exc:
            rep.violation('R-ZERO', 'core.Derivative._derivative_zero_order', core.relpath, {'raises': exc.exc_name, 'message': exc.msg[:100]},
                          'n = 0 does not raise', 'Derivative/%s/n=0' % method, key='zero-order raises')
            continue
        rich = obj.attrs['richardson']
        rule = I.getattr(rich, 'rule')(1)
        offs = [c[0] for c in P.calls]
        ok = (len(P.calls) == 1 and all(p.is_zero() for p in offs[0]) and isinstance(der, Arr) and der.size == 1
              and isinstance(der.item(), FV) and I.getattr(rich, 'num_terms') == 0
              and isinstance(rule, Arr) and rule.size == 1)
        rep.check(ok, 'R-ZERO', 'core.Derivative._derivative_zero_order', core.relpath,
                  {'calls': [tuple(repr(p) for p in o) for o in offs], 'estimate': repr(der.items()[:2]),
                   'richardson_terms': I.getattr(rich, 'num_terms'), 'rule': repr(rule)},
                  'one evaluation at x; value returned unchanged', 'Derivative/%s/n=0' % method, key='zero-order')
    # the n setter re-selects the routine: judged by what the next call evaluates, not by which method is stored
    obj, x = P.build('Derivative', 'central', 2, n=1)
    seen = {}
    for nn in (0, 2):
        try:
            I.setattr(obj, 'n', nn)
            del P.calls[:]
            estimates(I, obj, x)
        except InterpRaise as exc:
            rep.violation('R-ZERO', 'core.Derivative.n (setter)', core.relpath, {'raises': exc.exc_name, 'message': exc.msg[:100]},
                          'a call after setting n = %d does not raise' % nn, 'Derivative/n setter', key='n-setter raises')
            return
        seen[nn] = [tuple(repr(p) for p in c[0]) for c in P.calls]
    at_x = [o for o in seen[0] if all(p == '0' for p in o)]
    moved = [o for o in seen[2] if any(p != '0' for p in o)]
    rep.check(len(seen[0]) == 1 and len(at_x) == 1 and len(moved) >= 2, 'R-ZERO',
              'core.Derivative.n (setter)', core.relpath, {'evaluations_after_n=0': seen[0][:3], 'evaluations_after_n=2': seen[2][:4]},
              'after n = 0 one evaluation at x; after n = 2 a difference stencil again', 'Derivative/n setter',
              key='n-setter')


def wynn(ctx):
    """The Wynn stage of _Limit._extrapolate: row i of its output is the three-term Shanks transform of the consecutive
    rows i, i+1, i+2 of the Richardson output, paired with the step of row i+2; it is applied only when at least three rows exist."""
    from .c13 import make as make13, all_b
    from ..algebra import alg_equal
    rep = ctx.rep
    rep.rule('R-WYNN', 'abstract run of _Limit._wynn_extrapolate on a symbolic table: output row i == Shanks(d_i, d_{i+1}, d_{i+2}) '
             'per column (regular branch), paired with steps[i+2]; _extrapolate applies it only for more than two rows', 3)
    lim = ctx.repo.module('limits')
    I, models = make13(ctx.repo)
    # the Wynn stage: the one function of limits.py that applies dea3 (found by that, whatever it is called or wherever it lives)
    from ..srcmodel import functions_calling
    cands = functions_calling(lim, ('dea3',))
    if len(cands) != 1:
        raise AnalysisError('anchor vanished: the function of limits.py that applies dea3 (candidates: %s)' % [c[0] for c in cands])
    qual, wnode, wowner = cands[0]
    params = [a.arg for a in wnode.args.args]
    decos = [ast_unparse(d) for d in wnode.decorator_list]
    if len(params) != 2 or (wowner is not None and 'staticmethod' not in decos):
        # e.g. a method of a record that holds the table: the stage can no longer be driven with a table and its steps
        raise AnalysisError('anchor vanished: the function that applies dea3 (%s) does not take (estimates, steps)' % qual)
    wynn_fn = I.closure_for(lim, wnode, wowner)
    for rows, cols in ((3, 1), (5, 2), (4, 3)):
        der = Arr((rows, cols), [Poly.sym('d%d_%d' % (i, c)) for i in range(rows) for c in range(cols)])
        steps = Arr((rows, cols), [Poly.sym('h%d_%d' % (i, c)) for i in range(rows) for c in range(cols)])
        problems = []
        try:
            out, err, st = wynn_fn(der, steps)
            if out.shape != (rows - 2, cols) or st.shape != (rows - 2, cols) or err.shape != (rows - 2, cols):
                problems.append('shapes %s %s %s' % (out.shape, err.shape, st.shape))
            else:
                for i in range(rows - 2):
                    for c in range(cols):
                        e0, e1, e2 = (Poly.sym('d%d_%d' % (i + k, c)) for k in range(3))
                        want = (e1 * e1 - e0 * e2) / (2 * e1 - e0 - e2)
                        got = all_b(out[i, c])
                        if not alg_equal(got, want):
                            problems.append('row %d col %d is %s' % (i, c, repr(got)[:80]))
                        if repr(st[i, c]) != 'h%d_%d' % (i + 2, c):
                            problems.append('row %d col %d paired with step %r' % (i, c, st[i, c]))
        except InterpRaise as exc:
            problems.append('raises %s: %s' % (exc.exc_name, exc.msg[:80]))
        rep.check(not problems, 'R-WYNN', 'limits._Limit._wynn_extrapolate', lim.relpath, {'table': [rows, cols], 'problems': problems[:3]},
                  'Shanks transform of three consecutive rows, smallest of their steps', 'table %dx%d' % (rows, cols), key='wynn')
