"""C02 Reported error estimate is honest; full_output record is self-consistent (second sentence only)."""
from ..srcmodel import AnalysisError
from ..ndarr import Arr, InterpRaise
from ..dv import DV, IdxAny, tags_of, NONZERO_STEPS
from ..dvrun import explore, bicomplex_aware, StepGenModel, tensor_f

RULES = {
    'R-FVALUE': 'with full_output=True the f_value field is the value of the user function at the unperturbed x '
                '(one evaluation, call arguments forwarded), for Derivative, Gradient, Jacobian, Hessdiag and Hessian',
    'R-NONNEG': 'every entry of error_estimate is provably >= 0 on every path (sign lattice through Richardson._estimate_error, '
                'dea3, _add_error_to_outliers and their sum)',
    'R-GATHER': 'final_step reaches the record from the generated steps of the coordinate the entry belongs to, through selection only (slices, gathers, reshape, '
                'multiplication by exactly one) - so it is one of the generated steps - and error_estimate / final_step '
                'have exactly the shape of the result',
    'R-OWNDATA': 'for an elementwise f the error estimate of element c is computed from the estimates of element c only (a statistic '
                 'pooled over all elements - a percentile of a flattened selection - lets the other elements decide how much an '
                 'estimate is trusted, which no bound of the form "error <= c * estimate" for every input survives)',
    'R-FLOOR': 'with a single finite-difference estimate (nothing to compare it with) the reported error is not proportional to '
               'the estimate: Richardson._estimate_error keeps a term that depends on the step only, so a value that happens to be '
               '(near) zero does not come with a (near) zero error estimate (exact-algebra run, value set to 0 afterwards)',
    'R-INFO': 'the namedtuple fields are not permuted: error_estimate is a computed non-negative quantity, final_step a '
              'generated step, index a data dependent row index',
}

CASES = [
    # class, constructor kwargs, x shape, output shape of f (None = elementwise), expected result shape
    ('Derivative', dict(method='central', n=1), (), None, ()),
    ('Derivative', dict(method='forward', n=2), (3,), None, (3,)),
    ('Derivative', dict(method='complex', n=1), (2,), None, (2,)),
    ('Derivative', dict(method='central', n=0), (2,), None, (2,)),
    ('Gradient', dict(method='central'), (3,), (), (3,)),
    ('Gradient', dict(method='forward'), (1,), (), ()),
    ('Gradient', dict(method='central'), (2, 2), (), (4,)),
    ('Jacobian', dict(method='central'), (2,), (3,), (3, 2)),
    ('Jacobian', dict(method='complex'), (3,), (2,), (2, 3)),
    ('Jacobian', dict(method='backward'), (2,), (), (1, 2)),
    ('Hessdiag', dict(method='central'), (2,), (), (2,)),
    ('Hessdiag', dict(method='forward', order=4), (3,), (), (3,)),
    ('Hessian', dict(method='central'), (2,), (), (2, 2)),
    ('Hessian', dict(method='forward'), (3,), (), (3, 3)),
    ('Hessian', dict(method='complex'), (2,), (), (2, 2)),
]


def run(ctx):
    rep = ctx.rep
    rep.notes['explanation'] = (
        'NOT decided: "true error <= c * error_estimate + floor" (numerical; the t-factor, outlier penalty, tie rule '
        'and dea3 error formula are heuristics without a specification a static rule could compare against). '
        'Decided: the self-consistency clauses of the full_output record, by abstract runs of __call__ of the five '
        'classes in the data-dependence / sign / provenance domain with a step generator whose steps carry their '
        'identity; both sides of every undetermined branch are analysed.')
    rep.assume('the generated steps are positive (C05 R-STEPSIGN / user base_step > 0)')
    for rid, text in RULES.items():
        rep.rule(rid, text, {'R-FLOOR': 2, 'R-OWNDATA': 4}.get(rid, 10))
    core = ctx.repo.module('core')
    for cls, kw, xshape, fshape, rshape in CASES:
        one(ctx, core, cls, kw, xshape, fshape, rshape)
    # few steps: the Richardson error estimate itself reaches the record (no Wynn stage for fewer than 3 rows)
    for nsteps in (3, 4, 5):
        for cls, kw, xshape, fshape, rshape in CASES[:2] + CASES[6:7] + CASES[9:10]:
            one(ctx, core, cls, kw, xshape, fshape, rshape, nsteps)
    # full_output switched on after construction (and after a first call): the record must be the same as for an object
    # built with full_output=True
    for cls, kw, xshape, fshape, rshape in CASES[:1] + CASES[1:2] + CASES[4:5] + CASES[6:7] + CASES[9:10] + CASES[11:12]:
        one(ctx, core, cls, kw, xshape, fshape, rshape, late=True)
    floor(ctx)
    rep.notes['trusted_base'] = ['python ast', 'ndverif abstract interpreter, data-abstract domain, numpy summaries']


def floor(ctx):
    from ..absint import Interp
    from ..libmodels import Models
    from ..algebra import Poly
    from .. import ndarr
    rep = ctx.rep
    ex = ctx.repo.module('extrapolation')
    ci = ex.classes.get('Richardson')
    if ci is None or ci.lookup('_estimate_error') is None:
        raise AnalysisError('anchor vanished: extrapolation.Richardson._estimate_error')
    where = ex.where(ci.lookup('_estimate_error')[1])
    for cols in (1, 2):
        models = Models()
        I = Interp(ctx.repo, models)
        models.bind(I)
        ndarr.POSITIVE_ATOMS.clear()
        ndarr.POSITIVE_ATOMS.update({'EPS', 'TINY'} | {'h%d' % c for c in range(cols)})
        label = 'one estimate row, %d column(s)' % cols
        try:
            R = I.get_global('extrapolation', 'Richardson')
            v = Arr((1, cols), [Poly.sym('v%d' % c) for c in range(cols)])
            h = Arr((1, cols), [Poly.sym('h%d' % c) for c in range(cols)])
            err = I.getattr(R, '_estimate_error')(v, v.copy(), h, Arr((1,), [1]))
            items = err.items() if isinstance(err, Arr) else [err]
            zero_map = {}
            for c in range(cols):
                zero_map['v%d' % c] = Poly.const(0)
                zero_map['abs(v%d)' % c] = Poly.const(0)
            at_zero = [Poly.of(e).subs(zero_map) for e in items]
            bad = [c for c, e in enumerate(at_zero) if e.is_zero()]
            fact = {'error_estimate': [repr(e)[:120] for e in items[:2]], 'at_value_0': [repr(e)[:80] for e in at_zero[:2]],
                    'columns_with_vanishing_estimate': bad}
            rep.check(len(items) == cols and not bad, 'R-FLOOR', 'extrapolation.Richardson._estimate_error', where, fact,
                      'a step dependent term that survives value = 0', label, key='floor')
        except InterpRaise as exc:
            rep.violation('R-FLOOR', 'extrapolation.Richardson._estimate_error', where, {'raises': exc.exc_name, 'message': exc.msg[:100]},
                          'an error estimate', label, key='floor raises')
        except (AnalysisError, TypeError, AttributeError) as exc:
            rep.undecided('R-FLOOR', 'extrapolation.Richardson._estimate_error', exc, label)
        finally:
            ndarr.POSITIVE_ATOMS.clear()


def one(ctx, core, cls, kw, xshape, fshape, rshape, nsteps=9, late=False):
    rep = ctx.rep
    label = '%s/%s/x.shape=%s/f->%s/steps=%d' % (cls, ','.join('%s=%s' % i for i in sorted(kw.items())), xshape, fshape, nsteps) + \
        ('/full_output set after construction and a first call' if late else '')
    n = 1
    for s in xshape:
        n *= s

    def body(s):
        I = s.interp
        C = I.get_global('core', cls)
        if fshape is None:
            f = bicomplex_aware(s, s.elementwise_f())
        else:
            f = tensor_f(s, n, fshape)
        gen = StepGenModel(num_steps=nsteps)
        x = s.x_array(xshape)
        if late:
            d = C(f, step=gen, **kw)
            d(x)
            del s.fcalls[:]
            I.setattr(d, 'full_output', True)
        else:
            d = C(f, step=gen, full_output=True, **kw)
        return d(x)
    ex = explore(ctx.repo, body, pinned=NONZERO_STEPS)
    construct = 'core.%s.__call__' % cls
    where = core.relpath
    for decisions, res, exc in ex.paths:
        path = ', '.join('%s=%s' % (d[1], d[0]) for d in decisions) or 'straight'
        if exc is not None:
            rep.violation('R-GATHER', construct, where, {'raises': exc.exc_name, 'message': exc.msg[:100], 'path': path},
                          'a valid call does not raise', label, key='raises %s' % exc.exc_name)
            continue
        value, info = res
        vshape = value.shape if isinstance(value, Arr) else ()
        fv, err, fstep, index = info.f_value, info.error_estimate, info.final_step, info.index

        def items(v):
            return v.items() if isinstance(v, Arr) else [v]
        # f_value
        fitems = items(fv)
        okf = all(isinstance(e, DV) and (e.note == 'f(x)' or fshape is None) for e in fitems)
        if fshape is None:
            # elementwise f: f_value[c] depends only on x[c] and is computed by f (not by the pipeline)
            okf = all(isinstance(e, DV) and tags_of(e) == frozenset({('x', c)}) for c, e in enumerate(fitems))
        rep.check(okf, 'R-FVALUE', construct, where, {'f_value': repr(fitems[:3]), 'path': path},
                  'f_value == f(x) at the unperturbed point', label, key='fvalue')
        # nonneg
        eitems = items(err)
        bad = [repr(e) for e in eitems if not (isinstance(e, DV) and e.sign in ('nonneg', 'pos'))
               and not (isinstance(e, (int,)) and e >= 0)]
        rep.check(not bad, 'R-NONNEG', construct, where, {'error_estimate': repr(eitems[:3]), 'not_provably_nonneg': bad[:3],
                                                       'path': path}, 'error_estimate >= 0', label, key='nonneg')
        # own data
        if fshape is None and cls == 'Derivative':
            foreign = ['error_estimate[%d] depends on %s' % (c, sorted(t for t in tags_of(e) if t[0] == 'x' and t[1] != c)[:3])
                       for c, e in enumerate(eitems) if any(t[0] == 'x' and t[1] != c for t in tags_of(e))]
            rep.check(not foreign, 'R-OWNDATA', construct, where, {'foreign_dependence': foreign[:3], 'path': path},
                      'error_estimate[c] depends on element c only', label, key='owndata')
        # gather / shapes
        sitems = items(fstep)
        badsel = [repr(e) for e in sitems if not (isinstance(e, DV) and e.sel is not None and
                                                  all(t[0] == 'step' for t in e.sel))]
        eshape = err.shape if isinstance(err, Arr) else ()
        sshape = fstep.shape if isinstance(fstep, Arr) else ()
        def compatible(a, b):
            # one entry per entry of the result, broadcast-compatible with it
            from ..ndarr import broadcast_shapes, _prod, InterpValueError
            try:
                return _prod(a) == _prod(b) and _prod(broadcast_shapes(a, b)) == _prod(b)
            except InterpValueError:
                return False
        shapes_ok = (compatible(eshape, vshape) and compatible(sshape, vshape) and vshape == tuple(rshape))
        if kw.get('n') == 0:
            badsel = []      # n == 0 generates no steps (final_step is the literal zero step)
        elif cls != 'Hessian' and not badsel:
            # ... and it is a step of the coordinate the entry belongs to (x coordinate = last axis of the result)
            for p_, e in enumerate(sitems):
                coords = {t[2] for t in e.sel}
                if coords != {p_ % n}:
                    badsel.append('entry %d (coordinate %d) reports a step of coordinate(s) %s' % (p_, p_ % n, sorted(coords)))
        rep.check(not badsel and shapes_ok, 'R-GATHER', construct, where,
                  {'result_shape': list(vshape), 'expected_result_shape': list(rshape),
                   'error_estimate_shape': list(eshape), 'final_step_shape': list(sshape),
                   'final_step': repr(sitems[:2]), 'not_a_generated_step': badsel[:2], 'path': path},
                  'final_step is one of the generated steps; one entry per result entry', label, key='gather')
        # field order
        idx_items = items(index)
        order_ok = (all(isinstance(e, DV) and e.sel is None for e in eitems) and
                    all(isinstance(e, (IdxAny, int)) for e in idx_items))
        rep.check(order_ok, 'R-INFO', construct, where,
                  {'error_estimate': repr(eitems[:1]), 'final_step': repr(sitems[:1]), 'index': repr(idx_items[:1]),
                   'path': path}, 'fields (f_value, error_estimate, final_step, index) in this order', label,
                  key='info-order')
