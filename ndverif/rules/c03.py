"""C03 Jacobian, Gradient, directionaldiff: right entries and shapes for any R^n -> R^m."""
from ..srcmodel import AnalysisError
from ..algebra import Poly
from .. import ndarr
from ..ndarr import Arr, InterpRaise, Unk
from ..absint import ClassRef, Interp
from ..libmodels import Models
from ..dv import DV, tags_of, NONZERO_STEPS
from ..dvrun import explore, StepGenModel, tensor_f
from ..pipeline import Pipeline
from . import formal, e2e

RULES = {
    'R-AXES': 'abstract runs of Jacobian.__call__ over the case table {len(x) in 1..3} x {f returns (), (m,), (m,k) with '
              'm,k in {1,2,3}}: the result has shape (m, n) / (m, n, k) ((1, n) for scalar f) and entry [i, j(, l)] is '
              'built only from values of f[i(, l)] perturbed along coordinate j (and f(x))',
    'R-GRAD': 'Gradient ravels x, returns the squeezed Jacobian row: shape (x.size,) (0-d for one variable), entry j built '
              'from f perturbed along j only; with full_output only the derivative part is squeezed',
    'R-DIRDIFF': 'directionaldiff differentiates t -> f(x0 + t * v / ||v||_2) at t = 0 with the Euclidean norm of the '
                 'flattened v and v reshaped to the shape of x0',
    'R-JAC-E2E': e2e.RULE_TEXT,
}


def run(ctx):
    rep, facts = ctx.rep, ctx.facts
    rep.notes['explanation'] = (
        'Accuracy of the entries for nonlinear maps is NOT decided. Decided: (1) each of the Jacobian difference quotients '
        'perturbs exactly one coordinate by its own step component and has the Taylor signature of the scalar rule it is '
        'paired with - which makes central/complex/forward/backward exact on affine maps (R-SIGNATURE.. with '
        'LogJacobianRule, plus end-to-end runs); (2) the shape / axis bookkeeping of _expand_steps, '
        'LogJacobianRule._vstack and the final reshape for every case of the shape table, by abstract runs in the '
        'data-dependence domain; (3) Gradient ravel/squeeze; (4) the directionaldiff normalisation.')
    rep.assume('f real analytic; steps positive')
    formal.check_formal(rep, facts, ['LogJacobianRule'], ctx.tier, min_configs=10)
    for rid, text in RULES.items():
        rep.rule(rid, text, {'R-AXES': 20, 'R-GRAD': 4, 'R-DIRDIFF': 3, 'R-JAC-E2E': 8}[rid])
    # end to end (exact algebra) for Jacobian in 2 variables
    P = Pipeline(facts.repo)
    for method in ('central', 'forward', 'backward', 'complex', 'multicomplex'):
        for order in ((2, 4) if ctx.tier == 'quick' else (1, 2, 3, 4, 6)):
            e2e.run_one(rep, P, 'Jacobian', method, None, order, 'sym-min', rule_id='R-JAC-E2E', dim=2)
    axes(ctx)
    gradient(ctx)
    dirdiff(ctx)
    argview(ctx)
    from . import history
    history.run_cache_scenarios(rep, ctx.repo, 'Jacobian', 2)
    rep.rule('R-JAC-REENTRY', 'a Jacobian call that follows a call aborted by an exception in f (same or new object) equals a fresh one: no work array survives a call', 4)
    for sc in history.aborted_call_scenarios('Jacobian', 2):
        try:
            history.run_scenario(rep, ctx.repo, sc, 'R-JAC-REENTRY', 'finite_difference.JacobianDifferenceFunctions.increments', ctx.repo.module('finite_difference').relpath)
        except AnalysisError as exc:
            rep.undecided('R-JAC-REENTRY', 'finite_difference.JacobianDifferenceFunctions.increments', exc, sc.name)
    rep.notes['trusted_base'] = ['python ast', 'ndverif abstract interpreter, stencil and data-abstract domains']


def argview(ctx):
    """A user function may return its argument itself or a view of it (x -> x, x -> x[::-1], a selection of coordinates - all
    affine maps of the property): the difference quotients must not change because of that.  Each Jacobian difference function
    is run in exact algebra with the identity map returning its very argument and with the identity map returning a copy."""
    rep, facts = ctx.rep, ctx.facts
    rep.rule('R-ARGVIEW', 'every Jacobian difference function gives, for the user function that returns its argument object itself, '
             'the value it gives for the one that returns a copy (an array handed to f is not written to while a result of f is alive)', 4)
    fd = facts.repo.module('finite_difference')
    seen = {}
    for method in ('central', 'forward', 'backward', 'complex'):
        for n_, order in ((1, 2), (1, 4)):
            try:
                cfg = facts.rule_config('LogJacobianRule', method, n_, order)
            except AnalysisError:
                continue
            if cfg.get('diff') is not None:
                seen.setdefault(cfg['diff_name'], (cfg['diff'], method))
    for name, (fn, method) in sorted(seen.items()):
        label = '%s (%s)' % (name, method)
        where = fd.where(fn.node) if hasattr(fn, 'node') else fd.relpath
        try:
            results = []
            for copying in (False, True):
                xs = Arr((3,), [Poly.sym('x%d' % k) for k in range(3)])
                hs = Arr((3,), [Poly.sym('h%d' % k) for k in range(3)])
                ndarr.POSITIVE_ATOMS.update({'h0', 'h1', 'h2'})
                f = (lambda a: a.copy()) if copying else (lambda a: a)
                r = fn(f, xs.copy(), xs, hs)
                r = r if isinstance(r, Arr) else ndarr.asarr(r)
                results.append([repr(v) for v in r.items()])
        except AnalysisError as exc:
            rep.undecided('R-ARGVIEW', name, exc, label)
            continue
        except InterpRaise as exc:
            rep.violation('R-ARGVIEW', name, where, {'raises': exc.exc_name, 'message': exc.msg[:120]},
                          'the differences of the identity map', label, key='argview raises')
            continue
        finally:
            for a_ in ('h0', 'h1', 'h2'):
                ndarr.POSITIVE_ATOMS.discard(a_)
        rep.check(results[0] == results[1], 'R-ARGVIEW', name, where,
                  {'f_returns_its_argument': results[0][:9], 'f_returns_a_copy': results[1][:9]},
                  'the same differences', label, key='argview')


def out_cases(tier):
    shapes = [(), (1,), (2,), (3,), (1, 1), (1, 2), (2, 1), (2, 3)]
    if tier != 'quick':
        shapes += [(3, 2), (1, 3), (3, 1)]
    return shapes


def flat_index(idx, shape):
    k = 0
    for i, s in zip(idx, shape):
        k = k * s + i
    return k


def axes(ctx):
    rep = ctx.rep
    core = ctx.repo.module('core')
    methods = ('central', 'complex') if ctx.tier == 'quick' else ('central', 'forward', 'backward', 'complex', 'multicomplex')
    for n in (1, 2, 3):
        for fshape in out_cases(ctx.tier):
            for method in methods:
                if ctx.tier == 'quick' and method == 'complex' and (n == 3 or len(fshape) == 2 and fshape != (2, 3)):
                    continue
                axes_case(ctx, core, n, fshape, method)


def axes_case(ctx, core, n, fshape, method):
    rep = ctx.rep
    label = 'Jacobian/%s/len(x)=%d/f->%s' % (method, n, fshape)
    if len(fshape) <= 1:
        m = fshape[0] if fshape else 1
        expected = (m, n)
    else:
        expected = (fshape[0], n, fshape[1])

    def body(s):
        I = s.interp
        C = I.get_global('core', 'Jacobian')
        f = tensor_f(s, n, fshape)
        d = C(f, step=StepGenModel(num_steps=7), method=method)
        return d(s.x_array((n,)))
    ex = explore(ctx.repo, body, pinned=NONZERO_STEPS)
    construct = 'core.Jacobian.__call__'
    for decisions, res, exc in ex.paths:
        path = ', '.join('%s=%s' % (d[1], d[0]) for d in decisions) or 'straight'
        if exc is not None:
            rep.violation('R-AXES', construct, core.relpath,
                          {'raises': exc.exc_name, 'message': exc.msg[:120], 'path': path},
                          'Jacobian of f: R^%d -> R^%s has shape %s' % (n, fshape, expected), label,
                          key='raises f->%s' % (fshape,))
            continue
        shape = res.shape if isinstance(res, Arr) else ()
        problems = []
        if shape != expected:
            problems.append('shape %s' % (shape,))
        else:
            import itertools
            for idx in itertools.product(*[range(s) for s in shape]):
                e = res[idx]
                if len(expected) == 2:
                    i, j = idx
                    fi = i
                else:
                    i, j, l = idx
                    fi = flat_index((i, l), fshape)
                ftags = [t for t in tags_of(e) if t[0] == 'f']
                own = [t for t in ftags if t[1] == fi and t[2] == (j,)]
                foreign = [t for t in ftags if not (t[1] == fi and t[2] in ((j,), ()))]
                if foreign or not own:
                    problems.append('entry %s built from %s' % (idx, sorted(ftags)[:4]))
                wrong_steps = sorted(t for t in tags_of(e) if t[0] == 'hstep' and t[1] != j)
                if wrong_steps:
                    problems.append('entry %s is scaled with the step of coordinate %s' % (idx, [t[1] for t in wrong_steps]))
        rep.check(not problems, 'R-AXES', construct, core.relpath,
                  {'result_shape': list(shape), 'expected_shape': list(expected), 'problems': problems[:3], 'path': path},
                  'entry [i, j(, l)] from f[i(, l)] perturbed along j only', label, key='axes f->%s' % (fshape,))


def gradient(ctx):
    rep = ctx.rep
    core = ctx.repo.module('core')
    for xshape, full_output in (((3,), False), ((1,), False), ((2, 2), False), ((), False), ((3,), True), ((1,), True)):
        n = 1
        for s in xshape:
            n *= s

        def body(s, xshape=xshape, full_output=full_output, n=n):
            I = s.interp
            C = I.get_global('core', 'Gradient')
            f0 = tensor_f(s, n, ())

            def f(x):
                # Gradient promises a flattened x
                if not isinstance(x, Arr) or x.shape != (n,):
                    raise InterpRaise('f received x of shape %r' % (getattr(x, 'shape', None),), 'ValueError')
                return f0(x)
            d = C(f, step=StepGenModel(num_steps=7), full_output=full_output)
            return d(s.x_array(xshape))
        ex = explore(ctx.repo, body, pinned=NONZERO_STEPS)
        label = 'Gradient/x.shape=%s/full_output=%s' % (xshape, full_output)
        expected = (n,) if n > 1 else ()
        for decisions, res, exc in ex.paths:
            path = ', '.join('%s=%s' % (d[1], d[0]) for d in decisions) or 'straight'
            if exc is not None:
                rep.violation('R-GRAD', 'core.Gradient.__call__', core.relpath,
                              {'raises': exc.exc_name, 'message': exc.msg[:120], 'path': path}, 'no exception', label,
                              key='grad-raises')
                continue
            val = res[0] if full_output else res
            shape = val.shape if isinstance(val, Arr) else ()
            items = val.items() if isinstance(val, Arr) else [val]
            problems = []
            if shape != expected:
                problems.append('shape %s' % (shape,))
            else:
                for j, e in enumerate(items):
                    ftags = [t for t in tags_of(e) if t[0] == 'f']
                    if [t for t in ftags if t[2] not in ((j,), ())] or not [t for t in ftags if t[2] == (j,)]:
                        problems.append('entry %d built from %s' % (j, sorted(ftags)[:3]))
            if full_output:
                info = res[1]
                if not hasattr(info, 'error_estimate'):
                    problems.append('second element is not the info record')
            rep.check(not problems, 'R-GRAD', 'core.Gradient.__call__', core.relpath,
                      {'shape': list(shape), 'expected': list(expected), 'problems': problems[:3], 'path': path},
                      'shape (x.size,) / 0-d; entry j from f perturbed along j', label, key='grad')


def dirdiff(ctx):
    """directionaldiff in the exact algebra: capture the function handed to Derivative and evaluate it at a symbol."""
    rep = ctx.rep
    core = ctx.repo.module('core')
    def nonzero_direction(interp, node, fr, value):
        """The property speaks of non-zero v: a test whether the direction (or a component of it, each a free symbol) vanishes
        is answered 'it does not'; every other undetermined test ends the run."""
        def ev(e):
            e = e.expr if isinstance(e, Unk) else e
            if isinstance(e, bool):
                return e
            if not (isinstance(e, tuple) and e):
                return None
            if e[0] == 'not':
                r = ev(e[1])
                return None if r is None else not r
            if e[0] in ('and', 'or', 'any', 'all'):
                parts = [ev(x) for x in (e[1] if e[0] in ('any', 'all') and isinstance(e[1], (list, tuple)) else e[1:])]
                if any(p_ is None for p_ in parts) or not parts:
                    return None
                return all(parts) if e[0] in ('and', 'all') else any(parts)
            if e[0] == 'cmp' and e[1] in ('!=', '==') and ndarr.concrete_real(e[3]) == 0 and isinstance(e[2], Poly) \
                    and e[2].atoms() and all(a_.startswith('v') and a_[1:].isdigit() for a_ in e[2].atoms()):
                return e[1] == '!='
            return None
        return ev(value)
    models = Models()
    I = Interp(ctx.repo, models, branch_oracle=nonzero_direction)
    models.bind(I)
    dd = I.get_global('core', 'directionaldiff')
    Dref = I.get_global('core', 'Derivative')
    for shape in ((3,), (2, 2), (1, 3)):
        n = 1
        for s in shape:
            n *= s
        x0 = Arr(shape, [Poly.sym('x%d' % k) for k in range(n)])
        v = Arr(shape, [Poly.sym('v%d' % k) for k in range(n)])
        # (v is not zero: its largest magnitude is positive - a scale a careful implementation may divide by first)
        from ..absint import sym_minmax
        vmax = sym_minmax('max', [ndarr.s_abs(e) for e in v.items()])
        ndarr.POSITIVE_ATOMS.update(vmax.atoms())
        captured = {}

        def on_call(fn, args, kwargs, node, fr):
            if fn is Dref:
                captured['fun'] = args[0]
                captured['options'] = kwargs
                return (lambda t: ('DERIVATIVE-AT', t),)
            return None
        seen = []

        def f(arg):
            seen.append(arg)
            return Poly.sym('fval')
        I.on_call = on_call
        try:
            out = dd(f, x0, v, method='forward')
        finally:
            I.on_call = None
        problems = []
        if 'fun' not in captured or out != ('DERIVATIVE-AT', 0):
            problems.append('does not return Derivative(<line function>)(0): %r' % (out,))
        else:
            if captured['options'] != {'method': 'forward'}:
                problems.append('options not forwarded to Derivative: %r' % (captured['options'],))
            t = Poly.sym('t')
            captured['fun'](t)
            arg = seen[-1]
            if not isinstance(arg, Arr) or arg.shape != shape:
                problems.append('f receives shape %r instead of %r' % (getattr(arg, 'shape', None), shape))
            else:
                norm = models.np.linalg.norm(v.ravel())
                for k, (a, xk, vk) in enumerate(zip(arg.items(), x0.items(), v.items())):
                    want = xk + t * vk / norm
                    if not ndarr.s_cmp('==', a - want, 0) is True:
                        problems.append('component %d of the line is %r, expected x0 + t*v/||v||_2' % (k, a))
                        break
        rep.check(not problems, 'R-DIRDIFF', 'core.directionaldiff', core.where(ctx.repo.func('core', 'directionaldiff')),
                  {'x0.shape': list(shape), 'problems': problems[:2]},
                  'Derivative(t -> f(x0 + t*v/||v||_2))(0), options forwarded', 'directionaldiff/x0.shape=%s' % (shape,),
                  key='dirdiff')
