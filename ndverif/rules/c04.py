"""C04 Hessian is symmetric and correct; Hessdiag is its diagonal."""
import itertools
import math
from fractions import Fraction as Fr

from ..srcmodel import AnalysisError
from ..stages import estimates
from ..algebra import Poly, Z8
from .. import ndarr
from ..ndarr import Arr, InterpRaise
from ..absint import Closure
from ..facts import RULE_CLASSES
from ..stencil import FV, taylor_signature
from ..pipeline import Pipeline
from ..dv import DV, tags_of, NONZERO_STEPS
from ..dvrun import explore, tensor_f, StepGenModel
from . import formal, e2e

RULES = {
    'R-HESS-SIGNATURE': 'every cell (a, b) of each of the six Hessian difference quotients (dimension 2 and 3, distinct symbolic step per '
                        'coordinate): the coefficient of d2f/dx_a dx_b is exactly 1 (2 * 1/2! on the diagonal), every other derivative of '
                        'total order <= 2 has weight 0, only coordinates a and b are involved, and each remaining term of total order k '
                        'carries step**(k-2) with k - 2 in {method_order + t*richardson_step} - hence exact for quadratics',
    'R-MIRROR': 'the returned matrix is fully written and cell (b, a) is the same expression as cell (a, b) (exactly symmetric)',
    'R-HESS-ORDER': 'Hessian.__init__ default order equals LogHessianRule.order per method; (method_order, richardson_step) are (1, 1) for '
                    'one-sided and (2, 2) otherwise; the Richardson object of a call is configured with them and LogHessianRule.apply adds '
                    'no rule weights',
    'R-HESS-SHAPE': 'abstract runs in the data-dependence domain: Hessian(f)(x) has shape (n, n) with cell (a, b) built only from f '
                    'perturbed along a and b; Hessdiag(f)(x) has shape (n,) with entry a from f perturbed along a; for scalar valued f '
                    'returning a 0-d value or a length-1 array',
    'R-KIND': 'complex valued f with the real-step methods: no real-only kernel receives complex data (no TypeError on any path)',
    'R-INTDTYPE': 'integer x with an f that is integer valued there (x given as ints, polynomial f): no difference quotient input is '
                  'stored into a buffer that took an integer dtype from f(x) (numpy would truncate f(x + h) silently); abstract run '
                  'with dtype kinds, every store into an integer array is examined',
    'R-HESSDIAG-E2E': e2e.RULE_TEXT,
}


def run(ctx):
    rep, facts = ctx.rep, ctx.facts
    rep.notes['explanation'] = (
        'Accuracy for non-quadratic f is NOT decided. Decided: the exact 2-D Taylor signature of every Hessian quotient cell '
        '(so: exact on quadratics, correct scaling when the coordinates have different steps, error powers matching the '
        'Richardson stage), exact symmetry and coverage of the fill, the order tables, Hessdiag rules for all orders '
        '(table level + end to end), shapes and data dependence of Hessian / Hessdiag calls, dtype-kind flow for complex valued f.')
    rep.assume('f real analytic; steps positive')
    formal.check_formal(rep, facts, ['LogHessdiagRule'], ctx.tier, min_configs=10)
    mins = {'R-HESS-SIGNATURE': 20, 'R-MIRROR': 10, 'R-HESS-ORDER': 6, 'R-HESS-SHAPE': 8, 'R-KIND': 6, 'R-INTDTYPE': 6, 'R-HESSDIAG-E2E': 8}
    for rid, text in RULES.items():
        rep.rule(rid, text, mins[rid])
    hess_signatures(ctx)
    hess_order(ctx)
    P = Pipeline(facts.repo)
    for method in ('central', 'central2', 'forward', 'backward', 'complex', 'multicomplex'):
        for order in ((2, 4) if ctx.tier == 'quick' else (1, 2, 3, 4, 6)):
            e2e.run_one(rep, P, 'Hessdiag', method, None, order, 'sym-min', rule_id='R-HESSDIAG-E2E', dim=2)
    shapes(ctx)
    kinds(ctx)
    int_dtype(ctx)
    from . import history
    history.run_cache_scenarios(rep, ctx.repo, 'Hessdiag', 2)
    rep.notes['trusted_base'] = ['python ast', 'ndverif abstract interpreter, stencil / Taylor-signature domain, data-abstract domain']


def hess_signatures(ctx):
    rep, facts = ctx.rep, ctx.facts
    fd = facts.repo.module('finite_difference')
    core, dcls, methods, fixed = RULE_CLASSES['LogHessianRule']
    maxdeg = 6 if ctx.tier == 'quick' else 8
    for method in methods:
        cfg = facts.rule_config('LogHessianRule', method, None, None)
        fn = cfg['diff']
        if not isinstance(fn, Closure):
            rep.violation('R-HESS-SIGNATURE', 'finite_difference.LogHessianRule.diff', fd.relpath, {'diff': repr(cfg.get('diff_error'))},
                          'a Hessian difference function', 'Hessian/%s' % method, key='dispatch %s' % method)
            continue
        mo, rs = cfg['method_order'], cfg['richardson_step']
        where = fd.where(fn.node)
        for dim in (2, 3, 4) if ctx.tier == 'quick' else (2, 3, 4, 5):
            res = facts.stencil(fn, dim)
            H = res.value
            label = 'Hessian/%s/dim=%d' % (method, dim)
            if not isinstance(H, Arr) or H.shape != (dim, dim):
                rep.violation('R-MIRROR', cfg['diff_name'], where, {'shape': getattr(H, 'shape', None)}, '(n, n) matrix', label,
                              key='hess-shape')
                continue
            unwritten = [(a, b) for a in range(dim) for b in range(dim) if not isinstance(H[a, b], FV)]
            asym = [(a, b) for a in range(dim) for b in range(a + 1, dim)
                    if isinstance(H[a, b], FV) and isinstance(H[b, a], FV) and repr(H[a, b]) != repr(H[b, a])]
            rep.check(not unwritten and not asym, 'R-MIRROR', cfg['diff_name'], where,
                      {'cells_not_written_with_a_quotient': unwritten[:3], 'asymmetric_cells': asym[:3]},
                      'all cells written; H[b, a] is H[a, b]', label, key='mirror %s' % method)
            if dim > 3:
                continue          # the Taylor signatures of the cells are judged for n = 2, 3; the assembly of the matrix beyond
            for a in range(dim):
                for b in range(a, dim):
                    cell = H[a, b]
                    if not isinstance(cell, FV):
                        continue
                    sig = taylor_signature(cell, None, dim, maxdeg)
                    problems = []
                    target = tuple((1 if k == a else 0) + (1 if k == b else 0) for k in range(dim))
                    for alpha, p in sorted(sig.items()):
                        tot = sum(alpha)
                        foreign = [k for k in range(dim) if alpha[k] and k not in (a, b)]
                        if foreign:
                            problems.append('derivative along coordinate %s appears (D^%s: %r)' % (foreign, alpha, p))
                            continue
                        if alpha == target:
                            want = Poly.const(1 if a != b else 2)
                            if not (p - want).is_zero():
                                problems.append('coefficient of d2f/dx%d dx%d is %r, expected %r (divisor / scaling)'
                                                % (a, b, p, want))
                            continue
                        if tot <= 2:
                            problems.append('derivative D^%s of order <= 2 survives with weight %r' % (alpha, p))
                            continue
                        # error term: homogeneous of degree tot - 2 in the steps of a and b
                        degs = set()
                        for mono, c in p.t.items():
                            d = dict(mono)
                            if set(d) - {'h%d' % a, 'h%d' % b}:
                                problems.append('error term of D^%s depends on %s' % (alpha, sorted(d)))
                            degs.add(sum(d.values()))
                        if degs != {Fr(tot - 2)}:
                            problems.append('error term of D^%s is %r: not of degree %d in the steps' % (alpha, p, tot - 2))
                            continue
                        pe = tot - 2
                        if pe < mo or (pe - mo) % rs != 0:
                            problems.append('error power %d (D^%s) is not modelled by Richardson(order=%d, step=%d)'
                                            % (pe, alpha, mo, rs))
                    if target not in sig:
                        problems.append('no d2f/dx%d dx%d term at all' % (a, b))
                    rep.check(not problems, 'R-HESS-SIGNATURE', cfg['diff_name'], where,
                              {'cell': [a, b], 'terms_checked_to_total_order': maxdeg, 'method_order': mo,
                               'richardson_step': rs, 'problems': problems[:3]},
                              'd2f/dx_a dx_b exactly, nothing else of order <= 2, error powers modelled', label + '/cell=%d,%d' % (a, b),
                              key='hess-sig %s %s' % (method, 'diag' if a == b else 'offdiag'))


def hess_order(ctx):
    rep = ctx.rep
    core = ctx.repo.module('core')
    P = Pipeline(ctx.repo)
    I = P.interp
    for method in ('central', 'central2', 'forward', 'backward', 'complex', 'multicomplex'):
        P.clear_cache()
        obj, x = P.build('Hessian', method, None, dim=2, step=P.sym_generator('Min', num_extrap=2))
        rule = obj.attrs['fd_rule']
        order_obj = I.getattr(obj, 'order')
        mo, rs = I.getattr(rule, 'method_order'), I.getattr(rule, 'richardson_step')
        (der, h, shape), fxi = estimates(I, obj, x)
        rich = obj.attrs['richardson']
        want = (1, 1) if method in ('forward', 'backward') else (2, 2)
        has_w = any(isinstance(v, FV) and any('W' in a for inner in v.terms.values() for c in inner.values() for a in c.atoms())
                    for v in der.items())
        ok = (mo, rs) == want and I.getattr(rich, 'order') == mo and I.getattr(rich, 'step') == rs and not has_w and \
            order_obj == (1 if method in ('forward', 'backward') else 2) and tuple(shape) == (2, 2)
        # the estimates handed to the extrapolation (a plain call, full_output off): every cell of every row is the second
        # partial derivative plus higher order terms - f(x) itself and first derivatives cancel (so the value of f at x that
        # the one-sided rules need really was evaluated and passed on)
        low = []
        try:
            rows = der.shape[0]
            for r in range(min(rows, 2)):
                for c_ in range(der.shape[1]):
                    cell = der[r, c_]
                    if not isinstance(cell, FV):
                        low.append('row %d cell %d is %r' % (r, c_, cell))
                        continue
                    sig = taylor_signature(cell, None, 2, 2)
                    a_, b_ = divmod(c_, 2)
                    target = tuple((1 if k == a_ else 0) + (1 if k == b_ else 0) for k in range(2))
                    for alpha, p in sig.items():
                        if alpha != target and not p.is_zero():
                            low.append('row %d cell (%d,%d): D^%s f survives with weight %s' % (r, a_, b_, alpha, repr(p)[:60]))
        except AnalysisError as exc:
            low.append('cannot be expanded: %s' % str(exc)[:100])
        rep.check(not low, 'R-HESS-ORDER', 'core.Hessian.__call__', core.relpath, {'terms_of_order_below_two': low[:3]},
                  'no f(x) or first derivative term in the estimates of a plain call', 'Hessian/%s/plain call' % method,
                  key='hess-plain-call %s' % method)
        rep.check(ok, 'R-HESS-ORDER', 'core.Hessian.__init__', core.relpath,
                  {'order': order_obj, 'method_order': mo, 'richardson_step': rs,
                   'richardson': {k: repr(rich.attrs.get(k)) for k in ('order', 'step', 'num_terms')},
                   'rule_weights_applied': has_w, 'shape': list(shape)},
                  'order/method_order/richardson_step = %s, Richardson configured alike, pass-through apply' % (want,),
                  'Hessian/%s' % method, key='hess-order %s' % method)


def shapes(ctx):
    rep = ctx.rep
    core = ctx.repo.module('core')
    methods = ('central', 'forward', 'complex') if ctx.tier == 'quick' else ('central', 'central2', 'forward', 'backward', 'complex', 'multicomplex')
    for cls in ('Hessian', 'Hessdiag'):
        for n in (1, 2, 3):
            for fshape in ((), (1,)):
                for method in methods:
                    if ctx.tier == 'quick' and (n == 3 and method != 'central'):
                        continue
                    shape_case(ctx, core, cls, n, fshape, method)
        # a function that returns its (length-1) work array: the values taken from it must be copies, not views
        for method in ('central', 'forward', 'complex'):
            shape_case(ctx, core, cls, 2, (1,), method, reuse_buffer=True)


def shape_case(ctx, core, cls, n, fshape, method, reuse_buffer=False):
    rep = ctx.rep
    label = '%s/%s/len(x)=%d/f->%s%s' % (cls, method, n, fshape, ' (the same work array on every call)' if reuse_buffer else '')

    def body(s):
        I = s.interp
        C = I.get_global('core', cls)
        f = tensor_f(s, n, fshape, reuse_buffer=reuse_buffer)
        d = C(f, step=StepGenModel(num_steps=7), method=method)
        return d(s.x_array((n,)))
    ex = explore(ctx.repo, body, pinned=NONZERO_STEPS)
    expected = (n, n) if cls == 'Hessian' else (n,)
    key_extra = 'f->(1,)' if fshape == (1,) else 'f->()'
    if reuse_buffer:
        # the provenance of every entry must be what it is for a function that returns a fresh array each time: a value kept
        # as a *view* of the returned array silently changes with the next evaluation
        def body_fresh(s):
            I = s.interp
            C = I.get_global('core', cls)
            d = C(tensor_f(s, n, fshape), step=StepGenModel(num_steps=7), method=method)
            return d(s.x_array((n,)))
        ex0 = explore(ctx.repo, body_fresh, pinned=NONZERO_STEPS)
        fresh = {tuple((d[0], d[1]) for d in dec): r for dec, r, exc in ex0.paths if exc is None}
        diffs = []
        for dec, r, exc in ex.paths:
            r0 = fresh.get(tuple((d[0], d[1]) for d in dec))
            if exc is not None or r0 is None or not isinstance(r, Arr) or not isinstance(r0, Arr) or r.shape != r0.shape:
                continue
            for k_, (a_, b_) in enumerate(zip(r.items(), r0.items())):
                ta = {t for t in tags_of(a_) if t[0] == 'f'}
                tb = {t for t in tags_of(b_) if t[0] == 'f'}
                if ta != tb:
                    diffs.append('entry %d built from %s, with a fresh array per call from %s' % (k_, sorted(ta)[:3], sorted(tb)[:3]))
                    break
        rep.check(not diffs, 'R-HESS-SHAPE', 'core.%s.__call__' % cls, core.relpath, {'paths': len(ex.paths), 'differences': diffs[:2]},
                  'the same evaluations enter every entry as for a function returning fresh arrays', label + '/aliasing',
                  key='%s aliasing' % cls)
    for decisions, res, exc in ex.paths:
        path = ', '.join('%s=%s' % (d[1][:30], d[0]) for d in decisions) or 'straight'
        if exc is not None:
            rep.violation('R-HESS-SHAPE', 'core.%s.__call__' % cls, core.relpath,
                          {'raises': exc.exc_name, 'message': exc.msg[:120], 'path': path},
                          'scalar valued f (0-d or length-1 array) is accepted', label,
                          key='%s raises for %s' % (cls, key_extra))
            continue
        shape = res.shape if isinstance(res, Arr) else ()
        problems = []
        if shape != expected:
            problems.append('shape %s' % (shape,))
        else:
            for idx in itertools.product(*[range(s) for s in shape]):
                allowed = set(idx)
                ft = [t for t in tags_of(res[idx]) if t[0] == 'f']
                if [t for t in ft if not set(t[2]) <= allowed] or not [t for t in ft if set(t[2]) == allowed]:
                    problems.append('entry %s built from %s' % (idx, sorted(ft)[:3]))
        rep.check(not problems, 'R-HESS-SHAPE', 'core.%s.__call__' % cls, core.relpath,
                  {'shape': list(shape), 'expected': list(expected), 'problems': problems[:3], 'path': path},
                  'shape %s, entries from f perturbed along their own coordinates' % (expected,), label,
                  key='%s shape %s' % (cls, key_extra))


def int_dtype(ctx):
    rep = ctx.rep
    core = ctx.repo.module('core')
    for cls in ('Hessian', 'Hessdiag', 'Gradient'):
        for method in ('central', 'forward', 'backward', 'complex') + (('central2',) if cls == 'Hessian' else ()):
            truncated = []

            def hook(arr, v, k, truncated=truncated):
                truncated.append('%s value %r stored into an integer array of shape %s' % ({'f': 'float', 'c': 'complex'}[k], v, arr.shape))

            def body(s, cls=cls, method=method):
                I = s.interp
                C = I.get_global('core', cls)
                f = tensor_f(s, 2, (), kind="f", exact_kind="i")
                d = C(f, method=method)
                return d(s.x_array((2,), kind='i'))
            ndarr.CAST_HOOK = hook
            try:
                ex = explore(ctx.repo, body, pinned=NONZERO_STEPS)
            finally:
                ndarr.CAST_HOOK = None
            bad = [{'raises': exc.exc_name, 'message': exc.msg[:100]} for d, r, exc in ex.paths if exc is not None]
            rep.check(not bad and not truncated, 'R-INTDTYPE', 'core.%s.__call__' % cls, core.relpath,
                      {'paths': len(ex.paths), 'truncating_stores': sorted(set(truncated))[:2], 'exceptions': bad[:2]},
                      'function values are kept in floating point buffers', '%s/%s/integer x, integer f(x)' % (cls, method),
                      key='intdtype %s' % cls)


def kinds(ctx):
    rep = ctx.rep
    core = ctx.repo.module('core')
    for cls in ('Hessian', 'Hessdiag', 'Derivative'):
        for method in ('central', 'forward', 'backward') + (('central2',) if cls != 'Derivative' else ()):
            def body(s, cls=cls, method=method):
                I = s.interp
                C = I.get_global('core', cls)
                if cls == 'Derivative':
                    f = s.elementwise_f(kind='c')
                    d = C(f, method=method, n=2)
                    return d(s.x_array((2,)))
                f = tensor_f(s, 2, (), kind='c')
                d = C(f, method=method)
                return d(s.x_array((2,)))
            ex = explore(ctx.repo, body, pinned=NONZERO_STEPS)
            bad = [{'raises': exc.exc_name, 'message': exc.msg[:100]} for d, r, exc in ex.paths if exc is not None]
            rep.check(not bad, 'R-KIND', 'limits._Limit._add_error_to_outliers', ctx.repo.module('limits').relpath,
                      {'paths': len(ex.paths), 'exceptions': bad[:2]},
                      'complex valued f with a real-step method is processed without TypeError', '%s/%s/complex valued f' % (cls, method),
                      key='kind %s' % cls)
