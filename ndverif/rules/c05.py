"""C05 The function is only evaluated where the chosen method promises."""
from ..dv import NONZERO_STEPS
from ..stages import estimates
from fractions import Fraction as Fr

from ..srcmodel import AnalysisError, NotAnOffset
from ..algebra import Poly, Z8
from .. import ndarr
from ..ndarr import Arr, InterpRaise
from ..absint import Closure
from ..facts import RULE_CLASSES
from ..stencil import offsets_of
from . import formal


def coef_components(p):
    """Poly offset entry -> list of (monomial, Z8 coefficient)"""
    return list(p.t.items())


def classify_offset(off):
    """off: tuple of Poly (one per coordinate).  Returns dict with
    nz (coordinates displaced), real_sign set, has_real, has_imag, has_j, maxabs (Fraction bound on the
    modulus of any of the four real components relative to the step)."""
    info = {'nz': [], 'signs': set(), 'has_real': False, 'has_imag': False, 'has_j': False,
            'maxcomp': Fr(0), 'nonlinear': False}
    for k, p in enumerate(off):
        if p.is_zero():
            continue
        info['nz'].append(k)
        for mono, c in p.t.items():
            # offsets must be linear in exactly one positive step atom
            if len(mono) != 1 or mono[0][1] != 1 or mono[0][0] not in ndarr.POSITIVE_ATOMS:
                info['nonlinear'] = True
            for b in (0, 1):
                cb = c.comp(b)
                if cb.is_zero():
                    continue
                if b == 1:
                    info['has_j'] = True
                (re, rq), (im, iq) = cb.re_im()
                rez = Z8.of(re) + Z8.SQRT2 * Z8.of(rq)
                imz = Z8.of(im) + Z8.SQRT2 * Z8.of(iq)
                if not rez.is_zero():
                    if b == 0:
                        info['has_real'] = True
                        info['signs'].add(rez.sign_real())
                    else:
                        info['has_imag'] = True      # the j component is an imaginary direction
                if not imz.is_zero():
                    info['has_imag'] = True
                for z in (rez, imz):
                    # |p + q sqrt2| <= |p| + 1.5|q|
                    (p_, q_), _ = z.re_im()
                    bound = abs(p_) + Fr(3, 2) * abs(q_)
                    if bound > info['maxcomp']:
                        info['maxcomp'] = bound
    return info


def neg_offset(off):
    return tuple(-p for p in off)


RULES = {
    'R-ADMISSIBLE': "for every (class, method, configuration class) the dispatched quotient calls f only at admissible "
                    "points: forward - real offsets >= 0 in every coordinate; backward - real offsets <= 0; central - "
                    "real offsets whose multiset is closed under negation; default first-derivative complex and "
                    "multicomplex - offsets without a real component (the real part of every argument is exactly x)",
    'R-SUPPORT': 'every evaluation point differs from x in at most one coordinate (Gradient/Jacobian/Hessdiag) or two '
                 '(Hessian), linearly in the step of that coordinate with component modulus <= 2 steps',
    'R-EVALSITES': 'in an abstract end-to-end run of the whole call (not only of the difference quotient) every evaluation of the user function is at x or at a point '
                   'admissible for the method - nothing else in the pipeline evaluates f elsewhere (judged by the offsets, whoever the caller is)',
    'R-UNTOUCHED': 'in every evaluation of a multivariate f the coordinates that are not being perturbed are the original x[k] '
                   'themselves (selection provenance in the data-abstract domain: copied, never recomputed): a work array that is '
                   'incremented and restored, (x + h) - h, is not x in floating point and leaves earlier coordinates off by an ulp - '
                   'so at most one coordinate (two for the Hessian) differs from x in any call',
    'R-STEPSIGN': 'every step produced by the default and the Min/Max generators for positive base step and ratio is '
                  'positive, and a zero step is never yielded',
}


def run(ctx):
    rep, facts = ctx.rep, ctx.facts
    rep.notes['explanation'] = (
        'All clauses of C05 are structural. Every difference quotient is run in the abstract interpreter with a '
        'symbolic f; every call of f is recorded with its exact offset from x (in Q(zeta8)[j][h]); the offsets are '
        'classified per (class, method, dispatch class). The dispatch table is enumerated over all configuration '
        'classes (n, order) and dimensions 1..3. Evaluation sites are taken from end-to-end abstract runs of '
        '_derivative_nonzero_order / _derivative_zero_order.')
    rep.assume('the step generator yields positive real steps when base step and ratio are positive (checked for '
               'the three library generators under R-STEPSIGN; a user supplied negative base_step is outside the claim)')
    for rid, text in RULES.items():
        rep.rule(rid, text, {'R-ADMISSIBLE': 25, 'R-SUPPORT': 25, 'R-EVALSITES': 10, 'R-STEPSIGN': 4, 'R-UNTOUCHED': 8}[rid])
    fd = facts.repo.module('finite_difference')
    seen = {}
    for rule_cls, (core, dcls, methods, fixed) in RULE_CLASSES.items():
        meths, ns, orders = formal.config_space(ctx.tier, rule_cls)
        for method in meths:
            for n in ns:
                for order in orders:
                    n_arg = n if rule_cls in ('LogRule', 'LogJacobianRule') else None
                    cfg = facts.rule_config(rule_cls, method, n_arg, order)
                    if cfg['diff'] is None:
                        continue
                    key = (core, method, cfg['diff_name'])
                    seen.setdefault(key, (cfg, []))[1].append('n=%d/order=%d' % (cfg['n'], order))
    formal.check_nuse_forms(rep, facts)
    for (core, method, dname), (cfg, cfgs) in sorted(seen.items()):
        fn = cfg['diff']
        if not isinstance(fn, Closure):
            raise AnalysisError('dispatch of %s/%s is not a function' % (core, method))
        where = fd.where(fn.node)
        dims = [None] if core == 'Derivative' else ([1, 2, 3] if ctx.tier == 'quick' else [1, 2, 3, 4])
        default_complex = (method == 'complex' and any(c.startswith('n=1/order=2') or c.startswith('n=1/order=1')
                                                       or c.startswith('n=1/order=3') for c in cfgs))
        for dim in dims:
          try:
              res0 = facts.stencil(fn, dim)
          except NotAnOffset as exc:
              # the point handed to f is not x plus something that does not depend on x (a clipped, rounded or rescaled
              # x): shown by two concrete x.  No clause of the property can hold for such a point at every x
              rep.check(False, 'R-ADMISSIBLE', dname, where, {'point': str(exc)[:240], 'witness': exc.witness},
                        'every evaluation point is x + an offset made of the steps only',
                        '%s/%s/dim=%s (%d configuration classes, e.g. %s)' % (core, method, dim, len(cfgs), cfgs[0]),
                        key='admissible %s %s' % (core, method))
              continue
          # every outcome of a branch on the values of f gives its own set of evaluation points: each one is judged
          for alt_text, res in [('', res0)] + list(res0.alternatives):
            label = '%s/%s/dim=%s (%d configuration classes, e.g. %s)%s' % (core, method, dim, len(cfgs), cfgs[0],
                                                                           ('/when ' + alt_text) if alt_text else '')
            offs = [o for o in offsets_of(res)]
            infos = [(o, classify_offset(o[0])) for o in offs]
            fact = {'points': [tuple(repr(p) for p in o[0]) for o in offs][:12], 'n_points': len(offs)}
            # ---- support
            maxc = 2 if core == 'Hessian' else 1
            bad = []
            for o, inf in infos:
                if len(inf['nz']) > maxc or inf['nonlinear'] or inf['maxcomp'] > 2:
                    bad.append(tuple(repr(p) for p in o[0]))
                # each coordinate must be displaced by its own step component
                if dim is not None:
                    for k in inf['nz']:
                        atoms = o[0][k].atoms()
                        if atoms != {'h%d' % k}:
                            bad.append(tuple(repr(p) for p in o[0]))
            width = max([inf['maxcomp'] for _, inf in infos] or [Fr(0)])
            rep.check(not bad, 'R-SUPPORT', dname, where,
                      dict(fact, stencil_width=str(width), max_coordinates=maxc, offending=bad[:4]),
                      'at most %d displaced coordinate(s), each by (a multiple <= 2 of) its own step' % maxc,
                      label, key='support %s %s' % (core, method))
            # ---- admissibility
            viol = []
            if method == 'forward':
                viol = [o for o, inf in infos if inf['signs'] - {1} or inf['has_imag'] or inf['has_j']]
                exp = 'all offsets real and >= 0'
            elif method == 'backward':
                viol = [o for o, inf in infos if inf['signs'] - {-1} or inf['has_imag'] or inf['has_j']]
                exp = 'all offsets real and <= 0'
            elif method in ('central', 'central2'):
                keys = {o[0] for o in offs}
                viol = [o for o, inf in infos if inf['has_imag'] or inf['has_j'] or
                        (inf['nz'] and neg_offset(o[0]) not in keys)]
                exp = 'offsets real and in pairs symmetric about x'
            elif method == 'multicomplex':
                viol = [o for o, inf in infos if inf['has_real']]
                exp = 'no offset has a real component (real part of every argument is x)'
            elif method == 'complex' and default_complex and dname.endswith('._complex'):
                viol = [o for o, inf in infos if inf['has_real']]
                exp = 'default first-derivative complex rule: purely imaginary offsets'
            else:
                exp = 'complex higher order rules: no one-sidedness promised (offsets recorded)'
            rep.check(not viol, 'R-ADMISSIBLE', dname, where,
                      dict(fact, inadmissible=[tuple(repr(p) for p in o[0]) for o in viol][:4],
                           first_bad_call_site=viol[0][1] if viol else None),
                      exp, label, key='admissible %s %s' % (core, method))
    evalsites(ctx)
    untouched(ctx)
    after_setter(ctx)
    stepsign(ctx)
    rep.notes['exhaustive'] = True
    rep.notes['trusted_base'] = ['python ast', 'ndverif abstract interpreter and numpy summaries']


ALLOWED_AT_X = ('core.Derivative._eval_first', 'core.Jacobian._derivative_nonzero_order',
                'core.Derivative._derivative_zero_order')


def evalsites(ctx):
    """End-to-end runs: who calls the user function, and where."""
    from ..pipeline import Pipeline
    rep, facts = ctx.rep, ctx.facts
    core_mod = facts.repo.module('core')
    P = Pipeline(facts.repo)
    I = P.interp
    combos = []
    for method in ('central', 'forward', 'backward', 'complex', 'multicomplex'):
        for n in ((0, 1, 2, 3, 4) if method != 'multicomplex' else (0, 1, 2)):
            combos.append(('Derivative', method, n, None))
        combos.append(('Jacobian', method, None, 2))
        combos.append(('Gradient', method, None, 2))
    for method in ('central', 'central2', 'forward', 'backward', 'complex', 'multicomplex'):
        combos.append(('Hessdiag', method, None, 2))
        combos.append(('Hessian', method, None, 2))
    for cls, method, n, dim in combos:
        for full_output in (False, True):
            P.clear_cache()
            gen = P.sym_generator('Min')
            obj, x = P.build(cls, method, None if cls == 'Hessian' else 2, n=n, step=gen, dim=dim,
                             full_output=full_output)
            sites = []
            user_f = obj.attrs['fun']

            def traced(arg, *a, _f=user_f, **k):
                stack = [q for q in I.stack if not q.endswith('export_fun')]
                sites.append((stack[-1] if stack else '?', None))
                r = _f(arg, *a, **k)
                sites[-1] = (sites[-1][0], P.calls[-1][0])
                return r
            obj.attrs['fun'] = traced
            label = '%s/%s/n=%s/full_output=%s' % (cls, method, n, full_output)
            try:
                estimates(I, obj, x)
            except NotAnOffset as exc:
                rep.check(False, 'R-EVALSITES', 'core.%s._derivative' % cls, core_mod.relpath,
                          {'point': str(exc)[:240], 'witness': exc.witness},
                          'every evaluation of the whole call is at x or at a point admissible for the method', label, key='evalsite')
                continue
            except AnalysisError as exc:
                rep.undecided('R-EVALSITES', 'core.%s._derivative' % cls, exc, label)
                continue
            # every point at which f was evaluated in the whole call, whoever called it: x itself, or a point that obeys the
            # promise of the method (judged by the offsets, not by the names of the calling functions)
            offs, seen = [], set()
            for site, off in sites:
                if off not in seen:
                    seen.add(off)
                    offs.append(off)
            infos = [(o, classify_offset(tuple(p for p in o if isinstance(p, Poly)))) for o in offs]
            moved = [(o, inf) for o, inf in infos if inf['nz']]
            if method == 'forward':
                bad = [o for o, inf in moved if inf['signs'] - {1} or inf['has_imag'] or inf['has_j']]
            elif method == 'backward':
                bad = [o for o, inf in moved if inf['signs'] - {-1} or inf['has_imag'] or inf['has_j']]
            elif method in ('central', 'central2'):
                keys = set(offs)
                bad = [o for o, inf in moved if inf['has_imag'] or inf['has_j'] or neg_offset(o) not in keys]
            elif method == 'multicomplex' or (method == 'complex' and (cls in ('Jacobian', 'Gradient') or (cls == 'Derivative' and n == 1))):
                bad = [o for o, inf in moved if inf['has_real']]
            else:
                bad = []
            rep.check(bool(sites) and not bad, 'R-EVALSITES', 'core.%s._derivative' % cls, core_mod.relpath,
                      {'calls': len(sites), 'distinct_points': len(offs), 'sites': sorted({s_ for s_, _ in sites}),
                       'inadmissible': [tuple(repr(p) for p in o) for o in bad][:4]},
                      'every evaluation of the whole call is at x or at a point admissible for the method', label, key='evalsite')


def untouched(ctx):
    from ..dvrun import explore, tensor_f, StepGenModel
    from ..dv import tags_of
    rep = ctx.rep
    core_mod = ctx.repo.module('core')
    for cls, fshape, maxc in (('Jacobian', (2,), 1), ('Gradient', (), 1), ('Hessdiag', (), 1), ('Hessian', (), 2)):
        methods = ('central', 'forward', 'backward', 'complex') + (('central2',) if cls in ('Hessian', 'Hessdiag') else ())
        for method in methods:
            seen = []

            def body(s, cls=cls, fshape=fshape, method=method, seen=seen):
                I = s.interp
                C = I.get_global('core', cls)
                inner = tensor_f(s, 3, fshape)

                def f(x, *a, **k):
                    r = inner(x, *a, **k)
                    for v in (r.items() if hasattr(r, 'items') else [r]):
                        for t in tags_of(v):
                            if t[0] == 'f':
                                seen.append(tuple(t[2]))
                    return r
                d = C(f, method=method, step=StepGenModel(num_steps=7))
                return d(s.x_array((3,)))
            try:
                ex = explore(ctx.repo, body, pinned=NONZERO_STEPS)
            except AnalysisError as exc:
                rep.undecided('R-UNTOUCHED', 'core.%s.__call__' % cls, exc, '%s/%s' % (cls, method))
                continue
            raised = [exc.exc_name for d_, r_, exc in ex.paths if exc is not None]
            worst = sorted({p for p in seen if len(p) > maxc})
            rep.check(bool(seen) and not worst and not raised, 'R-UNTOUCHED', 'core.%s.__call__' % cls, core_mod.relpath,
                      {'evaluations': len(seen), 'coordinates_differing_from_x_in_one_call': [list(p) for p in worst[:3]], 'raised': raised[:2]},
                      'at most %d coordinate(s) of the argument differ from x' % maxc, '%s/%s/len(x)=3' % (cls, method),
                      key='untouched %s' % cls)


def after_setter(ctx):
    """The promise of the *current* method holds after `obj.method = ...` on a used object."""
    from ..pipeline import Pipeline
    rep, facts = ctx.rep, ctx.facts
    core_mod = facts.repo.module('core')
    rep.rule('R-ADMISSIBLE-SETTER', 'after changing the method of a used object the evaluation points obey the promise of the new '
             'method (forward >= 0, backward <= 0, central symmetric, complex / multicomplex without real component)', 6)
    pairs = [('central', 'forward'), ('central', 'backward'), ('forward', 'backward'), ('backward', 'forward'),
             ('forward', 'central'), ('central', 'complex'), ('complex', 'multicomplex')]
    for cls, dim in (('Derivative', None), ('Jacobian', 2), ('Hessdiag', 2), ('Hessian', 2)):
        for m1, m2 in pairs:
            if m2 == 'complex' and cls in ('Hessdiag', 'Hessian'):
                continue     # only the default first-derivative complex rule promises purely imaginary steps
            P = Pipeline(facts.repo)
            I = P.interp
            gen = P.sym_generator('Min')
            try:
                obj, x = P.build(cls, m1, None if cls == 'Hessian' else 2, n=(1 if cls == 'Derivative' else None), step=gen, dim=dim)
                estimates(I, obj, x)
                I.setattr(obj, 'method', m2)
                del P.calls[:]
                estimates(I, obj, x)
            except InterpRaise as exc:
                rep.violation('R-ADMISSIBLE-SETTER', 'core.%s.method (setter)' % cls, core_mod.relpath,
                              {'raises': exc.exc_name, 'message': exc.msg[:100]}, 'the call succeeds', '%s/%s->%s' % (cls, m1, m2),
                              key='setter raises')
                continue
            except AnalysisError as exc:
                rep.undecided('R-ADMISSIBLE-SETTER', 'core.%s.method (setter)' % cls, exc, '%s/%s->%s' % (cls, m1, m2))
                continue
            offs = []
            seen = set()
            for key, where, kind in P.calls:
                if key not in seen:
                    seen.add(key)
                    offs.append(key)
            infos = [(o, classify_offset(tuple(p for p in o if isinstance(p, Poly)))) for o in offs]
            if m2 == 'forward':
                bad = [o for o, inf in infos if inf['signs'] - {1} or inf['has_imag'] or inf['has_j']]
            elif m2 == 'backward':
                bad = [o for o, inf in infos if inf['signs'] - {-1} or inf['has_imag'] or inf['has_j']]
            elif m2 == 'central':
                keys = set(offs)
                bad = [o for o, inf in infos if inf['has_imag'] or inf['has_j'] or (inf['nz'] and neg_offset(o) not in keys)]
            else:
                bad = [o for o, inf in infos if inf['has_real']]
            rep.check(not bad, 'R-ADMISSIBLE-SETTER', 'core.%s.method (setter)' % cls, core_mod.relpath,
                      {'points': [tuple(repr(p) for p in o) for o in offs][:6], 'inadmissible': [tuple(repr(p) for p in o) for o in bad][:3]},
                      'evaluation points of method %s' % m2, '%s/%s->%s' % (cls, m1, m2), key='setter %s' % m2)


def stepsign(ctx):
    from ..pipeline import Pipeline
    rep, facts = ctx.rep, ctx.facts
    sg = facts.repo.module('step_generators')
    P = Pipeline(facts.repo)
    I = P.interp
    x = Poly.sym('x')
    for kind in ('Min', 'Max'):
        for variant in ('default', 'symbolic base/ratio', 'offset=-2', 'offset=3'):
            cref = I.get_global('step_generators', kind + 'StepGenerator')
            if variant == 'default':
                gen = cref()
            elif variant == 'symbolic base/ratio':
                gen = cref(base_step=Poly.sym('h'), step_ratio=Poly.sym('r'), num_steps=4)
            else:
                gen = cref(base_step=Poly.sym('h'), step_ratio=Poly.sym('r'), num_steps=4,
                           offset=int(variant.split('=')[1]))
            for method, n, order in (('forward', 1, 2), ('central', 2, 2), ('complex', 4, 4)):
                steps = list(gen(x, method, n, order))
                def sign_of(v):
                    if isinstance(v, ndarr.Choice):
                        sa, sb = sign_of(v.a), sign_of(v.b)
                        return sa if sa == sb else None          # the sign depends on an undetermined condition
                    if isinstance(v, ndarr.Unk):
                        return None
                    return ndarr.poly_sign(Poly.of(v))
                signs = [sign_of(v) for s in steps for v in (s.items() if isinstance(s, Arr) else [s])]
                rep.check(bool(steps) and all(s == 1 for s in signs), 'R-STEPSIGN',
                          'step_generators.%sStepGenerator.__call__' % kind, sg.relpath,
                          {'steps': [repr(s) for s in steps][:4], 'count': len(steps), 'signs': signs[:6]},
                          'every generated step is a positive monomial in the positive atoms',
                          '%s/%s/%s n=%d' % (kind, variant, method, n), key='stepsign %s' % kind)
    # the zero filter: a zero base step must yield nothing (instead of a division by zero later)
    for kind in ('Min', 'Max'):
        cref = I.get_global('step_generators', 'Basic%sStepGenerator' % kind)
        gen = cref(base_step=0, step_ratio=2, num_steps=3)
        steps = list(gen())
        rep.check(steps == [], 'R-STEPSIGN', 'step_generators.Basic%sStepGenerator.__call__' % kind, sg.relpath,
                  {'steps_for_zero_base_step': [repr(s) for s in steps]}, 'zero steps are dropped',
                  'Basic%s/base_step=0' % kind, key='zero-filter %s' % kind)
