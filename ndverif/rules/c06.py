"""C06 Finite-difference rules are exact to their stated order and match Richardson."""
from . import formal


def run(ctx):
    rep = ctx.rep
    rep.notes['explanation'] = (
        'Formal (exact arithmetic) part of C06, decided for every configuration class of '
        '(rule class, method in {central, forward, backward, complex}, n, order) with a symbolic step ratio: '
        'the dispatched difference quotient is interpreted abstractly (stencil extraction, exact Taylor '
        'signature in Q(zeta8)), rule() and _fd_matrix are interpreted abstractly (moment matrix as monomials '
        'in the ratio, pseudo inverse kept symbolic), and the identities of DESIGN.md B2 are checked. '
        'Not decided: conditioning / rounding of linalg.pinv.')
    rep.assume('step ratio r > 1 and distinct exponents make the generalised Vandermonde moment matrix '
               'non-singular, so pinv is the inverse (trusted mathematical step)')
    rep.assume('f real analytic at real x (formal Taylor series)')
    n = formal.check_formal(rep, ctx.facts, ['LogRule', 'LogJacobianRule', 'LogHessdiagRule'], ctx.tier,
                            methods=('central', 'central2', 'forward', 'backward', 'complex'))
    rep.notes['configurations'] = n
    rep.notes['exhaustive'] = True
    from . import history
    history.check_cache_seed(rep, ctx.repo)
    history.run_cache_scenarios(rep, ctx.repo, 'Derivative', None)
    # the rule object is mutable (n, order, method setters write through to it): the rule used after a setter is the one of
    # a fresh object with the final configuration
    rep.rule('R-SETTER', 'after assigning n / order / method on an object that was already used, the difference quotient, the rule and '
             'the Richardson parameters are those of a freshly constructed object with the final configuration (abstract run in '
             'the function-value domain, shared with C09)', 10)
    fd = ctx.repo.module('finite_difference')
    from ..srcmodel import AnalysisError
    for sc in history.setter_scenarios('Derivative', None, ctx.tier):
        try:
            history.run_scenario(rep, ctx.repo, sc, 'R-SETTER', 'finite_difference.LogRule', fd.relpath)
        except AnalysisError as exc:
            rep.undecided('R-SETTER', 'finite_difference.LogRule', exc, sc.name)
    rep.notes['trusted_base'] = ['python ast', 'ndverif abstract interpreter and exact algebra',
                                 'generalised Vandermonde non-singularity', 'pinv(A) == inv(A) for invertible A']
