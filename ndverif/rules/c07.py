"""C07 Richardson extrapolation removes exactly the modelled error terms."""
from fractions import Fraction as Fr

from ..srcmodel import AnalysisError
from ..algebra import Poly, Z8
from .. import ndarr
from ..ndarr import Arr, InterpRaise
from ..absint import Interp
from ..libmodels import Models
from ..pipeline import PinvRegistry, column_exponents, ASSUMED_POSITIVE
from ..dv import DV, tags_of
from ..dvrun import explore

RULES = {
    'R-EXTRAP': 'abstract run of Richardson(step_ratio=r, step, order, num_terms)(sequence, steps) on the model sequence '
                'L + sum_j a_j h_i^(order + step*j), h_i = h r^-i, symbolic L, a_j, h, r (real or complex r): every output '
                'slot equals L plus only the terms j >= (number of terms used); the coefficient of L is exactly one',
    'R-SHORT': 'a sequence of length N is handled with min(num_terms, N - 1) terms; outputs are the first '
               'N - (terms used) slots of values, error estimates and steps',
    'R-AXIS0': 'columns of a 2-d sequence are treated independently (output column c only contains the symbols of input column c)',
    'R-RMATRIX': 'the abstractly evaluated _r_matrix has a first column of ones and entry (i, 1+j) = r^(-i*(order + step*j)); '
                 'rule() is row 0 of its pseudo inverse (or ones(1) for 0 terms)',
    'R-NONNEG': 'error estimates are provably non-negative on all three branches of _estimate_error',
}


def make(repo):
    reg = PinvRegistry()
    models = Models(hooks={'linalg.pinv': reg.hook, 'linalg.lstsq': reg.lstsq_hook, 'linalg.inv': reg.hook})
    from ..pipeline import finite_values_oracle
    I = Interp(repo, models, branch_oracle=finite_values_oracle)      # the symbolic parameters stand for finite numbers
    models.bind(I)
    ndarr.POSITIVE_ATOMS.clear()
    ndarr.POSITIVE_ATOMS.update(ASSUMED_POSITIVE)
    ndarr.POSITIVE_ATOMS.add('s')             # the second step ratio of the reuse scenarios: a ratio has modulus above 1
    return I, models, reg


def run(ctx):
    rep = ctx.rep
    rep.notes['explanation'] = (
        'Rounding / conditioning of the pseudo inverse is NOT decided. Decided: the formal statement of C07 for a '
        'symbolic step ratio (real, or complex zeta8*r), every exponent spacing 1..4, leading order, number of terms '
        '0..4 and sequence lengths 1..terms+3, by abstract interpretation of Richardson.__call__ (rule, _r_matrix, the '
        'convolve wrapper with the convolve1d summary, trimming) on a symbolic model sequence; the pseudo inverse is '
        'kept symbolic with W*M = I applied afterwards.')
    rep.assume('distinct nodes r^-k make the matrix non-singular, so pinv is the inverse (trusted)')
    mins = {'R-EXTRAP': 40, 'R-SHORT': 40, 'R-AXIS0': 40, 'R-RMATRIX': 20, 'R-NONNEG': 6}
    for rid, text in RULES.items():
        rep.rule(rid, text, mins[rid])
    ex = ctx.repo.module('extrapolation')
    orders = (1, 2, 4) if ctx.tier == 'quick' else (1, 2, 3, 4, 6, 8)
    steps_ = (1, 2, 4) if ctx.tier == 'quick' else (1, 2, 3, 4)
    terms = (0, 1, 2, 3) if ctx.tier == 'quick' else (0, 1, 2, 3, 4, 5)
    for cplx in (False, True):
        for step in steps_:
            for order in orders:
                for nt in terms:
                    if cplx and (order not in (1, 2) or step not in (1, 4)):
                        continue
                    lengths = sorted({1, 2, nt, nt + 1, nt + 3} - {0})
                    if ctx.tier == 'quick':
                        lengths = sorted({1, nt + 1, nt + 3} | ({nt} if nt > 1 else set()))
                    for N in lengths:
                        one(ctx, ex, cplx, step, order, nt, N)
    vector(ctx, ex)
    reuse(ctx, ex)
    nonneg(ctx, ex)
    rep.notes['trusted_base'] = ['python ast', 'ndverif abstract interpreter', 'convolve1d summary (DESIGN section 7)',
                                 'Vandermonde non-singularity']


def one(ctx, ex, cplx, step, order, nt, N):
    rep = ctx.rep
    I, models, reg = make(ctx.repo)
    R = I.get_global('extrapolation', 'Richardson')
    r = Poly.sym('r') * (Poly.const(Z8.ZETA) if cplx else 1)
    h = Poly.sym('h')
    ncol = 2
    J = nt + 2           # number of error terms in the model sequence (two beyond the modelled ones)
    label = 'ratio=%s/step=%d/order=%d/num_terms=%d/len=%d' % ('zeta8*r' if cplx else 'r', step, order, nt, N)
    rows, hs = [], []
    for i in range(N):
        hi = h * r ** (-i)
        hs.append([hi] * ncol)
        row = []
        for c in range(ncol):
            v = Poly.sym('L%d' % c)
            for j in range(J):
                v = v + Poly.sym('a%d_%d' % (c, j)) * hi ** (order + step * j)
            row.append(v)
        rows.append(row)
    seq = Arr((N, ncol), [v for row in rows for v in row])
    steps = Arr((N, ncol), [v for row in hs for v in row])
    construct = 'extrapolation.Richardson.__call__'
    where = ex.relpath
    try:
        obj = R(step_ratio=r, step=step, order=order, num_terms=nt)
        out, err, st = obj(seq, steps)
    except InterpRaise as exc:
        rep.violation('R-SHORT', construct, where, {'raises': exc.exc_name, 'message': exc.msg[:120]},
                      'a sequence of any length >= 1 is accepted', label, key='raises')
        return
    used = min(nt, N - 1)
    m = N - used
    shapes = {'values': getattr(out, 'shape', None), 'errors': getattr(err, 'shape', None),
              'steps': getattr(st, 'shape', None)}
    ok_short = all(s == (m, ncol) for s in shapes.values())
    if ok_short:
        ok_short = all((Poly.of(st[i, c]) - hs[i][c]).is_zero() for i in range(m) for c in range(ncol))
    rep.check(ok_short, 'R-SHORT', construct, where, {'shapes': {k: list(v) if v else None for k, v in shapes.items()},
                                                      'expected_slots': m, 'terms_used': used},
              'N - min(num_terms, N-1) output slots; steps are the leading steps', label,
              key='short' if not (used == 0 and N >= 2 and shapes['values'] == (m, ncol) and shapes['steps'] == (m, ncol)
                                  and shapes['errors'] == (m - 1, ncol)) else 'short: no terms used, N >= 2: one error estimate missing')
    if shapes['values'] != (m, ncol):
        return
    # matrix structure
    if used > 0:
        if len(reg.mats) != 1:
            rep.violation('R-RMATRIX', 'extrapolation.Richardson.rule', where, {'pinv_calls': len(reg.mats)},
                          'one pseudo inverse per call', label, key='rmatrix-calls')
            return
        M = list(reg.mats.values())[0]
        cols = None
        for cand in (M, M.T):
            try:
                cols = column_exponents(cand, 'r') if not cplx else column_exponents_c(cand)
            except AnalysisError:
                cols = None
            if cols is not None:
                break
        if cols is None:
            # another arrangement of the linear system: the semantic rule R-EXTRAP decides
            rep.ok('R-RMATRIX', 'extrapolation.Richardson._r_matrix', where,
                   {'structure': 'not recognised as (transposed) Vandermonde-type matrix; decided by R-EXTRAP'}, label)
            cols, skip_struct = [], True
        else:
            skip_struct = False
        want = [Fr(0)] + [Fr(order + step * j) for j in range(used)]
        if not skip_struct:
            okm = M.shape == (used + 1, used + 1) and [k for k, _ in cols] == want and \
                all(c.const_value() == Z8.ONE for _, c in cols)
            rep.check(okm, 'R-RMATRIX', 'extrapolation.Richardson._r_matrix', where,
                      {'shape': list(M.shape), 'exponents': [str(k) for k, _ in cols] if cols else None,
                       'expected': [str(k) for k in want]}, 'columns 1, r^-(order+step*j)', label, key='rmatrix')
    else:
        rep.ok('R-RMATRIX', 'extrapolation.Richardson.rule', where, {'terms_used': 0, 'rule': 'ones(1)'}, label)
    problems, cross = [], []
    for i in range(m):
        for c in range(ncol):
            p = out[i, c]
            if not isinstance(p, Poly):
                problems.append('slot (%d,%d) is %r' % (i, c, p))
                continue
            data_atoms = sorted(a for a in p.atoms() if (a.startswith('L') or a.startswith('a')) and a[1:2].isdigit())
            foreign = [a for a in data_atoms if int(a[1]) != c]
            if foreign:
                cross.append('slot (%d,%d) contains %s' % (i, c, foreign[:3]))
            covered = Poly.const(0)
            for a in data_atoms:
                coef = p.coeff_of(a, 1)
                covered = covered + coef * Poly.sym(a)
                res, unres, notes = reg.resolve(coef)
                if a == 'L%d' % c:
                    if not unres.is_zero() or not (res - 1).is_zero():
                        problems.append('slot (%d,%d): coefficient of L is %r (+ %r unresolved), expected 1' % (i, c, res, unres))
                elif a.startswith('a%d_' % c):
                    j = int(a.split('_')[1])
                    if j < used and not (res.is_zero() and unres.is_zero()):
                        problems.append('slot (%d,%d): modelled error term %s survives with weight %r' % (i, c, a, res + unres))
            if not (p - covered).is_zero():
                problems.append('slot (%d,%d): terms not linear in the sequence: %r' % (i, c, p - covered))
    rep.check(not problems, 'R-EXTRAP', construct, where, {'slots': m * ncol, 'terms_used': used, 'problems': problems[:3]},
              'every slot: L exactly, modelled error terms annihilated', label, key='extrap')
    rep.check(not cross, 'R-AXIS0', construct, where, {'cross_column_terms': cross[:3]},
              'column c only depends on column c', label, key='axis0')


def vector(ctx, ex):
    """A 1-d sequence is one column: same slots and values as the (N, 1) column."""
    rep = ctx.rep
    construct, where = 'extrapolation.Richardson.__call__', ex.relpath
    for order, step, nt, N in ((1, 1, 1, 3), (2, 2, 2, 5), (1, 1, 2, 2), (2, 1, 0, 1), (4, 2, 1, 4)):
        label = '1-d sequence/step=%d/order=%d/num_terms=%d/len=%d' % (step, order, nt, N)
        outs = []
        for as_column in (False, True):
            I, models, reg = make(ctx.repo)
            R = I.get_global('extrapolation', 'Richardson')
            r, h = Poly.sym('r'), Poly.sym('h')
            vals, hs = [], []
            for i in range(N):
                hi = h * r ** (-i)
                hs.append(hi)
                v = Poly.sym('L0')
                for j in range(nt + 2):
                    v = v + Poly.sym('a0_%d' % j) * hi ** (order + step * j)
                vals.append(v)
            shape = (N, 1) if as_column else (N,)
            try:
                out, err, st = R(step_ratio=r, step=step, order=order, num_terms=nt)(Arr(shape, list(vals)), Arr(shape, list(hs)))
            except InterpRaise as exc:
                rep.violation('R-AXIS0', construct, where, {'raises': exc.exc_name, 'message': exc.msg[:100]},
                              'a 1-d sequence is accepted', label, key='vector raises')
                outs = None
                break
            outs.append((out, err, st, reg))
        if not outs:
            continue
        (o1, e1, s1, reg1), (o2, e2, s2, reg2) = outs
        used = min(nt, N - 1)
        m = N - used
        problems = []
        if getattr(o1, 'shape', None) != (m,) or getattr(s1, 'shape', None) != (m,):
            problems.append('shapes %s / %s for a vector of length %d, expected (%d,)' % (getattr(o1, 'shape', None), getattr(s1, 'shape', None), N, m))
        elif any(type(v).__name__ == '_Border' for v in list(o1.items()) + list(getattr(o2, 'items', lambda: [])())):
            problems.append('an output slot comes from a convolution window that left the sequence (it depends on the boundary mode)')
        elif getattr(o2, 'shape', None) == (m, 1):
            a = [repr(reg1.resolve(Poly.of(v))[:2]) for v in o1.items()]
            b = [repr(reg2.resolve(Poly.of(v))[:2]) for v in o2.items()]
            if a != b:
                problems.append('values differ from those of the (N, 1) column: %s vs %s' % (a[0][:60], b[0][:60]))
        rep.check(not problems, 'R-AXIS0', construct, where, {'problems': problems[:2]},
                  'N - terms slots, the values of the single column', label, key='vector')


def reuse(ctx, ex):
    """A Richardson object that was used before and then reconfigured behaves like a fresh one."""
    rep = ctx.rep
    rep.rule('R-REUSE', 'after rule() / __call__ were used and step_ratio, step, order or num_terms were reassigned, the object '
             'extrapolates with the new parameters: the abstract result equals that of a freshly constructed object', 4)
    where = ex.relpath

    def seq_for(r, order, step, N, ncol=1):
        h = Poly.sym('h')
        rows, hs = [], []
        for i in range(N):
            hi = h * r ** (-i)
            v = Poly.sym('L')
            for j in range(4):
                v = v + Poly.sym('a%d' % j) * hi ** (order + step * j)
            rows.append(v)
            hs.append(hi)
        return Arr((N, 1), rows), Arr((N, 1), hs)
    cases = [(dict(step_ratio=Poly.sym('r'), step=1, order=1, num_terms=2), dict(step_ratio=Poly.sym('s'))),
             (dict(step_ratio=Poly.sym('r'), step=1, order=1, num_terms=2), dict(step=2, order=2)),
             (dict(step_ratio=Fr(2), step=2, order=2, num_terms=2), dict(step_ratio=Fr(4))),
             (dict(step_ratio=Poly.sym('r'), step=1, order=2, num_terms=1), dict(num_terms=2)),
             (dict(step_ratio=Poly.sym('r'), step=1, order=1, num_terms=2), dict(order=3))]
    # .. and a call on a short sequence (fewer terms can be used) leaves nothing behind for the next, longer one
    cases += [(dict(step_ratio=Poly.sym('r'), step=1, order=1, num_terms=2), {'short first sequence': 2}),
              (dict(step_ratio=Fr(2), step=2, order=2, num_terms=3), {'short first sequence': 1})]
    for first, change in cases:
        label = 'Richardson(%s) ; use ; set %s ; use' % (', '.join('%s=%r' % kv for kv in sorted(first.items())),
                                                       ', '.join('%s=%r' % kv for kv in sorted(change.items())))
        try:
            I, models, reg = make(ctx.repo)
            R = I.get_global('extrapolation', 'Richardson')
            obj = R(**first)
            change = dict(change)
            n_first = change.pop('short first sequence', 5)
            s0, h0 = seq_for(first['step_ratio'], first['order'], first['step'], n_first)
            I.getattr(obj, 'rule')()
            out0 = obj(s0, h0)
            if n_first < 5:
                # the short call itself (made after rule() was asked for the full length) gives what a fresh object gives
                I0, models0, reg0 = make(ctx.repo)
                fresh0 = I0.get_global('extrapolation', 'Richardson')(**first)(s0, h0)
                g0, w0 = canon_out(out0, reg), canon_out(fresh0, reg0)
                rep.check(g0 == w0, 'R-REUSE', 'extrapolation.Richardson', where,
                          {'same_as_fresh_object': g0 == w0, 'after_rule()': repr(g0)[:200] if g0 != w0 else '', 'fresh': repr(w0)[:200] if g0 != w0 else ''},
                          'identical abstract result', label + ' (the short call)', key='reuse')
            final = dict(first)
            for k, v in change.items():
                I.setattr(obj, k, v)
                final[k] = v
            s1, h1 = seq_for(final['step_ratio'], final['order'], final['step'], 5)
            out1 = obj(s1, h1)
            got = canon_out(out1, reg)
            I2, models2, reg2 = make(ctx.repo)
            R2 = I2.get_global('extrapolation', 'Richardson')
            out2 = R2(**final)(s1, h1)
            want = canon_out(out2, reg2)
        except InterpRaise as exc:
            rep.violation('R-REUSE', 'extrapolation.Richardson', where, {'raises': exc.exc_name, 'message': exc.msg[:100]},
                          'no exception', label, key='reuse raises')
            continue
        rep.check(got == want, 'R-REUSE', 'extrapolation.Richardson', where,
                  {'same_as_fresh_object': got == want, 'after_reuse': repr(got)[:200] if got != want else '', 'fresh': repr(want)[:200] if got != want else ''},
                  'identical abstract result', label, key='reuse')


def canon_out(out, reg):
    from ..pipeline import canon_value
    return canon_value(tuple(out), reg)


def column_exponents_c(M):
    """column_exponents for a complex ratio zeta8*r: divide the unit out."""
    n_rows, n_cols = M.shape
    out = []
    for j in range(n_cols):
        k = None
        for i in range(n_rows):
            e = Poly.of(M[i, j])
            if not e.is_monomial():
                return None
            (mono, c), = e.t.items()
            d = dict(mono)
            if set(d) - {'r'}:
                return None
            ex = -d.get('r', Fr(0))
            if ex.denominator != 1:
                return None
            if c != Z8.ZETA ** int(-ex) if ex else c != Z8.ONE:
                return None
            if i == 1:
                k = ex
            elif i > 1 and ex != i * k:
                return None
        out.append((k if k is not None else Fr(0), Poly.const(1)))
    return out


def nonneg(ctx, ex):
    """All three branches of _estimate_error in the sign domain."""
    rep = ctx.rep
    # steps: positive (the finite-difference pipeline), of either sign (a limit taken from below), complex (a spiral path)
    for N, nt, cplx, hkind in ((1, 2, False, 'pos'), (2, 2, False, 'pos'), (3, 2, False, 'pos'), (6, 2, False, 'pos'), (2, 0, False, 'pos'),
                               (5, 3, False, 'pos'), (4, 3, False, 'pos'), (3, 2, True, 'pos'), (6, 2, True, 'pos'), (5, 3, True, 'pos'),
                               (1, 2, False, 'signed'), (2, 2, False, 'signed'), (4, 2, False, 'signed'),
                               (1, 2, True, 'complex'), (2, 2, True, 'complex'), (4, 2, True, 'complex')):
        def body(s, N=N, nt=nt, cplx=cplx, hkind=hkind):
            I = s.interp
            R = I.get_global('extrapolation', 'Richardson')
            kind = 'c' if cplx else 'f'
            seq = Arr((N, 2), [DV({('x', c)}, kind) for i in range(N) for c in range(2)])
            steps = Arr((N, 2), [DV({('x', c)}, 'c' if hkind == 'complex' else 'f', 'pos' if hkind == 'pos' else 'any')
                                 for i in range(N) for c in range(2)])
            ratio = Poly.sym('r') * (Poly.const(Z8.ZETA) if cplx else 1)       # a complex ratio (spiral path) gives complex weights
            return R(step_ratio=ratio, step=1, order=1, num_terms=nt)(seq, steps)
        exr = explore(ctx.repo, body)
        bad = []
        for decisions, res, exc in exr.paths:
            if exc is not None:
                bad.append('raises %s' % exc.exc_name)
                continue
            err = res[1]
            for e in (err.items() if isinstance(err, Arr) else [err]):
                if not (isinstance(e, DV) and e.sign in ('nonneg', 'pos') and e.kind not in ('c', 'z')):
                    bad.append(repr(e))
        rep.check(not bad, 'R-NONNEG', 'extrapolation.Richardson._estimate_error', ex.relpath,
                  {'paths': len(exr.paths), 'not_provably_nonneg': bad[:3]}, 'abserr is real and >= 0',
                  'len=%d/num_terms=%d%s%s' % (N, nt, '/complex ratio and data' if cplx else '',
                                               '' if hkind == 'pos' else '/%s steps' % hkind),
                  key='nonneg' if hkind == 'pos' else 'nonneg: one estimate, steps not positive')
