"""C08 Array inputs are handled elementwise and keep their shape; extra arguments are forwarded."""
from ..srcmodel import AnalysisError
from ..ndarr import Arr, InterpRaise
from ..dv import DV, tags_of, DataDependentInt, NONZERO_STEPS
from ..dvrun import explore, bicomplex_aware

# whole-array predicates (control dependence on more than one element) that are accepted, with the reason.  An entry names
# the kind of test and which library kernel the function that contains it feeds - not its source text or its name, so that
# `np.any(m)` and `m.any()` are the same entry and a renamed / moved function keeps its entry; a test of another kind, or in a
# function that uses none of these kernels, is reported and has to be read.
CONTROL_EXCEPTIONS = {
    ('module step_generators', 'zero-test'): 'basic generators: a whole step row is dropped when any element has a zero step; with '
                                             'the library default base steps (>= 1.7e-15) and step_nom >= 1 no step is zero, so the '
                                             'filter is column-uniform; answered "keep" in the runs (limitation recorded in DESIGN.md)',
    ('percentile', 'nan-test'): 'in the outlier screen (the function that calls np.percentile / nanpercentile): only selects '
                                'nanpercentile vs percentile, which agree on every NaN-free column (library model)',
    ('nanargmin', 'nan-test'): 'in the selection of the best estimate (the function that calls np.nanargmin, or whose result '
                               'indexes the flattened tables): only gates a warning and a treatment of columns without any '
                               'number, so columns that are not all-NaN are untouched (R-ARGMIN checks exactly that)',
    ('percentile', 'dtype-test'): 'dtype only',
    ('convolve1d', 'dtype-test'): 'dtype only (the function that applies the Richardson rule with convolve1d)',
}
KERNEL_ALIASES = {'nanpercentile': 'percentile'}
SELECTION_ROLE = set()      # qualified names of the function found by selection_function(): it is 'the function that calls
                            # np.nanargmin' of the table above however it is implemented


def control_exception(info, kind):
    """info: Explorer.site_info entry (function, kind, logical shape, names called by the enclosing function)"""
    fn = info[0] if info else ''
    calls = {KERNEL_ALIASES.get(c, c) for c in (info[3] if info and len(info) > 3 else ())}
    if fn in SELECTION_ROLE or any(fn.startswith(q + '.') for q in SELECTION_ROLE):
        calls.add('nanargmin')
    for (key, k), why in CONTROL_EXCEPTIONS.items():
        if k != kind:
            continue
        if key.startswith('module '):
            if fn.split('.')[0] == key.split()[1]:
                return why
        elif key in calls:
            return why
    return None


RULES = {
    'R-COLSEP': 'in an abstract run of Derivative.__call__ with an elementwise f, output element c depends (data '
                'dependence through every numpy operation of the pipeline) only on input element c and on the extra '
                'call arguments; the only whole-array predicates steering control flow are the tabled exceptions',
    'R-SHAPE': 'the derivative (and every full_output field) has the shape of x, for x of rank 0..3',
    'R-ARGMIN': 'selection of the best estimate per element (the function whose result indexes the flattened tables, or that '
                'applies an arg-min kernel, and that names the smallest entry of each column of a table of numbers by flat index '
                'or by row): run on concrete tables with one all-NaN column and one column holding two numbers and a NaN, it names '
                'the smaller number of the second column in the same way - an invalid estimate of one element is never selected '
                'because another element has none, however the selection is implemented',
    'R-FORWARD': 'every evaluation of the user function receives the *args and **kwds of the call unchanged',
}


def run(ctx):
    rep = ctx.rep
    rep.notes['explanation'] = (
        'Derivative.__call__ is interpreted abstractly in a data-dependence domain (each array element carries the '
        'set of inputs it may depend on, dtype kind and sign) with concrete shapes; both sides of every '
        'undetermined branch are analysed. Bit-identity of third party kernels across array shapes is trusted '
        '(column-wise numpy/scipy routines compute each column independently).')
    rep.assume('numpy/scipy axis=0 kernels (convolve1d, percentile, nanargmin, nanmin, diff) treat columns independently')
    for rid, text in RULES.items():
        rep.rule(rid, text, {'R-COLSEP': 12, 'R-SHAPE': 12, 'R-FORWARD': 12, 'R-ARGMIN': 6}[rid])
    core = ctx.repo.module('core')
    shapes = [(), (1,), (3,), (2, 2), 'T(3, 2)'] if ctx.tier == 'quick' else [(), (1,), (3,), (2, 2), (2, 1, 2), (1, 3), 'T(3, 2)', 'T(2, 2)']
    configs = [('central', 1, 2), ('central', 2, 2), ('forward', 1, 2), ('backward', 2, 3), ('complex', 1, 2),
               ('complex', 3, 2), ('multicomplex', 1, 2), ('multicomplex', 2, 2), ('central', 0, 2)]
    if ctx.tier != 'quick':
        configs += [('central', 3, 4), ('forward', 4, 2), ('complex', 2, 4), ('complex', 6, 2), ('backward', 1, 1)]
    n_runs = 0
    for shape in shapes:
        for method, n, order in configs:
            for full_output in (False, True):
                if ctx.tier == 'quick' and full_output and shape == (2, 2) and method not in ('central', 'complex'):
                    continue
                if ctx.tier == 'quick' and shape == (1,) and (method, n) not in (('central', 1), ('complex', 1), ('forward', 1)):
                    continue
                one(ctx, core, shape, method, n, order, full_output)
                n_runs += 1
    for method in ('central', 'complex'):
        one(ctx, core, (2,), method, 1, 2, False, tuple_arg=True)
    rep.notes['runs'] = n_runs
    argmin_table(ctx)
    rep.notes['control_exception_table'] = {'%s: %s' % k: v for k, v in CONTROL_EXCEPTIONS.items()}
    rep.notes['trusted_base'] = ['python ast', 'ndverif abstract interpreter, data-dependence domain and numpy summaries']


def selection_function(lim):
    """The stage that selects the best estimate, found by what it does and not by its name.  Two exact descriptions, either
    of which may apply to a given tree: (a) its result indexes the flattened tables in the function that calls it
    (`table.flat[result]`, `np.take(table, result)`); (b) it applies an arg-min kernel of numpy to its argument.
    -> [(qualname, FunctionDef, ClassInfo or None)], every function that fits one of the descriptions"""
    import ast
    from ..srcmodel import functions_calling
    members = {}
    for name, node in lim.funcs.items():
        members.setdefault(name, []).append(('%s.%s' % (lim.name, name), node, None))
    holders = [(node, None) for node in lim.funcs.values()]
    for ci in lim.classes.values():
        for name, entries in ci.own_members().items():
            for kind, node in entries:
                if isinstance(node, ast.FunctionDef):
                    members.setdefault(name, []).append(('%s.%s.%s' % (lim.name, ci.name, name), node, ci))
                    holders.append((node, ci))
    found = {}
    for node, ci in holders:
        made_by = {}
        for sub in ast.walk(node):
            if isinstance(sub, ast.Assign) and len(sub.targets) == 1 and isinstance(sub.targets[0], ast.Name) and \
                    isinstance(sub.value, ast.Call):
                fn = sub.value.func
                callee = fn.attr if isinstance(fn, ast.Attribute) else (fn.id if isinstance(fn, ast.Name) else None)
                if callee in members:
                    made_by[sub.targets[0].id] = callee
        for sub in ast.walk(node):
            used = None
            if isinstance(sub, ast.Subscript) and isinstance(sub.value, ast.Attribute) and sub.value.attr == 'flat' and \
                    isinstance(sub.slice, ast.Name):
                used = sub.slice.id
            elif isinstance(sub, ast.Call) and isinstance(sub.func, ast.Attribute) and sub.func.attr == 'take' and \
                    len(sub.args) == 2 and isinstance(sub.args[1], ast.Name):
                used = sub.args[1].id
            if used in made_by:
                for cand in members[made_by[used]]:
                    found[cand[0]] = cand + ('role',)
    for cand in functions_calling(lim, ('nanargmin', 'argmin')):
        found.setdefault(cand[0], cand + ('kernel',))
    return sorted(found.values(), key=lambda c: c[0])


class NaNC(object):
    """A concrete NaN in a table of numbers: every comparison with it is false, only != is true."""
    is_elem_ = True

    def isnan_(self):
        return True

    def kind_(self):
        return 'f'

    def __repr__(self):
        return 'NaN'

    def cmp_(self, op, other):
        return op == '!='
    rcmp_ = cmp_

    def _b(self, *a):
        return self
    __add__ = __radd__ = __sub__ = __rsub__ = __mul__ = __rmul__ = __truediv__ = __rtruediv__ = __neg__ = _b
    abs_ = real_ = imag_ = _b


def _concrete_key(v):
    import math
    from .. import ndarr
    from ..algebra import Poly
    if getattr(v, 'isnan_', None) is not None and v.isnan_() is True:
        return math.nan
    c = ndarr.concrete_real(v)
    if c is not None:
        return c
    if isinstance(v, Poly):
        inf = Poly.sym('inf')
        if (v - inf).is_zero():
            return math.inf
        if (v + inf).is_zero():
            return -math.inf
    raise AnalysisError('a min / max kernel applied to a value that is not a number of the table: %r' % (v,))


def _concrete_kernel(name):
    """numpy's (nan)(arg)min / max on tables of concrete numbers, NaN and +-inf - with numpy's rules: the plain kernels
    return the first NaN, the nan-aware ones skip NaN and raise ValueError (arg) or return NaN on a column without numbers"""
    import math
    from ..ndarr import InterpValueError
    nanaware, arg, big = name.startswith('nan'), 'arg' in name, name.endswith('max')

    def fn(col):
        keys = [_concrete_key(v) for v in col]
        idx = list(range(len(col)))
        if nanaware:
            idx = [i for i in idx if not math.isnan(keys[i])]
            if not idx:
                if arg:
                    raise InterpValueError('All-NaN slice encountered')
                return col[0]
        else:
            nans = [i for i in idx if math.isnan(keys[i])]
            if nans:
                return nans[0] if arg else col[nans[0]]
        best = idx[0]
        for i in idx[1:]:
            if (keys[i] > keys[best]) if big else (keys[i] < keys[best]):
                best = i
        return best if arg else col[best]

    def hook(models, a, axis=None, **kw):
        if kw.get('keepdims'):
            raise AnalysisError('np.%s with keepdims' % name)
        res = models._reduce(a, axis, fn, name)
        if kw.get('out') is not None:
            models.np_copyto(kw['out'], res)
            return kw['out']
        return res
    return hook


def argmin_table(ctx):
    from ..absint import Interp
    from ..libmodels import Models
    from .. import ndarr
    rep = ctx.rep
    lim = ctx.repo.module('limits')
    cands = selection_function(lim)
    hooks = {'np.' + nm: _concrete_kernel(nm) for nm in ('nanargmin', 'nanargmax', 'argmin', 'argmax', 'nanmin', 'nanmax',
                                                         'min', 'max', 'amin', 'amax')}
    nan = NaNC()

    def run_on(node, owner, col):
        models = Models(hooks=hooks)
        I = Interp(ctx.repo, models)
        models.bind(I)
        first = [nan, nan, nan] if col is not None else [4, 9, 6]
        col = col if col is not None else [5, 2, 7]
        out = I.closure_for(lim, node, owner)(Arr((3, 2), [first[0], col[0], first[1], col[1], first[2], col[2]]))
        if isinstance(out, Arr) and out.shape == (2,):
            return ndarr.concrete_real(out[1]), out
        return None, out

    judged = 0
    for qual, node, owner, how in cands:
        where = lim.where(node)
        # what the function returns for a table of numbers only tells how it names a row of a column: by the flat index into
        # the table or by the row; a function that does neither is not the selection (it only shares a kernel with it)
        try:
            plain, _ = run_on(node, owner, None)
        except InterpRaise as exc:
            if how == 'role':
                # its result is used as the selection by its caller, and it cannot handle a plain table of numbers
                judged += 1
                rep.violation('R-ARGMIN', qual, where, {'raises': exc.exc_name, 'message': exc.msg[:100]},
                              'a selection', 'table of numbers without NaN', key='argmin raises')
            continue
        except AnalysisError:
            continue
        if plain == 1 * 2 + 1:
            name_of = lambda r: r * 2 + 1
        elif plain == 1:
            name_of = lambda r: r
        else:
            continue
        judged += 1
        # column 0 has no valid estimate; column 1 has two and one NaN - in every position, with the smaller one above and below
        for col in ([nan, 5, 2], [nan, 2, 5], [7, nan, 2], [2, nan, 7], [5, 2, nan], [2, 5, nan]):
            label = 'table with an all-NaN column and the column %r' % (col,)
            want = name_of(min((r for r in range(3) if col[r] is not nan), key=lambda r: col[r]))
            try:
                got, out = run_on(node, owner, col)
            except InterpRaise as exc:
                rep.violation('R-ARGMIN', qual, where, {'raises': exc.exc_name, 'message': exc.msg[:100]},
                              'a selection', label, key='argmin raises')
                continue
            except AnalysisError as exc:
                rep.undecided('R-ARGMIN', qual, exc, label)
                continue
            rep.check(got is not None and got == want, 'R-ARGMIN', qual, where,
                      {'returned': repr(out), 'smallest_valid_estimate_is_named': want},
                      'the smallest estimate that is not NaN, named as in a table without NaN', label, key='argmin table')
    if not judged:
        raise AnalysisError('anchor vanished: no function of limits.py selects the smallest entry of each column of a table of '
                            'numbers (candidates: %s)' % [c[0] for c in cands])


def one(ctx, core, shape, method, n, order, full_output, rule_as=None, tuple_arg=False):
    rep = ctx.rep
    SELECTION_ROLE.clear()
    SELECTION_ROLE.update(c[0] for c in selection_function(ctx.repo.module('limits')))
    rid = (lambda r: rule_as) if rule_as else (lambda r: r)       # another property's check may file the results under its own rule
    transposed = isinstance(shape, str)
    if transposed:
        base_shape = tuple(int(v) for v in shape[2:-1].split(','))[::-1]      # a transposed (Fortran ordered) view
        shape = base_shape[::-1]
    label = 'Derivative/%s/n=%d/order=%d/x.shape=%s%s/full_output=%s' % (method, n, order, shape, ' (transposed view)' if isinstance(shape, str) else '', full_output)
    marker = DV({('arg', 0)}, 'f')
    if tuple_arg:
        # one extra argument that is itself a tuple (a pair of coefficients, say): it is an argument, not an argument list
        marker = (DV({('arg', 0)}, 'f'), DV({('arg', 1)}, 'f'))
        label += '/the extra argument is a tuple'
    kwmarker = DV({('kw', 'a')}, 'f')
    holder = {}

    def body(s):
        I = s.interp
        D = I.get_global('core', 'Derivative')
        f = bicomplex_aware(s, s.elementwise_f())
        d = D(f, method=method, n=n, order=order, full_output=full_output)
        if transposed:
            xb = s.x_array(base_shape)
            # element identities follow the *logical* position in the transposed array
            x = xb.transpose()
            for c, p in enumerate(x.pos):
                x.buf.data[p] = DV({('x', c)}, 'f', 'any', sel={('x', c)})
        else:
            x = s.x_array(shape)
        holder['calls'] = s.fcalls
        # a first call with other arguments: the checked call must not see anything of it
        xprev = Arr(x.shape, [DV({('x-first-call', c)}, 'f', 'any', sel={('x-first-call', c)}) for c in range(x.size)])
        d(xprev, DV({('arg-first-call', 0)}, 'f'), a=DV({('kw-first-call', 'a')}, 'f'))
        # ... and one at the same x with other arguments, one at another x with the same arguments
        # (a one-entry memo is only hit by the directly preceding call: alternate which of the two comes last)
        if (n + order + len(shape)) % 2:
            d(xprev, marker, a=kwmarker)
            d(x, DV({('arg-second-call', 0)}, 'f'), a=DV({('kw-second-call', 'a')}, 'f'))
        else:
            d(x, DV({('arg-second-call', 0)}, 'f'), a=DV({('kw-second-call', 'a')}, 'f'))
            d(xprev, marker, a=kwmarker)
        del s.fcalls[:]
        res = d(x, marker, a=kwmarker)
        return res, list(s.fcalls)
    construct = 'core.Derivative.__call__'
    where = core.relpath
    try:
        ex = explore(ctx.repo, body, pinned=NONZERO_STEPS)
    except DataDependentInt as exc:
        cols = sorted({t for t in exc.tags if t[0] == 'x'} | {t for t in exc.tags if '-call' in str(t[0])})
        # which elements of which call the integer was computed from (the run stops in the first call that needs it, so tags of
        # that call alone are its own data): several elements, or data of two different calls, is the violation
        elems = {(str(t[0]), t[1]) for t in exc.tags if str(t[0]) == 'x' or str(t[0]).startswith('x-')}
        calls_seen = {str(t[0]).split('-', 1)[1] if '-' in str(t[0]) else 'checked call' for t in exc.tags
                      if str(t[0]) == 'x' or '-call' in str(t[0])}
        if len(elems) > 1 or len(calls_seen) > 1:
            rep.violation(rid('R-COLSEP'), construct, where, {'data_dependent_integer': str(exc)[:200], 'depends_on': [str(t) for t in cols[:4]]},
                          'no index / slice bound computed from several elements steers the computation of all of them', label,
                          key='control data dependent integer')
        else:
            rep.undecided(rid('R-COLSEP'), construct, exc, label)
        return
    except AnalysisError as exc:
        # the run could not be completed.  If a call of the user function recorded so far did not get the extra arguments of
        # the call in their places (a marker object where x belongs, x where the marker belongs), that is the finding - and
        # quite possibly the reason why the rest could not be interpreted
        def proper(c):
            a, k = c['args'], c['kwds']
            return (len(a) == 1 and isinstance(a[0], (DV, tuple) if tuple_arg else DV) and all(str(t[0]).startswith('arg') for t in tags_of(a[0])) and
                    list(k) == ['a'] and isinstance(k['a'], DV) and all(str(t[0]).startswith('kw') for t in tags_of(k['a'])))
        wrong = [i for i, c in enumerate(holder.get('calls') or []) if not proper(c)]
        if not wrong:
            raise
        c = holder['calls'][wrong[0]]
        rep.violation(rid('R-FORWARD'), construct, where,
                      {'f_calls_recorded': len(holder['calls']), 'calls_with_wrong_arguments': wrong[:5],
                       'extra_positional_arguments_received': [type(v).__name__ for v in c['args']][:3],
                       'keywords_received': sorted(c['kwds'])[:3], 'example_site': c['stack'][-2:], 'then': str(exc)[:120]},
                      'each call of f gets (x, *args, **kwds) of the call', label, key='forward')
        return
    size = 1
    for sdim in shape:
        size *= sdim
    for decisions, res, exc in ex.paths:
        path = ', '.join('%s=%s' % (d[1], d[0]) for d in decisions) or 'straight'
        if exc is not None:
            rep.violation(rid('R-SHAPE'), construct, where, {'raises': exc.exc_name, 'message': exc.msg[:100], 'path': path},
                          'an elementwise f on an array x does not raise', label, key='raises %s' % exc.exc_name)
            continue
        value, calls = res
        fields = {'derivative': value}
        if full_output:
            value, info = value
            fields = {'derivative': value}
            for nm in ('f_value', 'error_estimate', 'final_step', 'index'):
                fields[nm] = getattr(info, nm)
        # shape
        # (info.index is a flat index per column and is not covered by the property)
        bad_shape = {k: getattr(v, 'shape', ()) for k, v in fields.items()
                     if k != 'index' and (getattr(v, 'shape', ()) if isinstance(v, Arr) else ()) != tuple(shape)}
        rep.check(not bad_shape, rid('R-SHAPE'), construct, where,
                  {'x_shape': list(shape), 'field_shapes': {k: list(getattr(v, 'shape', ())) for k, v in fields.items()},
                   'path': path}, 'every returned field has the shape of x', label, key='shape')
        # data dependence
        bad = []
        for nm, v in fields.items():
            items = v.items() if isinstance(v, Arr) else [v]
            if len(items) != size:
                continue
            for c, e in enumerate(items):
                t = tags_of(e)
                foreign = {x for x in t if (x[0] == 'x' and x[1] != c) or '-call' in str(x[0])}
                if foreign:
                    bad.append('%s[%d] depends on %s' % (nm, c, sorted(foreign)))
        rep.check(not bad, rid('R-COLSEP'), construct, where,
                  {'violations': bad[:4], 'path': path, 'sample': repr((fields['derivative'].items() if isinstance(fields['derivative'], Arr) else [fields['derivative']])[:2])},
                  'element c depends only on x[c] (and the call arguments)', label, key='colsep')
        # forwarding
        wrong = [i for i, c in enumerate(calls) if not (len(c['args']) == 1 and c['args'][0] is marker and
                                                         list(c['kwds']) == ['a'] and c['kwds']['a'] is kwmarker)]
        rep.check(calls and not wrong, rid('R-FORWARD'), construct, where,
                  {'f_calls': len(calls), 'calls_with_wrong_arguments': wrong[:5],
                   'example_site': calls[wrong[0]]['stack'][-2:] if wrong else None, 'path': path},
                  'each call of f gets (x', label, key='forward')
    # control dependence
    for (text, where_p), tags in ex.control_predicates().items():
        cols = {t for t in tags if t[0] == 'x'}
        info = ex.site_info.get((text, where_p), ('', 'other'))
        fn_q, kind = info[:2]
        if len(cols) > 1 and control_exception(info, kind) is None:
            rep.violation(rid('R-COLSEP'), construct, where_p, {'predicate': text, 'in_function': fn_q, 'kind': kind,
                                                                'depends_on_elements': len(cols)},
                          'no whole-array predicate steers the computation (tabled exceptions: %s)'
                          % sorted('%s: %s' % k for k in CONTROL_EXCEPTIONS), label, key='control %s' % text)
