"""C09 Results depend only on (function, point, configuration), not on history."""
import ast

from ..srcmodel import AnalysisError, enclosing_class
from ..stages import estimates
from ..algebra import Poly
from ..ndarr import Arr, InterpRaise
from ..absint import Obj, ClassRef
from ..pipeline import Pipeline
from ..dv import DV, tags_of, NONZERO_STEPS
from ..dvrun import explore, bicomplex_aware
from . import history

RULES = {
    'R-HISTORY': 'for every operation sequence of the scenario table (reuse of an object after changing / restoring n, order, '
                 'method; a step generator shared by objects of different n / method; a warm rule cache, including a '
                 'neighbouring step ratio and the other rows / signs of the same cache entry; repeated calls with other '
                 'call arguments) the abstract result of the last call - estimates, steps, f(x), Richardson parameters, '
                 'evaluation points, for a symbolic f - equals that of a fresh object in a fresh interpreter',
    'R-EFFECTS': 'inventory of state written while a call runs (instance attributes, class attributes, module level '
                 'containers); reported in the evidence, each known item with its classification (scratch: written before '
                 'read in the same call; memo: value is a pure function of its key; configuration)',
    'R-CACHEKEY': 'the rule cache is empty at import or every pre-seeded entry is the pseudo inverse of the moment matrix '
                  'of its own key; the only writer stores pinv(_fd_matrix(key)) under exactly that key, complete at the moment it is stored '
                  'and never written afterwards (the thread clause: another thread may hit the entry at any time)',
    'R-NOSHARE': 'no mutable default argument and no stateful module level instance is shared between objects on the '
                 'call path; the difference-function holders stored on the rule classes have no instance state',
    'R-NOMUTATE': 'a call never writes in place into its input array x, into the call arguments, or into the arrays of a user built '
                  'step generator (per coordinate base_step / step_nom), which other calls and objects share',
}


def run(ctx):
    rep = ctx.rep
    rep.notes['explanation'] = (
        'C09 is decided as history independence of abstract runs: each scenario is interpreted with a symbolic user '
        'function, so equality of the abstract results is equality for every function and point. Determinism of '
        'numpy/scipy kernels is the trusted base. Threads: with disjoint objects the only shared write is the rule '
        'memo; a check-then-insert of a value that is a pure function of its key is idempotent (R-CACHEKEY); '
        'warnings.catch_warnings in dea3 is process global but affects warnings only.')
    rep.assume('numpy / scipy kernels are deterministic functions of their arguments')
    rep.assume('dict get/insert of the rule memo is atomic under the GIL; entries are never modified after insertion '
               '(checked: rows are only read, negation allocates)')
    for rid, text in RULES.items():
        rep.rule(rid, text, {'R-HISTORY': 40, 'R-EFFECTS': 4, 'R-CACHEKEY': 3, 'R-NOSHARE': 5, 'R-NOMUTATE': 6}[rid])
    core = ctx.repo.module('core')
    scenarios = []
    scenarios += [('core.Derivative', s) for s in history.setter_scenarios('Derivative', None, ctx.tier)]
    scenarios += [('core.Jacobian', s) for s in history.setter_scenarios('Jacobian', 2, ctx.tier)]
    scenarios += [('core.Hessdiag', s) for s in history.setter_scenarios('Hessdiag', 2, ctx.tier)]
    scenarios += [('core.Hessian', s) for s in history.setter_scenarios('Hessian', 2, ctx.tier)
                  if 'order' not in s.what]
    scenarios += [('core.Derivative', s) for s in history.sequence_scenarios('Derivative', None, ctx.tier, ctx.seed)]
    scenarios += [('core.Jacobian', s) for s in history.sequence_scenarios('Jacobian', 2, ctx.tier, ctx.seed)]
    if ctx.tier != 'quick':
        scenarios += [('core.Hessdiag', s) for s in history.sequence_scenarios('Hessdiag', 2, 'quick', ctx.seed)]
        scenarios += [('core.Hessian', s) for s in history.sequence_scenarios('Hessian', 2, 'quick', ctx.seed)]
    scenarios += [('step_generators.MinStepGenerator', s) for s in history.shared_generator_scenarios()]
    scenarios += [('finite_difference.LogRule.rule', s) for s in history.cache_scenarios()]
    scenarios += [('core.Derivative', s) for s in args_scenarios()]
    scenarios += [('core.Derivative', s) for s in history.other_point_scenarios('Derivative', None)]
    scenarios += [('core.Derivative', s) for s in history.aborted_call_scenarios('Derivative', None)]
    scenarios += [('core.Jacobian', s) for s in history.aborted_call_scenarios('Jacobian', 2)]
    scenarios += [('core.Hessdiag', s) for s in history.aborted_call_scenarios('Hessdiag', 2)]
    scenarios += [('core.Hessian', s) for s in history.aborted_call_scenarios('Hessian', 2)]
    scenarios += [('core.Jacobian', s) for s in history.other_point_scenarios('Jacobian', 2)]
    scenarios += [('core.Derivative', s) for s in history.earlier_object_scenarios('Derivative', None)]
    scenarios += [('core.Derivative', s) for s in history.step_option_scenarios('Derivative', None)]
    scenarios += [('core.Hessian', s) for s in history.earlier_object_scenarios('Hessian', 2)]
    scenarios += [('core.Hessian', s) for s in history.other_point_scenarios('Hessian', 2)]
    for construct, sc in scenarios:
        try:
            history.run_scenario(rep, ctx.repo, sc, 'R-HISTORY', construct, core.relpath)
        except AnalysisError as exc:
            rep.undecided('R-HISTORY', construct, exc, sc.name)
    effects(ctx)
    cachekey(ctx)
    noshare(ctx)
    shared_state(ctx)
    nomutate(ctx)
    rep.notes['trusted_base'] = ['python ast', 'ndverif abstract interpreter and numpy summaries',
                                 'determinism of numpy/scipy kernels']


def args_scenarios():
    out = []

    def mk(method, n, full_output):
        def history_(P):
            gen = P.sym_generator('Min', num_extrap=1)
            obj, x = P.build('Derivative', method, 2, n=n, step=gen, full_output=full_output)
            I = P.interp
            estimates(I, obj, x, (Poly.sym('a1'),), {'b': Poly.sym('b1')})
            return obj, x

        def fresh(P):
            gen = P.sym_generator('Min', num_extrap=1)
            return P.build('Derivative', method, 2, n=n, step=gen, full_output=full_output)
        return history_, fresh
    for method, n, fo in (('forward', 1, False), ('central', 2, False), ('central', 1, True), ('complex', 1, False),
                          ('complex', 4, False)):
        h, f = mk(method, n, fo)
        # the compared (last) call is made by run_scenario with () / {} : other arguments than the first call
        out.append(history.Scenario('Derivative(%s, n=%d, full_output=%s) ; call(x, a1, b=b1) ; call(x)' % (method, n, fo),
                                    h, f, 'call arguments'))
    return out


KNOWN_STATE = {
    ('Derivative', 'richardson'): 'scratch: assigned by set_richardson_rule in _derivative before _extrapolate reads it',
    ('Jacobian', 'richardson'): 'scratch (inherited)', ('Gradient', 'richardson'): 'scratch (inherited)',
    ('Hessdiag', 'richardson'): 'scratch (inherited)', ('Hessian', 'richardson'): 'scratch (inherited)',
    ('MinStepGenerator', '_state'): 'scratch: assigned first thing in step_generator_function, before the properties that read it',
    ('MaxStepGenerator', '_state'): 'scratch (inherited)',
    ('CStepGenerator', '_state'): 'scratch (inherited)',
    ('module finite_difference', 'FD_RULES'): 'memo: pinv(_fd_matrix(key)) stored under key (R-CACHEKEY)',
    ('Bicomplex', 'z1'): 'constructor of a temporary', ('Bicomplex', 'z2'): 'constructor of a temporary',
    ('Richardson', 'step_ratio'): 'constructor of the per-call Richardson object',
    ('Richardson', 'step'): 'constructor', ('Richardson', 'order'): 'constructor', ('Richardson', 'num_terms'): 'constructor',
    ('BasicMaxStepGenerator', 'base_step'): 'constructor of the per-call generator',
    ('BasicMaxStepGenerator', 'step_ratio'): 'constructor', ('BasicMaxStepGenerator', 'num_steps'): 'constructor',
    ('BasicMaxStepGenerator', 'offset'): 'constructor',
    ('BasicMinStepGenerator', 'base_step'): 'constructor', ('BasicMinStepGenerator', 'step_ratio'): 'constructor',
    ('BasicMinStepGenerator', 'num_steps'): 'constructor', ('BasicMinStepGenerator', 'offset'): 'constructor',
}


def effects(ctx):
    """Record every attribute / module dict written while __call__ runs (exact algebra domain, first half) and
    while the data-abstract full call runs."""
    rep = ctx.rep
    core = ctx.repo.module('core')
    for cls, dim in (('Derivative', None), ('Jacobian', 2), ('Hessdiag', 2), ('Hessian', 2)):
        for method in ('central', 'complex'):
            P = Pipeline(ctx.repo)
            I = P.interp
            obj, x = P.build(cls, method, None if cls == 'Hessian' else 2, dim=dim, n=(2 if cls == 'Derivative' else None))
            written = []
            cache = P.cache()
            I.on_setattr = lambda o, a, v: written.append(((o.cls.name if isinstance(o, Obj) else 'class ' + o.cls.name), a))
            I.on_dict_store = lambda d, k, v: written.append(('module finite_difference', 'FD_RULES') if d is cache
                                                              else ('dict', repr(k)[:40]))
            try:
                estimates(I, obj, x)
            except InterpRaise as exc:
                rep.violation('R-EFFECTS', 'core.%s._derivative' % cls, core.relpath,
                              {'raises': exc.exc_name, 'message': exc.msg[:100]}, 'a valid call does not raise',
                              '%s/%s' % (cls, method), key='effects-raises')
                continue
            finally:
                I.on_setattr = None
                I.on_dict_store = None
            items = sorted(set(written))
            unknown = [w for w in items if w not in KNOWN_STATE]
            rep.ok('R-EFFECTS', 'core.%s._derivative' % cls, core.relpath,
                   {'written_during_call': ['%s.%s' % w for w in items],
                    'classified': {'%s.%s' % w: KNOWN_STATE[w] for w in items if w in KNOWN_STATE},
                    'not_in_table (decided by R-HISTORY scenarios, not by this inventory)': ['%s.%s' % w for w in unknown]},
                   '%s/%s' % (cls, method))


def cachekey(ctx):
    rep = ctx.rep
    fd = ctx.repo.module('finite_difference')
    P = Pipeline(ctx.repo)
    P.clear_cache()
    init = dict(P._cache_init)
    problems = []
    I = P.interp
    from ..pipeline import column_exponents
    for key, val in init.items():
        try:
            ratio, parity, nterms = key
            M = I.getattr(I.get_global('finite_difference', 'LogRule'), '_fd_matrix')(ratio, parity, nterms)
            W = val if isinstance(val, Arr) else None
            if W is None or W.shape != M.shape:
                problems.append('%r: not a matrix of the shape of its moment matrix' % (key,))
                continue
            n = M.shape[0]
            for a in range(n):
                for b in range(n):
                    s = 0
                    for m in range(n):
                        s = s + W[a, m] * M[m, b]
                    want = 1 if a == b else 0
                    from ..ndarr import concrete_real
                    c = concrete_real(s)
                    if c is None or abs(c - want) > 1e-6:
                        problems.append('%r: seeded entry is not the inverse of its moment matrix (W*M)[%d,%d] = %r'
                                        % (key, a, b, s))
                        break
                else:
                    continue
                break
        except (InterpRaise, ValueError, TypeError) as exc:
            problems.append('%r: %s' % (key, exc))
    rep.check(not problems, 'R-CACHEKEY', 'finite_difference.FD_RULES', fd.relpath,
              {'entries_at_import': len(init), 'problems': problems[:3]},
              'empty at import, or every entry == pinv(_fd_matrix(*key))', 'import time', key='cache-seed')
    # bit-for-bit independence from the cache contents: an entry written as decimal literals cannot be guaranteed to equal
    # what pinv computes to the last bit, so clearing the cache would change results
    rep.check(len(init) == 0, 'R-CACHEKEY', 'finite_difference.FD_RULES', fd.relpath,
              {'entries_at_import': len(init), 'keys': [repr(k) for k in list(init)[:4]]},
              'the rule cache is empty at import (results must not depend on whether an entry was shipped or computed)',
              'import time (bit-for-bit clause)', key='cache-nonempty-at-import')
    # writer: after one rule() call with symbolic ratio the cache holds exactly one entry keyed by the arguments of _fd_matrix
    P.clear_cache()
    seen = []
    I.on_call = None
    cref = I.get_global('finite_difference', 'LogRule')
    obj = cref(n=3, method='central', order=4)
    r = Poly.sym('r')
    cache = P.cache()
    before = set(cache)
    published = []           # (buffer, number of writes it had when it was put into the shared table)
    I.on_dict_store = lambda d, k, v: published.append((v.buf, len(v.buf.writes), repr(k)[:60])) if d is cache and isinstance(v, Arr) else None
    try:
        I.getattr(obj, 'rule')(r)
        I.getattr(obj, 'rule')(r)
    finally:
        I.on_dict_store = None
    late = [{'key': k, 'writes_after_the_store': len(buf.writes) - n0} for buf, n0, k in published if len(buf.writes) > n0]
    rep.check(not late, 'R-CACHEKEY', 'finite_difference.LogRule.rule', fd.relpath, {'stores': len(published), 'written_after_publication': late[:2]},
              'an entry is complete when it enters the process wide table and is never written afterwards (another thread may read it '
              'at any time)', 'LogRule(n=3, central, order=4).rule(r): publication', key='cache-publication')
    new = [k for k in cache if k not in before]
    ok = False
    fact = {'new_keys': [repr(k) for k in new]}
    if len(new) == 1:
        k = new[0]
        W = cache[k]
        tag = None
        if isinstance(W, Arr) and isinstance(W.items()[0], Poly):
            (mono, c), = W.items()[0].t.items()
            tag = mono[0][0].split('_')[0]
        if tag in P.reg.mats:
            M = P.reg.mats[tag]
            try:
                try:
                    builder = I.getattr(cref, '_fd_matrix')
                except InterpRaise:
                    raise AnalysisError('anchor vanished: LogRule._fd_matrix (the builder of the matrix whose inverse is cached)')
                M2 = builder(*k)
                ok = isinstance(M2, Arr) and M2.shape == M.shape and all(a == b for a, b in zip(M2.items(), M.items()))
            except (InterpRaise, TypeError) as exc:
                fact['problem'] = 'key is not the argument tuple of _fd_matrix: %s' % exc
    rep.check(ok, 'R-CACHEKEY', 'finite_difference.LogRule.rule', fd.relpath, fact,
              'FD_RULES[key] = pinv(_fd_matrix(*key))', 'LogRule(n=3, central, order=4).rule(r)', key='cache-writer')


def noshare(ctx):
    rep = ctx.rep
    for modname in ('core', 'limits', 'step_generators', 'finite_difference', 'extrapolation'):
        mod = ctx.repo.module(modname)
        bad = []
        n_defaults = 0
        for node in ast.walk(mod.tree):
            if isinstance(node, ast.FunctionDef):
                for d in list(node.args.defaults) + [d for d in node.args.kw_defaults if d is not None]:
                    n_defaults += 1
                    if isinstance(d, (ast.List, ast.Dict, ast.Set, ast.ListComp, ast.DictComp)) or \
                            (isinstance(d, ast.Call) and not (isinstance(d.func, ast.Name) and d.func.id in ('float', 'int', 'tuple', 'frozenset'))):
                        bad.append('%s(%s=%s) at line %d' % (node.name, '?', ast.unparse(d), node.lineno))
        rep.check(not bad, 'R-NOSHARE', '%s (function defaults)' % modname, mod.relpath,
                  {'defaults_inspected': n_defaults, 'mutable_or_instance_defaults': bad[:3]},
                  'no mutable / instance default argument', modname, key='mutable-default %s' % modname)
    # holders of difference functions: no instance state
    fd = ctx.repo.module('finite_difference')
    for cname in ('DifferenceFunctions', 'JacobianDifferenceFunctions', 'HessdiagDifferenceFunctions',
                  'HessianDifferenceFunctions'):
        ci = fd.classes.get(cname)
        if ci is None:
            raise AnalysisError('anchor vanished: %s' % cname)
        def root_name(n):
            while isinstance(n, (ast.Attribute, ast.Subscript)):
                n = n.value
            return n.id if isinstance(n, ast.Name) else None
        holders = {'self', 'cls', 'DifferenceFunctions', 'JacobianDifferenceFunctions', 'HessdiagDifferenceFunctions',
                   'HessianDifferenceFunctions'}
        # (stores on the holder object or class; an attribute of a local array - `view.flags.writeable = False` - is no state)
        stores = [ast.unparse(n) for n in ast.walk(ci.node)
                  if isinstance(n, ast.Attribute) and isinstance(n.ctx, ast.Store) and root_name(n) in holders]
        rep.check(not stores, 'R-NOSHARE', 'finite_difference.%s' % cname, fd.where(ci.node),
                  {'attribute_stores_in_class': stores[:3]}, 'stateless holder (shared by all rule objects)', cname,
                  key='holder-state %s' % cname)


def reachable_objects(obj, limit=400):
    """ids -> path of the objects of the analysed program reachable from obj (attributes, lists, tuples, dicts)."""
    out, todo = {}, [('self', obj)]
    while todo and len(out) < limit:
        path, v = todo.pop()
        if isinstance(v, Obj):
            if id(v) in out:
                continue
            out[id(v)] = (path, v)
            for k, w in v.attrs.items():
                todo.append(('%s.%s' % (path, k), w))
        elif isinstance(v, (list, tuple)):
            for i, w in enumerate(v):
                todo.append(('%s[%d]' % (path, i), w))
        elif isinstance(v, dict):
            for k, w in v.items():
                todo.append(('%s[%r]' % (path, k), w))
    return out


def shared_state(ctx):
    """Two independently constructed objects: nothing that a call of the first one writes is reachable from the second."""
    rep = ctx.rep
    core = ctx.repo.module('core')
    for cls, dim in (('Derivative', None), ('Jacobian', 2), ('Hessdiag', 2), ('Hessian', 2)):
        for m1, m2 in (('central', 'forward'), ('forward', 'forward'), ('complex', 'complex')):
            P = Pipeline(ctx.repo)
            I = P.interp
            label = '%s(%s) and %s(%s), default step options' % (cls, m1, cls, m2)
            try:
                o1, x1 = P.build(cls, m1, None if cls == 'Hessian' else 2, dim=dim, n=(1 if cls == 'Derivative' else None))
                o2, x2 = P.build(cls, m2, None if cls == 'Hessian' else 2, dim=dim, n=(2 if cls == 'Derivative' else None))
                written = {}
                I.on_setattr = lambda o, a, v: written.setdefault(id(o), (o, set()))[1].add(a) if isinstance(o, Obj) else None
                try:
                    estimates(I, o1, x1)
                finally:
                    I.on_setattr = None
                reach2 = reachable_objects(o2)
                shared = ['%s (%s) attributes %s' % (reach2[i][0], written[i][0].cls.name, sorted(written[i][1])[:3])
                          for i in written if i in reach2]
                rep.check(not shared, 'R-NOSHARE', 'core.%s.__init__' % cls, core.relpath,
                          {'objects_written_by_the_first_call': len(written), 'of_those_reachable_from_the_second_object': shared[:3]},
                          'two objects share no object that a call writes to (only the rule memo is process wide)', label,
                          key='shared-instance')
            except InterpRaise as exc:
                rep.violation('R-NOSHARE', 'core.%s.__init__' % cls, core.relpath, {'raises': exc.exc_name, 'message': exc.msg[:100]},
                              'construction and a call succeed', label, key='shared-instance raises')
            except AnalysisError as exc:
                rep.undecided('R-NOSHARE', 'core.%s.__init__' % cls, exc, label)


def reachable_arrays(obj, limit=400):
    """[(path, Arr)] reachable from an object of the analysed program through attributes, lists, tuples and dicts."""
    out, seen, todo = [], set(), [('self', obj)]
    while todo and len(seen) < limit:
        path, v = todo.pop()
        if id(v) in seen:
            continue
        seen.add(id(v))
        if isinstance(v, Arr):
            out.append((path, v))
        elif isinstance(v, Obj):
            for k, w in v.attrs.items():
                todo.append(('%s.%s' % (path, k), w))
        elif isinstance(v, (list, tuple)):
            for i, w in enumerate(v):
                todo.append(('%s[%d]' % (path, i), w))
        elif isinstance(v, dict):
            for k, w in v.items():
                todo.append(('%s[%r]' % (path, k), w))
    return out


def nomutate(ctx):
    """Full __call__ in the data-abstract domain: the buffer of x and of an array call argument are never written."""
    rep = ctx.rep
    core = ctx.repo.module('core')
    for cls, kw, xshape in (('Derivative', dict(method='central', n=1), (3,)), ('Derivative', dict(method='complex', n=2), (2,)),
                            ('Derivative', dict(method='forward', n=0), (2,)),
                            ('Jacobian', dict(method='central'), (2,)), ('Gradient', dict(method='forward'), (2, 2)),
                            ('Hessdiag', dict(method='central'), (2,)), ('Hessian', dict(method='forward'), (2,)),
                            ('Hessian', dict(method='backward'), (2,))):
        holder = {}

        def body(s, cls=cls, kw=kw, xshape=xshape):
            from ..dvrun import tensor_f
            I = s.interp
            C = I.get_global('core', cls)
            n = 1
            for d in xshape:
                n *= d
            if cls == 'Derivative':
                f = bicomplex_aware(s, s.elementwise_f())
            else:
                f = tensor_f(s, n, ())
            d = C(f, **kw)
            x = s.x_array(xshape)
            extra = Arr((2,), [DV({('arg', 0)}), DV({('arg', 1)})])
            holder['x'], holder['extra'] = x, extra
            # arrays that belong to the configuration (they exist before the first call; scratch arrays an object creates
            # for itself later are judged by the history scenarios, not here)
            reach = reachable_arrays(d)
            counts = [(nm, a.buf, len(a.buf.writes)) for nm, a in reach]
            d(x, extra) if cls == 'Derivative' else d(x)
            before = (list(x.buf.data), list(extra.buf.data))
            wx0, we0 = len(x.buf.writes), len(extra.buf.writes)
            d(x, extra) if cls == 'Derivative' else d(x)
            holder['kept'] = sorted({nm for nm, buf, n0 in counts if len(buf.writes) > n0})
            return (len(x.buf.writes) - wx0, len(extra.buf.writes) - we0, before[0] == list(x.buf.data),
                    before[1] == list(extra.buf.data), holder['kept'])
        ex = explore(ctx.repo, body, pinned=NONZERO_STEPS)
        bad = []
        for decisions, res, exc in ex.paths:
            if exc is not None:
                continue
            wx, we, samex, samee, kept = res
            if wx or we or not samex or not samee or kept:
                bad.append({'writes_to_x': wx, 'writes_to_argument': we, 'configuration_arrays_written_in_place': kept[:4]})
        rep.check(not bad, 'R-NOMUTATE', 'core.%s.__call__' % cls, core.relpath,
                  {'paths': len(ex.paths), 'in_place_writes': bad[:2]}, 'inputs are never written in place',
                  '%s/%s/x.shape=%s' % (cls, sorted(kw.items()), xshape), key='mutate-input')
    # ... nor into arrays that belong to the configuration: a step generator built with one base step per coordinate (and a
    # nominal step array) is shared between calls and objects
    for cls, kw, xshape in (('Gradient', dict(method='central'), (2,)), ('Derivative', dict(method='forward', n=1), (2,)),
                            ('Hessian', dict(method='central'), (2,))):
        def body(s, cls=cls, kw=kw, xshape=xshape):
            from ..dvrun import tensor_f
            I = s.interp
            C = I.get_global('core', cls)
            G = I.get_global('step_generators', 'MinStepGenerator')
            base = Arr((2,), [DV({('base', 0)}, 'f', 'pos'), DV({('base', 1)}, 'f', 'pos')])
            nom = Arr((2,), [DV({('nom', 0)}, 'f', 'pos'), DV({('nom', 1)}, 'f', 'pos')])
            out = []
            for gkw in (dict(base_step=base), dict(base_step=base, step_nom=nom)):
                gen = G(step_ratio=2, num_steps=6, **gkw)
                f = bicomplex_aware(s, s.elementwise_f()) if cls == 'Derivative' else tensor_f(s, 2, ())
                d = C(f, step=gen, **kw)
                b0, n0 = (len(base.buf.writes), list(base.buf.data)), (len(nom.buf.writes), list(nom.buf.data))
                d(s.x_array(xshape))
                out.append((len(base.buf.writes) - b0[0], len(nom.buf.writes) - n0[0], b0[1] == list(base.buf.data),
                            n0[1] == list(nom.buf.data)))
            return out
        ex = explore(ctx.repo, body, pinned=NONZERO_STEPS)
        bad = []
        for decisions, res, exc in ex.paths:
            if exc is not None:
                bad.append({'raises': exc.exc_name, 'message': exc.msg[:80]})
                continue
            for wb, wn, sameb, samen in res:
                if wb or wn or not sameb or not samen:
                    bad.append({'writes_to_base_step': wb, 'writes_to_step_nom': wn})
        rep.check(not bad, 'R-NOMUTATE', 'step_generators.MinStepGenerator.__call__', ctx.repo.module('step_generators').relpath,
                  {'paths': len(ex.paths), 'in_place_writes': bad[:2]}, 'the arrays of a user built step generator are never written',
                  '%s/%s/array base_step' % (cls, sorted(kw.items())), key='mutate-config')
