"""C10 Step generators produce the documented geometric sequences, and enough steps."""
import ast
import re
from fractions import Fraction as Fr

from ..srcmodel import AnalysisError
from ..stages import estimates
from ..algebra import Poly, Z8, alg_equal
from .. import ndarr
from ..ndarr import Arr, InterpRaise
from ..absint import Interp
from ..libmodels import Models
from ..pipeline import Pipeline, ASSUMED_POSITIVE
from ..stencil import FV

RULES = {
    'R-CLOSEDFORM': 'the sequence yielded by the Basic / Min / Max / C step generators for symbolic base step and ratio, '
                    'concrete counts and offsets equals the closed form given in the class docstring '
                    '(steps = ... parsed from the docstring), in the documented index order',
    'R-STEPORDER': 'consecutive steps differ by exactly the factor step_ratio and decrease in magnitude (ratio > 1)',
    'R-DEFAULTS': 'defaults: base_step = EPS**(1/scale); ratio 2 for n = 1 else 1.6 (4 for CStepGenerator); nominal step >= 1 and '
                  'a function of |x| only; Max generator base step 2 and 15 steps; CStepGenerator count equals its docstring formula',
    'R-OPTIONS': 'use_exact_steps guards make_exact of base step and ratio; check_num_steps guards the lower bound on num_steps; '
                 'num_extrap is added only when num_steps is None; radial / spiral path selects the ratio; an unknown path raises ValueError',
    'R-ZEROFILTER': 'zero steps are dropped: every step a generator yields was itself compared with zero before the yield (a product '
                    'base_step * step_ratio**k can vanish by underflow although the base step does not, so a test of the base step '
                    'alone is not the documented filter); abstract run with base step and ratio of unknown sign, every comparison '
                    'with zero recorded',
    'R-ENOUGH': 'for every (method, n, order) the default generator chosen by Derivative and explicit default Min/Max generators '
                'give the finite difference rule enough steps: the abstract run of _derivative_nonzero_order does not raise',
}


def nonzero_steps(interp, node, fr, value):
    # assumption of the closed-form rules: no generated step is zero (positive base step, finite ratio)
    from ..dv import is_nonzero_step_test
    if is_nonzero_step_test(interp, node, fr, value):
        return True
    return None


def make(repo):
    models = Models()
    I = Interp(repo, models, branch_oracle=nonzero_steps)
    models.bind(I)
    ndarr.POSITIVE_ATOMS.clear()
    ndarr.POSITIVE_ATOMS.update(ASSUMED_POSITIVE + ('b', 'dtheta'))
    return I, models


def doc_formula(cls_node):
    """Extract `steps = <expr>` from a class docstring -> ast expression (or None)."""
    doc = ast.get_docstring(cls_node) or ''
    m = re.search(r'steps\s*=\s*(.+)', doc)
    if not m:
        return None
    text = m.group(1).strip()
    # cut at a top-level comma (", i=num_steps-1,...")
    depth, cut = 0, len(text)
    for k, ch in enumerate(text):
        if ch in '([':
            depth += 1
        elif ch in ')]':
            depth -= 1
        elif ch == ',' and depth == 0:
            cut = k
            break
    text = text[:cut].strip()
    try:
        return ast.parse(text, mode='eval').body
    except SyntaxError:
        return None


def eval_doc(expr, env, models):
    def ev(n):
        if isinstance(n, ast.Constant):
            if isinstance(n.value, complex):
                return Poly.const(Z8.I) * Fr(repr(n.value.imag))
            return Fr(repr(n.value)) if isinstance(n.value, float) else n.value
        if isinstance(n, ast.Name):
            if n.id not in env:
                raise AnalysisError('docstring formula uses unknown name %s' % n.id)
            return env[n.id]
        if isinstance(n, ast.UnaryOp) and isinstance(n.op, ast.USub):
            return -ev(n.operand)
        if isinstance(n, ast.BinOp):
            a, b = ev(n.left), ev(n.right)
            if isinstance(n.op, ast.Add):
                return a + b
            if isinstance(n.op, ast.Sub):
                return a - b
            if isinstance(n.op, ast.Mult):
                return a * b
            if isinstance(n.op, ast.Div):
                return ndarr.s_div(a, b)
            if isinstance(n.op, ast.Pow):
                return ndarr.s_pow(a, b)
        if isinstance(n, ast.Call) and isinstance(n.func, ast.Name) and n.func.id in ('exp', 'log', 'abs', 'round', 'int'):
            arg = ev(n.args[0])
            if n.func.id in ('exp', 'log'):
                return models.scalar_fn(n.func.id, arg)
            if n.func.id == 'abs':
                return ndarr.s_abs(arg)
            return env['__' + n.func.id](arg)
        raise AnalysisError('docstring formula construct not understood: %s' % ast.dump(n)[:60])
    return ev(expr)


def scalar(v):
    return v.item() if isinstance(v, Arr) and v.size == 1 else v


def same(a, b):
    try:
        return bool(alg_equal(scalar(a), scalar(b)))
    except Exception:
        return False


def run(ctx):
    rep = ctx.rep
    rep.notes['explanation'] = (
        'Decided by abstract interpretation of the generator classes with symbolic base step / ratio / x: the yielded '
        'sequences against the closed forms written in the class docstrings, ordering, defaults, option handling, and '
        '(with end-to-end runs of Derivative) that every default configuration gets enough steps. The table default_scale '
        'has no specification other than the code and is not checked.')
    rep.assume('step_ratio > 1, base_step > 0')
    mins = {'R-CLOSEDFORM': 12, 'R-STEPORDER': 8, 'R-DEFAULTS': 8, 'R-OPTIONS': 8, 'R-ZEROFILTER': 4, 'R-ENOUGH': 60}
    for rid, text in RULES.items():
        rep.rule(rid, text, mins[rid])
    sg = ctx.repo.module('step_generators')
    lim = ctx.repo.module('limits')
    closed_form(ctx, sg, lim)
    defaults(ctx, sg, lim)
    options(ctx, sg, lim)
    zero_filter(ctx, sg, lim)
    enough(ctx)
    rep.notes['trusted_base'] = ['python ast', 'ndverif abstract interpreter']


def closed_form(ctx, sg, lim):
    rep = ctx.rep
    I, models = make(ctx.repo)
    b, r, x = Poly.sym('b'), Poly.sym('r'), Poly.sym('x')
    for cname, mod, order in (('BasicMaxStepGenerator', sg, 'asc'), ('BasicMinStepGenerator', sg, 'desc'),
                              ('MinStepGenerator', sg, 'desc'), ('MaxStepGenerator', sg, 'asc'),
                              ('CStepGenerator', lim, 'desc')):
        ci = mod.classes.get(cname)
        if ci is None:
            raise AnalysisError('anchor vanished: %s' % cname)
        formula = doc_formula(ci.node)
        cref = I.get_global(mod.name, cname)
        for N in (1, 3, 4):
            for offset in (0, 2, -1):
                label = '%s/num_steps=%d/offset=%d' % (cname, N, offset)
                try:
                    if cname.startswith('Basic'):
                        gen = cref(base_step=b, step_ratio=r, num_steps=N, offset=offset)
                        steps = list(gen())
                        nom = 1
                        ratio = r
                    else:
                        kw = dict(base_step=b, step_ratio=r, num_steps=N, offset=offset, check_num_steps=False)
                        if cname == 'CStepGenerator':
                            kw.update(path='spiral', dtheta=Poly.sym('dtheta'))
                        gen = cref(**kw)
                        steps = [scalar(s) for s in gen(x, 'forward', 1, 2)]
                        nom = scalar(I.getattr(gen, 'step_nom'))
                        ratio = I.getattr(gen, 'step_ratio')
                except InterpRaise as exc:
                    rep.violation('R-CLOSEDFORM', '%s.%s.__call__' % (mod.name, cname), mod.where(ci.node),
                                  {'raises': exc.exc_name, 'message': exc.msg[:100]}, 'a sequence of steps', label,
                                  key='closedform raises %s' % cname)
                    continue
                idx = list(range(N)) if order == 'asc' else list(range(N - 1, -1, -1))
                env = {'base_step': b, 'step_ratio': r, 'offset': offset, 'step_nom': nom, 'dtheta': Poly.sym('dtheta'),
                       'num_steps': N}
                want = []
                if formula is not None:
                    for i in idx:
                        env['i'] = i
                        want.append(eval_doc(formula, env, models))
                    src = 'docstring: steps = ' + ast.unparse(formula)
                else:
                    raise AnalysisError('no "steps = ..." formula in the docstring of %s' % cname)
                ok = len(steps) == len(want) and all(same(s, w) for s, w in zip(steps, want))
                rep.check(ok, 'R-CLOSEDFORM', '%s.%s.__call__' % (mod.name, cname), mod.where(ci.node),
                          {'generated': [repr(scalar(s)) for s in steps][:4], 'documented': [repr(w) for w in want][:4],
                           'formula': src}, 'generated sequence == documented closed form', label,
                          key='closedform %s' % cname)
                # ordering: step[k] == ratio * step[k+1]
                if len(steps) > 1:
                    okr = all(same(scalar(steps[k]), scalar(steps[k + 1]) * ratio) for k in range(len(steps) - 1))
                    rep.check(okr, 'R-STEPORDER', '%s.%s.__call__' % (mod.name, cname), mod.where(ci.node),
                              {'steps': [repr(scalar(s)) for s in steps][:4], 'ratio': repr(ratio)},
                              'each step is the next one times step_ratio (decreasing for ratio > 1)', label,
                              key='steporder %s' % cname)


def defaults(ctx, sg, lim):
    rep = ctx.rep
    I, models = make(ctx.repo)
    x = Poly.sym('x')
    EPS = Poly.sym('EPS')
    Min = I.get_global('step_generators', 'MinStepGenerator')
    Max = I.get_global('step_generators', 'MaxStepGenerator')
    C = I.get_global('limits', 'CStepGenerator')
    # base step = EPS ** (1/scale)
    for scale in (Fr(5, 2), Fr(53, 50), 3):
        g = Min(scale=scale)
        I.getattr(g, 'step_generator_function')(x, 'forward', 1, 2)
        got = I.getattr(g, 'base_step')
        rep.check(same(got, EPS ** (Fr(1) / scale)), 'R-DEFAULTS', 'step_generators.MinStepGenerator.base_step',
                  sg.relpath, {'scale': str(scale), 'base_step': repr(got)}, 'EPS ** (1/scale)', 'scale=%s' % scale,
                  key='base-step')
    # the default scale is whatever default_scale(method, n, order) returns for the state of the call
    ds = I.get_global('step_generators', 'default_scale')
    for method, n, order in (('forward', 1, 2), ('central', 3, 4), ('complex', 5, 2), ('multicomplex', 2, 2)):
        g = Min()
        I.getattr(g, 'step_generator_function')(x, method, n, order)
        got = I.getattr(g, 'base_step')
        want = EPS ** (Fr(1) / Fr(ds(method, n, order)))
        rep.check(same(got, want), 'R-DEFAULTS', 'step_generators.MinStepGenerator.scale', sg.relpath,
                  {'config': [method, n, order], 'base_step': repr(got), 'expected': repr(want)},
                  'EPS ** (1/default_scale(method, n, order)) for the configuration of the current call',
                  '%s/n=%d/order=%d' % (method, n, order), key='default-scale-state')
    # ratio defaults
    for cls, name in ((Min, 'MinStepGenerator'), (Max, 'MaxStepGenerator')):
        for n, want in ((1, 2), (2, Fr(8, 5)), (5, Fr(8, 5))):
            g = cls()
            sgf = I.getattr(g, 'step_generator_function')(x, 'central', n, 2)
            got = I.getattr(sgf, 'step_ratio')
            rep.check(same(got, want), 'R-DEFAULTS', 'step_generators.%s.step_ratio' % name, sg.relpath,
                      {'n': n, 'ratio': repr(got)}, '2 for n = 1 else 1.6', '%s/n=%d' % (name, n), key='default-ratio')
    g = C()
    rep.check(same(I.getattr(g, 'step_ratio'), 4), 'R-DEFAULTS', 'limits.CStepGenerator.step_ratio', lim.relpath,
              {'ratio': repr(I.getattr(g, 'step_ratio'))}, '4 (radial path)', 'CStepGenerator default', key='default-ratio-c')
    # nominal step
    g = Min()
    I.getattr(g, 'step_generator_function')(x, 'forward', 1, 2)
    nom = scalar(I.getattr(g, 'step_nom'))
    s = repr(nom)
    ok = s.startswith('max(1, ') and 'abs(x)' in s and 'log(' in s and s.count('x') == 2
    rep.check(ok, 'R-DEFAULTS', 'step_generators.get_nominal_step', sg.relpath, {'step_nom': s},
              'max(1, log(c + |x|)): at least 1, depends on x through |x| only', 'default step_nom', key='nominal')
    g = Min(step_nom=3)
    I.getattr(g, 'step_generator_function')(x, 'forward', 1, 2)
    rep.check(same(I.getattr(g, 'step_nom'), 3), 'R-DEFAULTS', 'step_generators.MinStepGenerator.step_nom', sg.relpath,
              {'step_nom': repr(I.getattr(g, 'step_nom'))}, 'user supplied nominal step is used as is', 'step_nom=3',
              key='nominal-user')
    # a user nominal step is used as is whatever the dtype of x (integer x must not truncate it)
    for xval, name in ((2, 'int x'), (Arr((2,), [1, 3], kind='i'), 'int array x')):
        g = Min(base_step=Poly.sym('b'), step_ratio=Poly.sym('r'), num_steps=2, step_nom=Fr(3, 2), check_num_steps=False)
        steps = [s_ for s_ in g(xval, 'forward', 1, 2)]
        first = steps[0].items()[0] if steps and isinstance(steps[0], Arr) else (steps[0] if steps else None)
        rep.check(first is not None and same(first, Poly.sym('b') * Fr(3, 2) * Poly.sym('r')), 'R-DEFAULTS',
                  'step_generators.MinStepGenerator.step_nom', sg.relpath, {'x': name, 'first_step': repr(first)},
                  'base_step * step_nom * ratio for step_nom = 1.5', 'step_nom=1.5/%s' % name, key='nominal-user-int')
    # the default ratio follows the n of the *current* call when one generator object is reused
    for cls, name in ((Min, 'MinStepGenerator'), (Max, 'MaxStepGenerator')):
        g = cls()
        seq = []
        for n in (1, 3, 1, 2):
            sgf = I.getattr(g, 'step_generator_function')(x, 'central', n, 2)
            seq.append((n, I.getattr(sgf, 'step_ratio')))
        ok = all(same(r, 2 if n == 1 else Fr(8, 5)) for n, r in seq)
        rep.check(ok, 'R-DEFAULTS', 'step_generators.%s.step_ratio' % name, sg.relpath,
                  {'ratios_for_n_1_3_1_2': [repr(r) for n, r in seq]}, '2, 1.6, 2, 1.6 on one generator object',
                  '%s reused' % name, key='default-ratio-reuse')
    # Max generator defaults
    g = Max()
    sgf = I.getattr(g, 'step_generator_function')(x, 'central', 1, 2)
    ok = same(I.getattr(g, 'base_step'), 2) and sgf.attrs['num_steps'] == 15
    rep.check(ok, 'R-DEFAULTS', 'step_generators.MaxStepGenerator.__init__', sg.relpath,
              {'base_step': repr(I.getattr(g, 'base_step')), 'num_steps': sgf.attrs['num_steps']},
              'base_step 2, 15 steps', 'MaxStepGenerator defaults', key='max-defaults')
    # CStepGenerator default count against its docstring formula
    ci = lim.classes['CStepGenerator']
    doc = ast.get_docstring(ci.node) or ''
    m = re.search(r'If None the value is\s+(.+)', doc)
    for path in ('radial', 'spiral'):
        I2, models2 = make(ctx.repo)
        # int() / round() of symbolic values stay formal so that the two expressions can be compared
        I2.builtins['int'] = lambda v=0, *a: (Poly.sym('int(%r)' % (v,)) if isinstance(v, Poly) and not v.is_const() else int(v))
        C2 = I2.get_global('limits', 'CStepGenerator')
        rsym = Poly.sym('r')
        g = C2(step_ratio=rsym, path=path, dtheta=Poly.sym('dtheta'))
        try:
            got = I2.getattr(g, 'num_steps')
        except InterpRaise as exc:
            rep.violation('R-DEFAULTS', 'limits.CStepGenerator.num_steps', lim.relpath,
                          {'raises': exc.exc_name, 'message': exc.msg[:80]}, 'documented count', path, key='c-count')
            continue
        if not m:
            raise AnalysisError('CStepGenerator docstring has no count formula')
        expr = ast.parse(m.group(1).strip(), mode='eval').body
        env = {'step_ratio': I2.getattr(g, 'step_ratio'),
               '__round': lambda v: I2.builtins['round'](v) if not isinstance(v, Arr) else v,
               '__int': I2.builtins['int']}
        env['__round'] = lambda v: models2.np.round(v)
        want = eval_doc(expr, env, models2)
        rep.check(same(got, want), 'R-DEFAULTS', 'limits.CStepGenerator.num_steps', lim.relpath,
                  {'path': path, 'num_steps': repr(got)[:160], 'documented': repr(want)[:160]},
                  'docstring: ' + m.group(1).strip(), 'CStepGenerator count/%s' % path, key='c-count')


def options(ctx, sg, lim):
    rep = ctx.rep
    I, models = make(ctx.repo)
    x, b, r = Poly.sym('x'), Poly.sym('b'), Poly.sym('r')
    Min = I.get_global('step_generators', 'MinStepGenerator')
    C = I.get_global('limits', 'CStepGenerator')
    # use_exact_steps: count calls of make_exact
    for flag in (True, False):
        calls = []
        I.call_trace = calls
        g = Min(base_step=b, step_ratio=r, num_steps=3, step_nom=1, use_exact_steps=flag)
        I.getattr(g, 'step_generator_function')(x, 'forward', 1, 2)
        I.call_trace = None
        n_exact = sum(1 for c in calls if c[0] == 'enter' and c[1].endswith('.make_exact'))
        rep.check(n_exact == (2 if flag else 0), 'R-OPTIONS', 'step_generators.MinStepGenerator.step_generator_function',
                  sg.relpath, {'use_exact_steps': flag, 'make_exact_calls': n_exact},
                  'make_exact applied to base step and ratio iff use_exact_steps', 'use_exact_steps=%s' % flag,
                  key='exact-steps')
    # ... and it is applied to the base step actually used, base_step * step_nom(x) (a product of two exactly representable
    # numbers need not be one), and to the ratio
    seen = []
    mk = I.get_global('step_generators', 'make_exact')
    # (observed at the entry of the function itself: it may be reached through map(), a helper or a stored reference)
    I.on_enter = lambda clo, args, kwargs: seen.append(args[0]) if clo is mk and args else None
    try:
        nom = Poly.sym('nom')
        ndarr.POSITIVE_ATOMS.add('nom')
        g = Min(base_step=b, step_ratio=r, num_steps=3, step_nom=nom, use_exact_steps=True)
        I.getattr(g, 'step_generator_function')(x, 'forward', 1, 2)
    finally:
        I.on_enter = None
        ndarr.POSITIVE_ATOMS.discard('nom')
    got = sorted(repr(scalar(v)) for v in seen)
    want = sorted([repr(b * nom), repr(r)])
    rep.check(got == want, 'R-OPTIONS', 'step_generators.MinStepGenerator.step_generator_function', sg.relpath,
              {'make_exact_arguments': got, 'expected': want}, 'make_exact(base_step * step_nom) and make_exact(step_ratio)',
              'use_exact_steps=True, step_nom symbolic', key='exact-steps-argument')
    # check_num_steps / num_extrap
    for check, given, extrap, want in ((True, 1, 0, 'min'), (False, 1, 0, 1), (True, 30, 5, 30), (True, None, 3, 'min+3'),
                                       (True, None, 0, 'min')):
        g = Min(base_step=b, step_ratio=r, num_steps=given, check_num_steps=check, num_extrap=extrap, step_nom=1)
        sgf = I.getattr(g, 'step_generator_function')(x, 'forward', 3, 4)
        mn = I.getattr(g, 'min_num_steps')
        got = sgf.attrs['num_steps']
        exp = mn if want == 'min' else (mn + 3 if want == 'min+3' else want)
        rep.check(got == exp, 'R-OPTIONS', 'step_generators.MinStepGenerator.num_steps', sg.relpath,
                  {'num_steps_option': given, 'check_num_steps': check, 'num_extrap': extrap, 'min_num_steps': mn,
                   'generated_count': got}, 'count = %s' % want, 'num_steps=%s/check=%s/extrap=%d' % (given, check, extrap),
                  key='num-steps-option')
    # the same options given to MaxStepGenerator are honoured there too (its own defaults apply only where the caller says nothing)
    Max = I.get_global('step_generators', 'MaxStepGenerator')
    EPS = Poly.sym('EPS')
    for extrap, scale in ((0, 3), (4, Fr(5, 2))):
        g = Max(base_step=None, num_steps=None, num_extrap=extrap, scale=scale, step_nom=1)
        sgf = I.getattr(g, 'step_generator_function')(x, 'forward', 3, 4)
        mn = I.getattr(g, 'min_num_steps')
        got_n, got_b = sgf.attrs['num_steps'], I.getattr(g, 'base_step')
        rep.check(got_n == mn + extrap and same(got_b, EPS ** (Fr(1) / scale)), 'R-OPTIONS', 'step_generators.MaxStepGenerator.__init__',
                  sg.relpath, {'num_extrap': extrap, 'scale': str(scale), 'min_num_steps': mn, 'generated_count': got_n,
                               'base_step': repr(got_b)[:80]},
                  'count = min_num_steps + num_extrap, base step = EPS ** (1/scale)', 'MaxStepGenerator(num_extrap=%d, scale=%s)' % (extrap, scale),
                  key='max-options')
    for flag in (True, False):
        g = Max(base_step=b, step_ratio=r, num_steps=4, use_exact_steps=flag, step_nom=1)
        sgf = I.getattr(g, 'step_generator_function')(x, 'forward', 1, 2)
        rep.check(bool(I.getattr(g, 'use_exact_steps')) is flag, 'R-OPTIONS', 'step_generators.MaxStepGenerator.__init__', sg.relpath,
                  {'use_exact_steps_given': flag, 'stored': repr(I.getattr(g, 'use_exact_steps'))},
                  'the option given by the caller is the one in force', 'MaxStepGenerator(use_exact_steps=%s)' % flag, key='max-options')
    # path
    g = C(step_ratio=r, path='radial', dtheta=Poly.sym('dtheta'))
    rep.check(same(I.getattr(g, 'step_ratio'), r), 'R-OPTIONS', 'limits.CStepGenerator.step_ratio', lim.relpath,
              {'path': 'radial', 'ratio': repr(I.getattr(g, 'step_ratio'))}, 'radial path: the real ratio', 'path=radial',
              key='path-radial')
    g = C(step_ratio=r, path='spiral', dtheta=Poly.sym('dtheta'))
    want = models.np.exp(Poly.const(Z8.I) * Poly.sym('dtheta')) * r
    rep.check(same(I.getattr(g, 'step_ratio'), want), 'R-OPTIONS', 'limits.CStepGenerator.step_ratio', lim.relpath,
              {'path': 'spiral', 'ratio': repr(I.getattr(g, 'step_ratio'))}, 'spiral path: exp(1j*dtheta) * ratio',
              'path=spiral', key='path-spiral')
    # use_exact_steps given to the CStepGenerator is the one in force
    for flag in (True, False):
        g = C(step_ratio=r, path='radial', use_exact_steps=flag)
        rep.check(bool(I.getattr(g, 'use_exact_steps')) is flag, 'R-OPTIONS', 'limits.CStepGenerator.__init__', lim.relpath,
                  {'use_exact_steps_given': flag, 'stored': repr(I.getattr(g, 'use_exact_steps'))},
                  'the option given by the caller is the one in force', 'CStepGenerator(use_exact_steps=%s)' % flag, key='c-options')
    # dtheta = 0 is a legal angle: a spiral that does not turn (the real ratio), not "no angle given"
    g = C(step_ratio=r, path='spiral', dtheta=0)
    rep.check(same(I.getattr(g, 'step_ratio'), r), 'R-OPTIONS', 'limits.CStepGenerator.step_ratio', lim.relpath,
              {'path': 'spiral', 'dtheta': 0, 'ratio': repr(I.getattr(g, 'step_ratio'))}, 'spiral path with dtheta = 0: the real ratio',
              'path=spiral, dtheta=0', key='path-spiral')
    try:
        C(path='zigzag')
        rep.violation('R-OPTIONS', 'limits.CStepGenerator.__init__', lim.relpath, {'path': 'zigzag', 'raised': None},
                      'ValueError for an unknown path', 'path=zigzag', key='path-unknown')
    except InterpRaise as exc:
        rep.check(exc.exc_name == 'ValueError', 'R-OPTIONS', 'limits.CStepGenerator.__init__', lim.relpath,
                  {'path': 'zigzag', 'raised': exc.exc_name}, 'ValueError for an unknown path', 'path=zigzag',
                  key='path-unknown')


def zero_filter(ctx, sg, lim):
    rep = ctx.rep
    from ..ndarr import Unk
    cases = [('step_generators', 'BasicMaxStepGenerator', dict(base_step=Poly.sym('hb'), step_ratio=Poly.sym('rb'), num_steps=3), ()),
             ('step_generators', 'BasicMinStepGenerator', dict(base_step=Poly.sym('hb'), step_ratio=Poly.sym('rb'), num_steps=3), ()),
             ('step_generators', 'BasicMaxStepGenerator', dict(base_step=Poly.sym('hb'), step_ratio=Poly.sym('rb'), num_steps=2, offset=-2), ()),
             ('step_generators', 'MinStepGenerator', dict(base_step=Poly.sym('hb'), step_ratio=Poly.sym('rb'), num_steps=3), (Poly.sym('xb'),)),
             ('step_generators', 'MaxStepGenerator', dict(base_step=Poly.sym('hb'), step_ratio=Poly.sym('rb'), num_steps=3), (Poly.sym('xb'),))]
    # array valued steps (array base step): a step is kept only if no element of it is zero
    hb2 = Arr((2,), [Poly.sym('hb0'), Poly.sym('hb1')])
    cases += [('step_generators', 'BasicMaxStepGenerator', dict(base_step=hb2, step_ratio=Poly.sym('rb'), num_steps=2), ()),
              ('step_generators', 'BasicMinStepGenerator', dict(base_step=hb2, step_ratio=Poly.sym('rb'), num_steps=2), ())]

    def zero_leaf(e):
        """a comparison of a magnitude with zero, read as the variable 'this element is zero' (or its negation)"""
        _, op, a, b = e
        if ndarr.concrete_real(b) == 0 and ndarr.concrete_real(a) is None:
            what, o = a, op
        elif ndarr.concrete_real(a) == 0 and ndarr.concrete_real(b) is None:
            what, o = b, {'<': '>', '>': '<', '<=': '>=', '>=': '<='}.get(op, op)
        else:
            raise ValueError
        is_magnitude = repr(what).startswith('abs(')
        key = repr(what) if is_magnitude else repr(ndarr.s_abs(what))
        if o in ('!=',):
            return key, False
        if o == '==':
            return key, True
        if not is_magnitude:
            raise ValueError              # an ordering test of a signed quantity is not a zero test
        if o == '>':
            return key, False
        if o == '<=':
            return key, True
        raise ValueError
    for modname, cls, kw, args in cases:
        tested = []
        jointly = []

        def oracle(interp, node, fr, value):
            if isinstance(value, Unk):
                for c in value.comparisons():
                    if c[1] in ('>', '!=') and ndarr.concrete_real(c[3]) == 0:
                        tested.append(repr(c[2]))
                    elif c[1] in ('<', '!=') and ndarr.concrete_real(c[2]) == 0:
                        tested.append(repr(c[3]))
                from ..dv import logical_shape
                keys = set()
                try:
                    keys = {zero_leaf(c)[0] for c in value.comparisons()}
                except ValueError:
                    pass
                jointly.append((keys, logical_shape(value, zero_leaf)))
                return True
            return None
        models = Models()
        I = Interp(ctx.repo, models, branch_oracle=oracle)
        models.bind(I)
        saved = set(ndarr.POSITIVE_ATOMS)
        ndarr.POSITIVE_ATOMS.clear()             # signs unknown: the comparisons with zero stay undetermined and reach the oracle
        label = '%s(%s)' % (cls, ', '.join('%s=%r' % kv for kv in sorted(kw.items())))
        try:
            gen = I.get_global(modname, cls)(**kw)
            steps = list(gen(*args))
            untested = []
            for st in steps:
                for v in (st.items() if isinstance(st, Arr) else [st]):
                    if repr(ndarr.s_abs(v)) not in tested and repr(v) not in tested:
                        untested.append(repr(v)[:60])
            # an array valued step: the test that lets it through must hold exactly when none of its elements is zero
            weak = []
            for st in steps:
                if isinstance(st, Arr) and st.size > 1:
                    mags = {repr(ndarr.s_abs(v)) for v in st.items()}
                    shapes = [sh for keys, sh in jointly if keys >= mags]
                    if not any(sh == ('not-any', len(mags)) for sh in shapes):
                        weak.append({'step': repr(st.items())[:80], 'tests_of_all_its_elements': [list(sh) for sh in shapes][:2]})
            rep.check(bool(steps) and not untested and not weak, 'R-ZEROFILTER', '%s.%s.__call__' % (modname, cls), sg.relpath,
                      {'steps': len(steps), 'compared_with_zero': tested[:4], 'yielded_without_a_test': untested[:3],
                       'kept_although_an_element_may_be_zero': weak[:2]},
                      'each yielded step was compared with zero; an array step is kept only if no element is zero', label, key='zero filter')
        except InterpRaise as exc:
            rep.violation('R-ZEROFILTER', '%s.%s.__call__' % (modname, cls), sg.relpath, {'raises': exc.exc_name, 'message': exc.msg[:100]},
                          'steps', label, key='zero filter raises')
        except AnalysisError as exc:
            rep.undecided('R-ZEROFILTER', '%s.%s.__call__' % (modname, cls), exc, label)
        finally:
            ndarr.POSITIVE_ATOMS.clear()
            ndarr.POSITIVE_ATOMS.update(saved)


def enough(ctx):
    rep = ctx.rep
    core = ctx.repo.module('core')
    P = Pipeline(ctx.repo)
    I = P.interp
    ns = range(1, 11)
    orders = range(1, 9) if ctx.tier != 'quick' else (1, 2, 3, 4, 6, 8)
    for gen_kind in ('derivative default', 'MinStepGenerator()', 'MaxStepGenerator()'):
        for method in ('central', 'forward', 'backward', 'complex', 'multicomplex'):
            for n in (ns if method != 'multicomplex' else (1, 2)):
                for order in orders:
                    if ctx.tier == 'quick' and gen_kind != 'derivative default' and (n > 6 or order > 4):
                        continue
                    P.clear_cache()
                    if gen_kind == 'derivative default':
                        step = None
                    else:
                        step = I.get_global('step_generators', gen_kind[:-2])()
                    label = '%s/%s/n=%d/order=%d' % (gen_kind, method, n, order)
                    try:
                        obj, x = P.build('Derivative', method, order, n=n, step=step)
                        (der, h, shape), fxi = estimates(I, obj, x)
                        rows = der.shape[0]
                        rep.ok('R-ENOUGH', 'core.Derivative._get_steps', core.relpath,
                               {'steps_generated': len(P.calls) and None, 'estimate_rows': rows}, label)
                    except InterpRaise as exc:
                        rep.violation('R-ENOUGH', 'core.Derivative._get_steps', core.relpath,
                                      {'raises': exc.exc_name, 'message': exc.msg[:120]},
                                      'the default step count is enough for the rule', label,
                                      key='enough %s %s' % (gen_kind, method))
