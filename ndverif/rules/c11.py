"""C11 Misuse fails loudly with ValueError instead of returning numbers."""
import ast
from fractions import Fraction as Fr

from ..srcmodel import AnalysisError
from ..stages import estimates
from ..algebra import Poly
from .. import ndarr
from ..ndarr import Arr, InterpRaise
from ..absint import Interp
from ..libmodels import Models
from ..dv import DV, tags_of, NONZERO_STEPS
from ..dvrun import explore, bicomplex_aware, tensor_f, DVSession
from ..pipeline import Pipeline

RULES = {
    'R-ASSERT': 'each module level _assert raises ValueError iff its condition is false',
    'R-COMPLEXGUARD': 'for each of Derivative, Gradient, Jacobian, Hessdiag, Hessian with method complex / multicomplex: a call with '
                      'complex x, with a complex valued f, or both, ends in ValueError on every path - on a fresh object and on an '
                      'object that was called legally before - and no numeric result is returned',
    'R-MISUSE': 'the listed misuses raise ValueError: multicomplex with n >= 3 (every n up to 10), fewer steps than the rule needs, a '
                'function that does not return one value per element, directionaldiff with mismatched sizes, fd_weights / fd_derivative '
                'with too few or mismatched points, Residue with order <= pole_order, an unknown Limit path',
}


def run(ctx):
    rep = ctx.rep
    rep.notes['explanation'] = (
        'Every misuse of the statement is run in the abstract interpreter (data-abstract domain for the derivative classes, '
        'exact algebra for the others); the check is that the call ends in an exception of class ValueError on every path '
        'through undetermined branches, i.e. that a guard dominates the return of a numeric result.')
    for rid, text in RULES.items():
        rep.rule(rid, text, {'R-ASSERT': 5, 'R-COMPLEXGUARD': 30, 'R-MISUSE': 20}[rid])
    asserts(ctx)
    complex_guard(ctx)
    misuse(ctx)
    rep.notes['trusted_base'] = ['python ast', 'ndverif abstract interpreter and numpy summaries']


def asserts(ctx):
    rep = ctx.rep
    models = Models()
    I = Interp(ctx.repo, models)
    models.bind(I)
    for modname in ('core', 'finite_difference', 'extrapolation', 'limits', 'fornberg'):
        mod = ctx.repo.module(modname)
        if '_assert' not in mod.funcs:
            raise AnalysisError('anchor vanished: %s._assert' % modname)
        fn = I.get_global(modname, '_assert')
        got_false, got_true = None, 'no exception'
        try:
            fn(False, 'msg')
            got_false = 'no exception'
        except InterpRaise as exc:
            got_false = exc.exc_name
        try:
            fn(True, 'msg')
        except InterpRaise as exc:
            got_true = exc.exc_name
        rep.check(got_false == 'ValueError' and got_true == 'no exception', 'R-ASSERT', '%s._assert' % modname,
                  mod.where(mod.funcs['_assert']), {'_assert(False)': got_false, '_assert(True)': got_true},
                  'ValueError / nothing', modname, key='assert %s' % modname)


CLASSES = (('Derivative', None), ('Gradient', ()), ('Jacobian', (2,)), ('Hessdiag', ()), ('Hessian', ()))


def complex_guard(ctx):
    rep = ctx.rep
    core = ctx.repo.module('core')
    for cls, fshape in CLASSES:
        for method in ('complex', 'multicomplex'):
            for what in ('complex x', 'complex valued f', 'both'):
                for history in ('fresh object', 'after a legal call', 'built as central, method set afterwards',
                                'fresh object, full_output=True'):
                    guard_case(ctx, core, cls, fshape, method, what, history)
    # derivative orders whose rule needs f(x) anyway (complex, n % 4 == 0) take another route through _eval_first
    for what in ('complex x', 'complex valued f', 'both'):
        guard_case(ctx, core, 'Derivative', None, 'complex', what, 'fresh object', nd=4)
        guard_case(ctx, core, 'Derivative', None, 'complex', what, 'fresh object, full_output=True', nd=3)


def guard_case(ctx, core, cls, fshape, method, what, history, nd=None):
    rep = ctx.rep
    label = '%s/%s/%s/%s%s' % (cls, method, what, history, '' if nd is None else '/n=%d' % nd)
    n = 2

    def body(s):
        I = s.interp
        C = I.get_global('core', cls)
        xk = 'z' if what in ('complex x', 'both') else 'f'
        fk = 'z' if what in ('complex valued f', 'both') else 'f'
        state = {'kind': 'f'}
        if fshape is None:
            base = s.elementwise_f()

            def f(x, *a, **k):
                r = base(x, *a, **k)
                if state['kind'] == 'z':
                    r = ndarr.ew1(lambda v: DV(v.tags, 'z'), r)
                return r
            f = bicomplex_aware(s, f)
        else:
            t_real = tensor_f(s, n, fshape, 'f')

            def f(x, *a, **k):
                r = t_real(x, *a, **k)
                if state['kind'] == 'z' and not hasattr(r, 'cls'):
                    r = ndarr.ew1(lambda v: DV(v.tags, 'z'), r) if isinstance(r, Arr) else DV(r.tags, 'z')
                return r
        if history == 'built as central, method set afterwards':
            d = C(f, method='central')
            d(s.x_array((n,), 'f'))
            I.setattr(d, 'method', method)
        else:
            kw = {}
            if history.endswith('full_output=True'):
                kw['full_output'] = True
            if nd is not None:
                kw['n'] = nd
            d = C(f, method=method, **kw)
        if history == 'after a legal call':
            d(s.x_array((n,), 'f'))
        state['kind'] = fk
        x = s.x_array((n,), xk)
        return d(x)
    ex = explore(ctx.repo, body, pinned=NONZERO_STEPS)
    bad = []
    for decisions, res, exc in ex.paths:
        path = ', '.join('%s=%s' % (d[1][:30], d[0]) for d in decisions) or 'straight'
        if exc is None:
            bad.append({'path': path, 'returned': repr(res)[:100]})
        elif exc.exc_name != 'ValueError':
            bad.append({'path': path, 'raises': exc.exc_name, 'message': exc.msg[:80]})
    rep.check(not bad, 'R-COMPLEXGUARD', 'core.%s.__call__' % cls, core.relpath,
              {'paths': len(ex.paths), 'not_rejected': bad[:2]}, 'ValueError on every path', label,
              key='complexguard %s %s' % (cls, history))


def expect_value_error(rep, rule, construct, where, label, thunk, key):
    try:
        res = thunk()
        rep.violation(rule, construct, where, {'returned': repr(res)[:120]}, 'ValueError', label, key=key)
    except InterpRaise as exc:
        rep.check(exc.exc_name == 'ValueError', rule, construct, where, {'raises': exc.exc_name, 'message': exc.msg[:100]},
                  'ValueError', label, key=key)


def misuse(ctx):
    rep = ctx.rep
    repo = ctx.repo
    core, fd, lim, fb, ex = (repo.module(m) for m in ('core', 'finite_difference', 'limits', 'fornberg', 'extrapolation'))
    # multicomplex n >= 3
    for n in range(3, 11):
      # (every class that accepts n: the rule classes of Jacobian / Gradient may override what n means)
      for cls, dim in (('Derivative', None), ('Jacobian', 2), ('Gradient', 2)):
        if cls != 'Derivative' and n > 4 and ctx.tier == 'quick':
            continue
        P = Pipeline(repo)

        def thunk(P=P, n=n, cls=cls, dim=dim):
            obj, x = P.build(cls, 'multicomplex', 2, n=n, dim=dim, step=P.sym_generator('Min'))
            return estimates(P.interp, obj, x)
        expect_value_error(rep, 'R-MISUSE', 'finite_difference.LogRule._multicomplex_middle_name', fd.relpath,
                           '%s(method=multicomplex, n=%d)' % (cls, n), thunk, 'multicomplex n>2')
      if True:
        P2 = Pipeline(repo)

        def thunk2(P2=P2, n=n):
            r = P2.interp.get_global('finite_difference', 'LogRule')(n=n, method='multicomplex', order=2)
            return P2.interp.getattr(r, 'diff')
        expect_value_error(rep, 'R-MISUSE', 'finite_difference.LogRule.diff', fd.relpath,
                           'LogRule(n=%d, multicomplex).diff' % n, thunk2, 'multicomplex n>2 diff')
    # ... and in a process that has used the method legally before (a memo filled by n = 1, 2 must not answer for n = 5, 6)
    Ph = Pipeline(repo)
    for n_ok in (1, 2):
        obj, x = Ph.build('Derivative', 'multicomplex', 2, n=n_ok, step=Ph.sym_generator('Min'))
        estimates(Ph.interp, obj, x)
    for n in range(3, 11):
        def thunk_h(n=n):
            obj, x = Ph.build('Derivative', 'multicomplex', 2, n=n, step=Ph.sym_generator('Min'))
            return estimates(Ph.interp, obj, x)
        expect_value_error(rep, 'R-MISUSE', 'finite_difference.LogRule._multicomplex_middle_name', fd.relpath,
                           'Derivative(method=multicomplex, n=%d) after legal calls with n = 1, 2 in the same process' % n, thunk_h,
                           'multicomplex n>2')
    # ... and when the illegal configuration is reached through the setters of an existing object
    for n in (3, 4, 5):
        for route in ('n set afterwards', 'method set afterwards'):
            Ps = Pipeline(repo)

            def thunk_s(Ps=Ps, n=n, route=route):
                if route == 'n set afterwards':
                    obj, x = Ps.build('Derivative', 'multicomplex', 2, n=2, step=Ps.sym_generator('Min'))
                    estimates(Ps.interp, obj, x)
                    Ps.interp.setattr(obj, 'n', n)
                else:
                    obj, x = Ps.build('Derivative', 'central', 2, n=n, step=Ps.sym_generator('Min'))
                    estimates(Ps.interp, obj, x)
                    Ps.interp.setattr(obj, 'method', 'multicomplex')
                return estimates(Ps.interp, obj, x)
            expect_value_error(rep, 'R-MISUSE', 'finite_difference.LogRule._multicomplex_middle_name', fd.relpath,
                               'Derivative: multicomplex with n=%d, %s' % (n, route), thunk_s, 'multicomplex n>2')
    # fewer steps than the rule needs
    for method, n, order, steps in (('central', 3, 4, 2), ('forward', 2, 3, 3), ('complex', 5, 4, 1), ('central', 1, 6, 2)):
        P = Pipeline(repo)

        def thunk(P=P, method=method, n=n, order=order, steps=steps):
            gen = P.sym_generator('Min', num_steps=steps, check_num_steps=False)
            obj, x = P.build('Derivative', method, order, n=n, step=gen)
            return estimates(P.interp, obj, x)
        expect_value_error(rep, 'R-MISUSE', 'finite_difference.LogRule._apply', fd.relpath,
                           'Derivative(%s, n=%d, order=%d) with %d steps' % (method, n, order, steps), thunk, 'too few steps')
    # ... for every configuration class: one step fewer than the rule has weights must be refused (the number of weights is
    # read from the abstractly evaluated rule of the same object, not from a formula)
    ns = (1, 2, 3, 4, 5, 6) if ctx.tier == 'quick' else tuple(range(1, 11))
    orders = (1, 2, 3, 4) if ctx.tier == 'quick' else (1, 2, 3, 4, 5, 6, 8)
    for method in ('central', 'forward', 'backward', 'complex'):
        for n in ns:
            for order in orders:
                P = Pipeline(repo)
                try:
                    obj0, x0 = P.build('Derivative', method, order, n=n, step=P.sym_generator('Min'))
                    size = P.interp.getattr(P.interp.getattr(obj0, 'fd_rule'), 'rule')(Poly.sym('r')).size
                except (InterpRaise, AnalysisError):
                    continue
                if size < 2:
                    continue

                def thunk(P=P, method=method, n=n, order=order, steps=size - 1):
                    P.clear_cache()
                    gen = P.sym_generator('Min', num_steps=steps, check_num_steps=False)
                    obj, x = P.build('Derivative', method, order, n=n, step=gen)
                    return estimates(P.interp, obj, x)
                expect_value_error(rep, 'R-MISUSE', 'finite_difference.LogRule._apply', fd.relpath,
                                   'Derivative(%s, n=%d, order=%d): rule of %d weights, %d steps' % (method, n, order, size, size - 1),
                                   thunk, 'too few steps')
    # too few steps with an array x (the guard must count steps, not table cells)
    for cls, xshape, fshape, steps in (('Derivative', (3,), None, 1), ('Gradient', (3,), (), 1), ('Hessdiag', (2,), (), 1),
                                       ('Jacobian', (2,), (2,), 1)):
        def body(s, cls=cls, xshape=xshape, fshape=fshape, steps=steps):
            from ..dvrun import StepGenModel
            I = s.interp
            C = I.get_global('core', cls)
            nn = 1
            for d_ in xshape:
                nn *= d_
            f = s.elementwise_f() if fshape is None else tensor_f(s, nn, fshape)
            d = C(f, method='forward', step=StepGenModel(num_steps=steps))
            return d(s.x_array(xshape))
        exr = explore(repo, body, pinned=NONZERO_STEPS)
        bad = [(exc.exc_name if exc else 'returned a result') for d, r, exc in exr.paths if exc is None or exc.exc_name != 'ValueError']
        rep.check(not bad, 'R-MISUSE', 'finite_difference.LogRule._apply', fd.relpath, {'paths': len(exr.paths), 'outcomes': bad[:3]},
                  'ValueError: fewer steps than the rule needs', '%s forward with %d step, x.shape=%s' % (cls, steps, xshape),
                  key='too few steps (array x)')
    # function that does not return one value per element
    for cls, bad_size in (('Derivative', 2), ('Derivative', 4), ('Hessdiag', 3)):
        def body(s, cls=cls, bad_size=bad_size):
            I = s.interp
            C = I.get_global('core', cls)

            def f(x, *a, **k):
                return Arr((bad_size,), [DV({('f', c)}, 'f') for c in range(bad_size)])
            d = C(f)
            return d(s.x_array((3,) if cls == 'Derivative' else (2,)))
        exr = explore(repo, body, pinned=NONZERO_STEPS)
        bad = [(exc.exc_name if exc else 'returned') for d, r, exc in exr.paths if exc is None or exc.exc_name != 'ValueError']
        rep.check(not bad, 'R-MISUSE', 'finite_difference.LogRule._vstack', fd.relpath, {'paths': len(exr.paths), 'outcomes': bad[:3]},
                  'ValueError (fun did not return data of correct size)', '%s with f returning %d values' % (cls, bad_size),
                  key='wrong size')
    # ... the same for the routines that do not go through the finite difference rule: n = 0 and Limit
    for what, bad_size in (('Derivative n=0', 1), ('Derivative n=0', 2), ('Derivative n=0 complex', 1), ('Limit.limit', 1), ('Limit.limit', 2)):
        def body(s, what=what, bad_size=bad_size):
            I = s.interp

            def f(x, *a, **k):
                if bad_size == 1:
                    return DV({('f', 0)}, 'f')                       # e.g. np.sum(x**2): one number for a vector
                return Arr((bad_size,), [DV({('f', c)}, 'f') for c in range(bad_size)])
            if what.startswith('Derivative'):
                d = I.get_global('core', 'Derivative')(f, n=0, method='complex' if what.endswith('complex') else 'central')
                return d(s.x_array((3,)))
            L = I.get_global('limits', 'Limit')(f, num_steps=5)
            return I.getattr(L, 'limit')(s.x_array((3,)))
        try:
            exr = explore(repo, body, pinned=NONZERO_STEPS)
        except AnalysisError as exc:
            rep.undecided('R-MISUSE', 'limits._Limit._vstack', exc, '%s with f returning %d value(s) for 3 inputs' % (what, bad_size))
            continue
        bad = [(exc.exc_name if exc else 'returned') for d, r, exc in exr.paths if exc is None or exc.exc_name != 'ValueError']
        rep.check(not bad, 'R-MISUSE', 'limits._Limit._vstack', lim.relpath, {'paths': len(exr.paths), 'outcomes': bad[:3]},
                  'ValueError (fun did not return data of correct size)', '%s with f returning %d value(s) for 3 inputs' % (what, bad_size),
                  key='wrong size (n = 0 / limit)')
    # directionaldiff sizes
    models = Models()
    I = Interp(repo, models)
    models.bind(I)
    dd = I.get_global('core', 'directionaldiff')
    for xs, vs in (((3,), (2,)), ((2, 2), (3,)), ((2,), (3, 1))):
        x0 = Arr(xs, [Poly.sym('x%d' % k) for k in range(_n(xs))])
        v = Arr(vs, [Poly.sym('v%d' % k) for k in range(_n(vs))])
        expect_value_error(rep, 'R-MISUSE', 'core.directionaldiff', core.where(repo.func('core', 'directionaldiff')),
                           'x0.shape=%s vec.shape=%s' % (xs, vs), lambda x0=x0, v=v: dd(lambda t: t, x0, v), 'dirdiff sizes')
    # fornberg
    fwa = I.get_global('fornberg', 'fd_weights_all')
    fw = I.get_global('fornberg', 'fd_weights')
    fdd = I.get_global('fornberg', 'fd_derivative')
    for m, n in ((3, 3), (2, 5), (1, 1)):
        xa = Arr((m,), [Poly.sym('x%d' % k) for k in range(m)])
        expect_value_error(rep, 'R-MISUSE', 'fornberg.fd_weights_all', fb.where(repo.func('fornberg', 'fd_weights_all')),
                           'len(x)=%d n=%d' % (m, n), lambda xa=xa, n=n: fwa(xa, 0, n), 'fd_weights too few')
        expect_value_error(rep, 'R-MISUSE', 'fornberg.fd_weights', fb.where(repo.func('fornberg', 'fd_weights')),
                           'len(x)=%d n=%d' % (m, n), lambda xa=xa, n=n: fw(xa, 0, n), 'fd_weights too few')
    for m, mf, n in ((3, 3, 3), (6, 5, 1), (2, 2, 4), (6, 8, 1), (7, 9, 2)):
        xa = Arr((m,), [Poly.sym('x%d' % k) for k in range(m)])
        fa = Arr((mf,), [Poly.sym('f%d' % k) for k in range(mf)])
        def stub(fn, args, kwargs, node, fr):
            # the weights themselves do not matter here (and are expensive symbolically): keep them formal
            if fn is fw and isinstance(args[0], Arr):
                return (Arr((args[0].size,), [Poly.sym('w%d' % k) for k in range(args[0].size)]),)
            return None
        I.on_call = stub
        try:
            expect_value_error(rep, 'R-MISUSE', 'fornberg.fd_derivative', fb.where(repo.func('fornberg', 'fd_derivative')),
                               'len(x)=%d len(fx)=%d n=%d' % (m, mf, n), lambda xa=xa, fa=fa, n=n: fdd(fa, xa, n),
                               'fd_derivative points')
        finally:
            I.on_call = None
    # Residue order <= pole_order
    Res = I.get_global('limits', 'Residue')
    for order, pole in ((1, 1), (2, 2), (1, 3), (2, 3), (0, 1), (0, 2), (0, 3), (3, 3)):
        expect_value_error(rep, 'R-MISUSE', 'limits.Residue.__init__', lim.relpath, 'order=%d pole_order=%d' % (order, pole),
                           lambda order=order, pole=pole: Res(lambda z: z, order=order, pole_order=pole), 'residue order')
    # unknown path
    Lim = I.get_global('limits', 'Limit')
    Cg = I.get_global('limits', 'CStepGenerator')
    # (names that differ from the two valid ones in any way: another word, a valid name as a prefix / in another case / padded,
    # its first letter, the empty string)
    for bogus in ('zigzag', 'circle', 'straight', 'random', 'rectangular', 'sideways', 'Spiral', 'RADIAL', 'radial ', ' spiral',
                  'r', 's', 'spiral2', ''):
        expect_value_error(rep, 'R-MISUSE', 'limits.CStepGenerator._check_path', lim.relpath, 'Limit(path=%r)' % bogus,
                           lambda bogus=bogus: Lim(lambda z: z, path=bogus), 'unknown path')
        expect_value_error(rep, 'R-MISUSE', 'limits.CStepGenerator._check_path', lim.relpath, 'CStepGenerator(path=%r)' % bogus,
                           lambda bogus=bogus: Cg(path=bogus), 'unknown path')


def _n(shape):
    k = 1
    for s in shape:
        k *= s
    return k
