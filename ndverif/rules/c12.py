"""C12 Bicomplex numbers implement the holomorphic extension of every function.

Oracle (written once, here): the idempotent decomposition
    F(z1 + j z2) = e1 f(z1 - i z2) + e2 f(z1 + i z2),  e1 = (1 + ij)/2, e2 = (1 - ij)/2
 => Z1 = (f(z1 - i z2) + f(z1 + i z2)) / 2 ,  Z2 = i (f(z1 - i z2) - f(z1 + i z2)) / 2.
Three levels of decision, all by abstract interpretation of the method bodies:
  component level, exp-polynomial algebra  : ring operations, exp sin cos sinh cosh expm1 (decision procedure)
  component level, polar substitution      : log, log1p, mod_c, arg_c, __pow__ for sample exponents
  function level, formal field of functions: division and every derived / inverse function against the
                                             textbook identity table
"""
import ast
from fractions import Fraction as Fr

from ..srcmodel import AnalysisError
from ..algebra import Poly, Rat, Z8, AlgebraError, alg_equal
from .. import ndarr
from ..ndarr import Arr, Unk, Choice, InterpRaise
from ..absint import Interp, Obj, ClassRef, Closure
from ..libmodels import Models, opaque

I_ = Poly.const(Z8.I)
HALF = Poly.const(Fr(1, 2))

# ------------------------------------------------------------------ exp-polynomial algebra
VARS = ('z1', 'z2', 'w1', 'w2', 'TH', 'LR')


def linear_terms(u):
    """u: Poly that is a homogeneous linear form in VARS with coefficients (rational or Gaussian) * other atoms.
    -> list of (var, rest_monomial(tuple), coef Z8)  or None."""
    out = []
    for mono, c in u.t.items():
        vs = [(s, e) for s, e in mono if s in VARS]
        if len(vs) != 1 or vs[0][1] != 1:
            return None
        rest = tuple((s, e) for s, e in mono if s not in VARS)
        if c.has_j():
            return None
        out.append((vs[0][0], rest, c))
    return out


def exp_of(u):
    """formal exp of a linear form: product of atoms E[rest*var]**Re(c) * E[i*rest*var]**Im(c)"""
    if isinstance(u, (int, Fr)):
        u = Poly.const(u)
    if u.is_zero():
        return Poly.const(1)
    terms = linear_terms(u)
    if terms is None:
        return None
    res = Poly.const(1)
    for var, rest, c in terms:
        (re, rq), (im, iq) = c.re_im()
        if rq != 0 or iq != 0:
            return None
        base = ''.join('%s^%s*' % (s, e) for s, e in rest) + var
        if var == 'LR' and not rest:
            # exp(p * log(rho)) = rho**p ; exp(i q log rho) kept formal
            if re != 0:
                res = res * Poly.sym('RHO', re)
            if im != 0:
                res = res * Poly.sym('E[i*LR]', im)
            continue
        if re != 0:
            res = res * Poly.sym('E[%s]' % base, re)
        if im != 0:
            res = res * Poly.sym('E[i*%s]' % base, im)
    return res


def exppoly_ufunc(name, x):
    """Element hook: elementary functions of linear forms become exp-polynomials."""
    if not isinstance(x, (Poly, int, Fr)):
        return NotImplemented
    u = Poly.of(x)
    if name in ('exp', 'expm1', 'sin', 'cos', 'sinh', 'cosh'):
        e_p = exp_of(u)
        if e_p is None:
            return NotImplemented
        if name == 'exp':
            return e_p
        if name == 'expm1':
            return e_p - 1
        e_m = exp_of(-u)
        if name == 'cosh':
            return (e_p + e_m) * HALF
        if name == 'sinh':
            return (e_p - e_m) * HALF
        ei_p, ei_m = exp_of(u * I_), exp_of(-u * I_)
        if ei_p is None:
            return NotImplemented
        if name == 'cos':
            return (ei_p + ei_m) * HALF
        if name == 'sin':
            return (ei_p - ei_m) * HALF * (-I_)
    return NotImplemented


def oracle_components(name, z1, z2):
    """Z1, Z2 of the holomorphic extension of the scalar function `name` (exp-polynomial class)."""
    fm = exppoly_ufunc(name, z1 - I_ * z2)
    fp = exppoly_ufunc(name, z1 + I_ * z2)
    return (fm + fp) * HALF, (fm - fp) * HALF * I_


# ------------------------------------------------------------------ interpreter set-up
def make_interp(repo, ufunc_hook, tiny_zero=True, oracle=None):
    hooks = {'ufunc': ufunc_hook}
    models = Models(hooks=hooks)
    if tiny_zero:
        # regularisers are dropped: the formal identity is what is decided
        models.np.finfo = lambda t=None: type('finfo', (), dict(eps=Poly.sym('EPS'), tiny=0, smallest_normal=0,
                                                                 max=Poly.sym('HUGE')))()
    I = Interp(repo, models, branch_oracle=oracle)
    models.bind(I)
    return I, models


def bic(I, z1, z2):
    cref = I.get_global('multicomplex', 'Bicomplex')
    return cref(z1, z2)          # through the real constructor (it may set up more state than the two components)


def comps(o):
    def one(v):
        if isinstance(v, Arr):
            if v.size != 1:
                raise AnalysisError('component is an array of size %d' % v.size)
            v = v.item()
        return v
    return one(o.attrs['z1']), one(o.attrs['z2'])


def same(a, b):
    try:
        return bool(alg_equal(a, b))
    except (AlgebraError, TypeError):
        return False


# ------------------------------------------------------------------ the rules
RULES = {
    'R-RING': 'ring operations (+, -, unary -, *, reflected forms, conjugate, size-1 dot) agree with C[j]/(j^2+1) on symbolic components',
    'R-EXPPOLY': 'exp, sin, cos, sinh, cosh, expm1: both components equal the idempotent-decomposition oracle as exp-polynomials '
                 '(decision procedure)',
    'R-LOG': 'log / log1p / mod_c / arg_c under the polar substitution z = rho*(cos t + j sin t) (resp. 1 + z): components are '
             '(log rho, t); regularisers dropped, principal branch',
    'R-POW': '__pow__ is exp(p * log z): checked as rho^p (cos p t, sin p t) for p in {2, 3, -1, -2, 1/2}; _pow_singular equals the '
             'idempotent formula with formal powers',
    'R-DIV': 'division operators are multiplication by the -1 power (formal field of functions)',
    'R-DERIVED': 'tan cot sec csc tanh coth sech csch exp2 sqrt log2 log10 arcsin arccos arctan arcsinh arccosh arctanh __rpow__ equal '
                 'their textbook definitions in terms of sin cos sinh cosh exp log pow (any square root of -1 accepted as the unit)',
    'R-BRANCH': 'half-plane correction of the bicomplex argument: on sign representatives of (Re z1, Re z2) the multiple of pi that '
                '_arg_c adds to arctan(z2 / z1) is odd when Re z1 < 0 (arctan alone has a positive cosine, so exp(log z) = z and '
                'the reduction to the complex logarithm at z2 = 0 need it) and zero when Re z1 > 0 or z1 = 0 (arctan(z2 / tiny) is '
                'already +-pi/2 there; purely imaginary z1 is left out, it sits on the branch cut)',
    'R-ELEMENTWISE': 'array arguments: every element of z ** p is the formal expression the scalar call gives for that element, and an '
                     'element with z1^2 + z2^2 = 0 (the step x + ih + jh at x = 0) gets the value of the idempotent formula, z^p exactly '
                     '- the singular fallback applies to exactly the masked elements (concrete sign / modulus representatives)',
    'R-STATE': 'results are functions of the current components only: after a write to the components (z[k] = v, through a '
               'slice wrapper z[a:b][k] = v, which shares storage, or into z.z1 directly) mod_c / log / a power of z equal those of a '
               'fresh object built from the same components (no memoised quantity survives a write)',
    'R-ALIASES': 'component properties: real = z1.real, imag = imag1 = z1.imag, imag2 = z2.real, imag12 = z2.imag',
}


def run(ctx):
    rep = ctx.rep
    rep.notes['explanation'] = (
        'Not decided: branch cuts, the _TINY regularisers, rounding (e.g. loss of accuracy of exp(p*log z) for negative '
        'real base), and the O(h^2) truncation statement (that one follows from the multicomplex signatures checked under '
        'C01). Decided: the formal identity between every Bicomplex operation and the holomorphic extension defined by the '
        'idempotent decomposition, by abstract interpretation of the method bodies over symbolic components.')
    rep.assume('formal identities: regularisers (_TINY, clip) are dropped and the principal branch (Re z1 > 0) is taken')
    mins = {'R-RING': 8, 'R-EXPPOLY': 6, 'R-LOG': 4, 'R-POW': 5, 'R-DIV': 3, 'R-DERIVED': 15, 'R-BRANCH': 8, 'R-ELEMENTWISE': 2, 'R-STATE': 6, 'R-ALIASES': 4}
    for rid, text in RULES.items():
        rep.rule(rid, text, mins[rid])
    mc = ctx.repo.module('multicomplex')
    if 'Bicomplex' not in mc.classes:
        raise AnalysisError('anchor vanished: multicomplex.Bicomplex')
    ring(ctx, mc)
    exppoly(ctx, mc)
    logs(ctx, mc)
    branch(ctx, mc)
    elementwise(ctx, mc)
    state(ctx, mc)
    state_pairs(ctx, mc)
    powers(ctx, mc)
    formal_level(ctx, mc)
    aliases(ctx, mc)
    rep.notes['trusted_base'] = ['python ast', 'ndverif abstract interpreter and exact algebra',
                                 'idempotent decomposition is a ring isomorphism (compositions follow)']


def where_of(mc, name):
    """where a report about Bicomplex.<name> points to; a private helper that was renamed or moved is reported at the class"""
    ci = mc.classes['Bicomplex']
    r = ci.lookup(name)
    if r is None:
        # not in the class body: a private helper that moved, or a method installed on the class at import time.  Only the
        # place of the report is decided here; whether the method exists is decided by the interpreter when it is called
        return mc.where(ci.node)
    return mc.where(r[1])


def singular_power_helper(mc):
    """name of the method that the power operator hands the non invertible elements to: the one-argument method that is
    applied to a *selection* of the elements (`self[mask].helper(p)`) in `__pow__` or in a method of the class reached from
    it.  No guess is made when there is not exactly one such call."""
    import ast
    ci = mc.classes['Bicomplex']
    if ci.lookup('__pow__') is None:
        raise AnalysisError('anchor vanished: Bicomplex.__pow__')
    seen, todo, found = set(), ['__pow__'], set()
    while todo:
        nm = todo.pop()
        if nm in seen:
            continue
        seen.add(nm)
        r = ci.lookup(nm)
        if r is None or not isinstance(r[1], ast.FunctionDef):
            continue
        for n in ast.walk(r[1]):
            if not (isinstance(n, ast.Call) and isinstance(n.func, ast.Attribute)):
                continue
            recv, meth = n.func.value, n.func.attr
            q = ci.lookup(meth)
            if q is None or q[0] not in ('method', 'static'):
                continue
            if isinstance(recv, ast.Subscript) and len(q[1].args.args) == 2:
                found.add(meth)
            elif isinstance(recv, ast.Name) and recv.id == 'self' and meth not in ('log', 'exp'):
                todo.append(meth)
    if len(found) != 1:
        raise AnalysisError('anchor vanished: the helper of Bicomplex.__pow__ for non invertible elements (candidates %s)'
                            % sorted(found))
    return found.pop()


def ring(ctx, mc):
    rep = ctx.rep
    I, models = make_interp(ctx.repo, lambda n, x: NotImplemented)
    a1, a2, b1, b2 = (Poly.sym(s) for s in ('a1', 'a2', 'b1', 'b2'))
    c = Poly.sym('c')
    A, B = bic(I, a1, a2), bic(I, b1, b2)
    cases = [
        ('__add__', lambda: I.binop(ast.Add(), A, B), (a1 + b1, a2 + b2)),
        ('__sub__', lambda: I.binop(ast.Sub(), A, B), (a1 - b1, a2 - b2)),
        ('__mul__', lambda: I.binop(ast.Mult(), A, B), (a1 * b1 - a2 * b2, a1 * b2 + a2 * b1)),
        ('__neg__', lambda: I.call_dunder(A, '__neg__'), (-a1, -a2)),
        ('__radd__', lambda: I.binop(ast.Add(), c, A), (c + a1, a2)),
        ('__rsub__', lambda: I.binop(ast.Sub(), c, A), (c - a1, -a2)),
        ('__rmul__', lambda: I.binop(ast.Mult(), c, A), (c * a1, c * a2)),
        ('__add__ (scalar)', lambda: I.binop(ast.Add(), A, c), (a1 + c, a2)),
        ('__mul__ (scalar)', lambda: I.binop(ast.Mult(), A, c), (a1 * c, a2 * c)),
        ('conjugate', lambda: I.getattr(A, 'conjugate')(), (a1, -a2)),
        ('dot', lambda: I.getattr(A, 'dot')(B), (a1 * b1 - a2 * b2, a1 * b2 + a2 * b1)),
    ]
    ci = mc.classes.get('Bicomplex')
    if ci is not None and ci.lookup('__array_ufunc__') is not None:
        # the class takes over numpy's dispatch: an ndarray on the left of an operator arrives here, not at the reflected
        # method - the operand order must survive
        arr = Arr((1,), [c])
        cases += [
            ('__array_ufunc__ (ndarray - z)', lambda: I.binop(ast.Sub(), arr, A), (c - a1, -a2)),
            ('__array_ufunc__ (ndarray + z)', lambda: I.binop(ast.Add(), arr, A), (c + a1, a2)),
            ('__array_ufunc__ (ndarray * z)', lambda: I.binop(ast.Mult(), arr, A), (c * a1, c * a2)),
        ]
    for name, thunk, want in cases:
        base = name.split(' ')[0]
        try:
            got = comps(thunk())
            ok = same(got[0], want[0]) and same(got[1], want[1])
            fact = {'z1': repr(got[0]), 'z2': repr(got[1])}
        except (InterpRaise,) as exc:
            ok, fact = False, {'raises': exc.exc_name, 'message': exc.msg[:100]}
        rep.check(ok, 'R-RING', 'multicomplex.Bicomplex.%s' % base, where_of(mc, base), fact,
                  'z1 = %r, z2 = %r' % want, name, key='ring %s' % base)


def exppoly(ctx, mc):
    rep = ctx.rep
    I, models = make_interp(ctx.repo, exppoly_ufunc)
    z1, z2 = Poly.sym('z1'), Poly.sym('z2')
    for name in ('exp', 'sin', 'cos', 'sinh', 'cosh', 'expm1'):
        Z = bic(I, z1, z2)
        try:
            got = comps(I.getattr(Z, name)())
            want = oracle_components(name, z1, z2)
            ok = same(got[0], want[0]) and same(got[1], want[1])
            fact = {'z1_ok': same(got[0], want[0]), 'z2_ok': same(got[1], want[1]),
                    'z1_minus_spec': repr(got[0] - want[0])[:200], 'z2_minus_spec': repr(got[1] - want[1])[:200]}
        except (InterpRaise, AlgebraError, TypeError) as exc:
            raise AnalysisError('Bicomplex.%s could not be normalised: %s' % (name, exc))
        rep.check(ok, 'R-EXPPOLY', 'multicomplex.Bicomplex.%s' % name, where_of(mc, name), fact,
                  'both components equal (f(z1 - i z2) +- f(z1 + i z2)) / 2 (times i)', name, key='exppoly %s' % name)


# ---- polar substitution
RHO, T = Poly.sym('RHO'), Poly.sym('E[i*TH]')
COS_T, SIN_T = (T + T ** -1) * HALF, (T - T ** -1) * HALF * (-I_)


POLAR_ATOMS = {'RHO', 'E[i*TH]', 'LR', 'TH', 'pi', 'E[i*LR]'}
OPAQUE_ARGS = {}      # atom name -> (function, argument) for opaque applications created under the polar substitution


def is_polar_normal(v):
    """True when v is a Poly/Rat over the polar atoms only (a fully normalised value)."""
    if isinstance(v, (int, Fr)):
        return True
    if isinstance(v, (Poly, Rat)):
        return v.atoms() <= POLAR_ATOMS
    return False


def polar_opaque(name, x):
    atom = '%s(%r)' % (name, x)
    OPAQUE_ARGS[atom] = (name, x)
    return Poly.sym(atom)


def polar_ufunc(name, x):
    r = exppoly_ufunc(name, x) if isinstance(x, Poly) and x.atoms() and x.atoms() <= set(VARS) else NotImplemented
    if r is not NotImplemented:
        return r
    if isinstance(x, (int, Fr)):
        x = Poly.const(x)
    if name == 'sqrt' and isinstance(x, Poly):
        if x.is_monomial():
            try:
                return x ** Fr(1, 2)
            except AlgebraError:
                pass
        return polar_opaque(name, x)
    if name in ('log', 'log1p') and isinstance(x, (Poly, Rat)):
        arg = x + 1 if name == 'log1p' else x
        if isinstance(arg, Poly) and arg.is_monomial():
            (mono, c), = arg.t.items()
            if c == Z8.ONE and len(mono) == 1 and mono[0][0] == 'RHO':
                return Poly.sym('LR') * mono[0][1]
        return polar_opaque('log', arg)
    if name == 'arctan' and isinstance(x, (Poly, Rat)):
        if same(x * COS_T, SIN_T):
            return Poly.sym('TH')
        return polar_opaque(name, x)
    if name in ('real', 'imag') and isinstance(x, (Poly, Rat)) and not (isinstance(x, Poly) and x.is_const()):
        # rho and theta stand for complex numbers: real / imaginary parts of a polar term stay symbolic
        return polar_opaque(name, x)
    return NotImplemented


def numeric_value(v, point):
    """Complex double value of a polar-domain term at a generic point (rho, theta); opaque log / sqrt / arctan
    applications are evaluated on their principal branches.  Only used to *refute* an identity."""
    import cmath
    rho, th = point
    base = {'RHO': rho, 'E[i*TH]': cmath.exp(1j * th), 'LR': cmath.log(rho), 'TH': th, 'pi': cmath.pi,
            'E[i*LR]': cmath.exp(1j * cmath.log(rho))}

    def zval(c):
        tot = 0j
        for (a, b), q in c.c.items():
            if b:
                raise AlgebraError('j in numeric evaluation')
            tot += complex(q) * cmath.exp(1j * cmath.pi / 4 * a)
        return tot

    def atom(a):
        if a in base:
            return base[a]
        if a in OPAQUE_ARGS:
            fname, arg = OPAQUE_ARGS[a]
            x = ev(arg)
            return {'log': cmath.log, 'sqrt': cmath.sqrt, 'arctan': cmath.atan, 'real': lambda z: complex(z.real),
                    'imag': lambda z: complex(z.imag)}[fname](x)
        from ..libmodels import OPAQUE
        if a in OPAQUE:
            import math
            fname, args = OPAQUE[a]
            xs = [ev(t) for t in args]
            table = {'arctan2': lambda p, q: complex(math.atan2(p.real, q.real)), 'abs': lambda z: complex(abs(z)),
                     'exp': cmath.exp, 'log': cmath.log, 'sqrt': cmath.sqrt, 'arctan': cmath.atan, 'cos': cmath.cos,
                     'sin': cmath.sin, 'real': lambda z: complex(z.real), 'imag': lambda z: complex(z.imag)}
            if fname in table:
                return table[fname](*xs)
        raise AlgebraError('atom %s has no numeric value' % a)

    def evp(p):
        tot = 0j
        for mono, c in p.t.items():
            term = zval(c)
            for a, e in mono:
                term *= atom(a) ** float(e)
            tot += term
        return tot

    def ev(x):
        if isinstance(x, (int, Fr)):
            return complex(x)
        if isinstance(x, Rat):
            return evp(x.n) / evp(x.d)
        return evp(x)
    return ev(v)


def numerically_different(got, want):
    try:
        for point in ((1.37, 0.61), (0.83, 0.29), (1.21 + 0.17j, 0.47 - 0.11j)):
            for g, w in zip(got, want):
                if abs(numeric_value(g, point) - numeric_value(w, point)) > 1e-6:
                    return True
    except (AlgebraError, KeyError, TypeError, ValueError, ZeroDivisionError, OverflowError):
        return False
    return False


def polar_verdict(got, want):
    """-> 'ok' | 'violation' | 'undecided'.  A value that still contains an opaque application is a decided
    violation when the argument of that application is itself fully normalised (log / arctan / sqrt are
    injective on the principal branch, so log(Y) == k*log(rho) iff Y == rho**k, which was tested), and
    undecided otherwise."""
    if all(same(g, w) for g, w in zip(got, want)):
        return 'ok'
    for g in got:
        if is_polar_normal(g):
            continue
        if not isinstance(g, (Poly, Rat)):
            return 'undecided'
        for a in g.atoms() - POLAR_ATOMS:
            if a not in OPAQUE_ARGS or not is_polar_normal(OPAQUE_ARGS[a][1]):
                # nested opaque applications: the identity can still be refuted at a generic point
                return 'violation' if numerically_different(got, want) else 'undecided'
    return 'violation' 


def polar_oracle(interp, node, fr, value):
    """principal branch: Re(z1) > 0, nothing singular"""
    # every elementary test of the data (a comparison, a membership of the singular set) is answered 'no'; negations and
    # any / all / and / or of such tests follow from that - the answer does not depend on how the condition is spelled
    def ev(e):
        e = e.expr if isinstance(e, Unk) else e
        if isinstance(e, bool):
            return e
        if isinstance(e, tuple) and e:
            if e[0] == 'not':
                return not ev(e[1])
            if e[0] in ('and', 'or'):
                a_, b_ = ev(e[1]), ev(e[2])
                return (a_ and b_) if e[0] == 'and' else (a_ or b_)
            if e[0] in ('any', 'all') and len(e) > 1 and isinstance(e[1], (list, tuple)):
                parts = [ev(x) for x in e[1]]
                return all(parts) if e[0] == 'all' else any(parts)
        return False
    return ev(value)


def logs(ctx, mc):
    rep = ctx.rep

    def setup():
        I, models = make_interp(ctx.repo, polar_ufunc, oracle=polar_oracle)
        # np.where(cond, a, b) with an undetermined condition on the sign of Re z1: principal branch
        models.hooks['np.where'] = lambda m, cond, a=None, b=None: (b if isinstance(cond, Unk) or
                                                                     (isinstance(cond, Arr) and any(isinstance(v, Unk) for v in cond.items()))
                                                                     else NotImplemented)
        models.hooks['np.clip'] = lambda m, a, *args, **kw: a
        return I, models
    LR, TH = Poly.sym('LR'), Poly.sym('TH')
    for name, z1, z2 in (('log', RHO * COS_T, RHO * SIN_T), ('log1p', RHO * COS_T - 1, RHO * SIN_T)):
        I, models = setup()
        Z = bic(I, z1, z2)
        try:
            got = comps(I.getattr(Z, name)())
            # the branch term sign*pi*(Re z1 <= 0) is an undetermined boolean times pi: drop it (principal branch)
            got = (drop_branch(got[0]), drop_branch(got[1]))
            verdict = polar_verdict(got, (LR, TH))
            fact = {'z1': repr(got[0])[:200], 'z2': repr(got[1])[:200]}
        except (AlgebraError, TypeError, AttributeError) as exc:
            verdict, fact = 'undecided', {'cannot_normalise': str(exc)[:200]}
        except InterpRaise as exc:
            verdict, fact = 'violation', {'raises': exc.exc_name, 'message': exc.msg[:120]}
        if verdict == 'undecided':
            rep.undecided('R-LOG', 'multicomplex.Bicomplex.%s' % name, fact, name)
            continue
        ok = verdict == 'ok'
        rep.check(ok, 'R-LOG', 'multicomplex.Bicomplex.%s' % name, where_of(mc, name), fact,
                  '(log rho, theta) for %s = rho (cos theta + j sin theta)' % ('z' if name == 'log' else '1 + z'), name,
                  key='log %s' % name)
    # mod_c and arg_c directly
    I, models = setup()
    Z = bic(I, RHO * COS_T, RHO * SIN_T)
    try:
        m = I.getattr(Z, 'mod_c')()
        m = m.item() if isinstance(m, Arr) else m
        verdict, fact = polar_verdict((m,), (RHO,)), {'mod_c': repr(m)[:160]}
    except (AlgebraError, TypeError, AttributeError) as exc:
        verdict, fact = 'undecided', {'cannot_normalise': str(exc)[:160]}
    if verdict == 'undecided':
        rep.undecided('R-LOG', 'multicomplex.Bicomplex.mod_c', fact, 'mod_c')
    else:
        rep.check(verdict == 'ok', 'R-LOG', 'multicomplex.Bicomplex.mod_c', where_of(mc, 'mod_c'), fact,
                  'sqrt(z1^2 + z2^2) = rho', 'mod_c', key='log mod_c')
    for nm, z1 in (('arg_c', RHO * COS_T), ('arg_c1p', RHO * COS_T - 1)):
        I, models = setup()
        Z = bic(I, z1, RHO * SIN_T)
        try:
            a = I.getattr(Z, nm)()
            a = drop_branch(a.item() if isinstance(a, Arr) else a)
            verdict, fact = polar_verdict((a,), (TH,)), {nm: repr(a)[:160]}
        except (AlgebraError, TypeError, AttributeError) as exc:
            verdict, fact = 'undecided', {'cannot_normalise': str(exc)[:160]}
        if verdict == 'undecided':
            rep.undecided('R-LOG', 'multicomplex.Bicomplex.%s' % nm, fact, nm)
            continue
        rep.check(verdict == 'ok', 'R-LOG', 'multicomplex.Bicomplex.%s' % nm, where_of(mc, nm), fact,
                  'arctan(z2 / z1) = theta', nm, key='log %s' % nm)


def branch(ctx, mc):
    """pi-multiple added by _arg_c on concrete sign representatives (arctan stays an opaque symbol)."""
    rep = ctx.rep
    where = where_of(mc, '_arg_c')
    for re1, im1 in ((-2, 0), (-2, 1), (Fr(-1, 3), -1), (3, 0), (Fr(1, 2), 1), (0, 0)):
        for re2, im2 in ((0, 0), (0, 1), (1, 0), (-1, 0), (Fr(1, 1000), -2), (Fr(-1, 1000), 0)):
            label = 'z1=%s%+dj, z2=%s%+dj' % (re1, im1, re2, im2)

            def hook(name, x):
                if name == 'arctan':
                    return Poly.const(0) if (isinstance(x, (int, Fr)) and x == 0) or (isinstance(x, Poly) and x.is_zero()) \
                        else Poly.sym('ATAN')
                return NotImplemented
            I, models = make_interp(ctx.repo, hook, tiny_zero=False)      # z1 = 0 is a case: keep the regulariser
            models.hooks['np.clip'] = lambda m, a, *args, **kw: a
            ndarr.POSITIVE_ATOMS.add('TINY')
            cref = I.get_global('multicomplex', 'Bicomplex')
            try:
                # through the public method arg_c() of an object built from the two components
                a = I.getattr(cref(Arr((), [Poly.const(re1) + I_ * im1]), Arr((), [Poly.const(re2) + I_ * im2])), 'arg_c')()
                a = a.item() if isinstance(a, Arr) else a
                a = Poly.of(a)
                k = None
                rest = Poly({m: c for m, c in a.t.items() if not any(sy == 'pi' for sy, _ in m)})
                pi_part = a - rest
                q = pi_part.subs({'pi': Poly.const(1)}) if hasattr(pi_part, 'subs') else None
                if q is not None and q.is_const() and q.const_value().is_rational():
                    k = q.const_value().rational()
                fact = {'arg_c': repr(a)[:120], 'pi_multiple': str(k)}
                if k is None:
                    rep.undecided('R-BRANCH', 'multicomplex.Bicomplex._arg_c', fact, label)
                    continue
                ok = (k == 0) if re1 >= 0 else (k.denominator == 1 and k.numerator % 2 == 1)
            except (AlgebraError, TypeError, AttributeError) as exc:
                rep.undecided('R-BRANCH', 'multicomplex.Bicomplex._arg_c', {'cannot_evaluate': str(exc)[:160]}, label)
                continue
            except InterpRaise as exc:
                ok, fact = False, {'raises': exc.exc_name, 'message': exc.msg[:120]}
            rep.check(ok, 'R-BRANCH', 'multicomplex.Bicomplex._arg_c', where, fact,
                      'odd multiple of pi for Re z1 < 0, none for Re z1 > 0 and for z1 = 0', label, key='branch')


def elementwise(ctx, mc, rule='R-ELEMENTWISE'):
    """z ** p on an array mixing regular and singular elements, against the scalar calls."""
    rep = ctx.rep
    where = where_of(mc, '__pow__')
    elems = [(Poly.const(1) + I_ * Fr(1, 2), Poly.const(Fr(1, 3))),          # regular
             (I_ * Fr(1, 2), Poly.const(Fr(1, 2))),                            # z1^2 + z2^2 = 0
             (Poly.const(2) - I_, Poly.const(Fr(3, 2)))]                       # regular

    def setup():
        sq = {}

        def hook(name, x):
            # modulus of a regular element: sqrt of a concrete non-zero complex number stays a symbol, its magnitude (only
            # compared with the 1e-15 threshold) is taken from the constant
            if name == 'sqrt' and isinstance(x, Poly) and x.is_const() and not x.is_zero() and ndarr.concrete_real(x) is None:
                nm = 'SQ[%r]' % (x,)
                c = x.const_value()
                sq[nm] = abs(complex(float(c.real().rational()), float(c.imag().rational()))) ** 0.5 if hasattr(c, 'real') else 1.0
                return Poly.sym(nm)
            if name in ('abs', 'absolute') and isinstance(x, Poly) and len(x.t) == 1:
                (mono, cf), = x.t.items()
                if len(mono) == 1 and mono[0][0] in sq and mono[0][1] == 1 and cf.is_rational():
                    return Fr(sq[mono[0][0]]).limit_denominator(10 ** 6) * abs(cf.rational())
            return NotImplemented
        I, models = make_interp(ctx.repo, hook)
        models.hooks['np.clip'] = lambda m, a, *args, **kw: a
        return I, models
    sing2 = (Poly.const(Fr(3, 4)), -I_ * Fr(3, 4))                             # another zero divisor, other value
    layouts = [('[regular, singular, regular]', elems, [1]),
               # two different singular elements that do not cover the array: their powers must land in their own slots
               ('[singular a, regular, singular b, regular]', [elems[1], elems[0], sing2, elems[2]], [0, 2])]
    for p, (lname, elems, singular_at) in [(p, lay) for p in (2, 3) for lay in layouts]:
        label = 'p=%d, z = %s' % (p, lname)
        try:
            I, models = setup()
            cref = I.get_global('multicomplex', 'Bicomplex')
            Z = cref(Arr((len(elems),), [e[0] for e in elems]), Arr((len(elems),), [e[1] for e in elems]))
            arr = I.binop(ast.Pow(), Z, p)
            a1, a2 = I.getattr(arr, 'z1').items(), I.getattr(arr, 'z2').items()
            problems = []
            for k, (z1, z2) in enumerate(elems):
                I2, models2 = setup()
                cref2 = I2.get_global('multicomplex', 'Bicomplex')
                sc = I2.binop(ast.Pow(), cref2(z1, z2), p)
                s1, s2 = comps(sc)
                if not (same(a1[k], s1) and same(a2[k], s2)):
                    problems.append('element %d: array call gives %s, the scalar call %s' % (k, repr(a1[k])[:70], repr(s1)[:70]))
            # exact value of the singular elements
            for k in singular_at:
                w1, w2 = elems[k]
                for _ in range(p - 1):
                    w1, w2 = w1 * elems[k][0] - w2 * elems[k][1], w1 * elems[k][1] + w2 * elems[k][0]
                if not (same(a1[k], w1) and same(a2[k], w2)):
                    problems.append('singular element %d: (%s, %s), exact z**%d is (%r, %r)'
                                    % (k, repr(a1[k])[:60], repr(a2[k])[:60], p, w1, w2))
            rep.check(not problems, rule, 'multicomplex.Bicomplex.__pow__', where, {'problems': problems[:3]},
                      'same expression as the scalar call for every element; exact power for the singular one', label, key='elementwise pow')
        except InterpRaise as exc:
            rep.violation(rule, 'multicomplex.Bicomplex.__pow__', where, {'raises': exc.exc_name, 'message': exc.msg[:120]},
                          'an array power', label, key='elementwise raises')
        except (AnalysisError, AlgebraError, TypeError, AttributeError) as exc:
            rep.undecided(rule, 'multicomplex.Bicomplex.__pow__', {'cannot_evaluate': str(exc)[:200]}, label)


def state(ctx, mc):
    """History scenarios on one Bicomplex array object: a derived quantity must follow writes to the components."""
    rep = ctx.rep
    a0, a1, b0, b1, v1, v2 = (Poly.sym(n) for n in ('a0', 'a1', 'b0', 'b1', 'v1', 'v2'))

    def write_direct(I, z, val):
        I.call_dunder(z, '__setitem__', 1, val)

    def write_slice(I, z, val):
        part = I.call_dunder(z, '__getitem__', slice(0, 2))
        I.call_dunder(part, '__setitem__', 1, val)

    def write_component(I, z, val):
        I.getattr(z, 'z1')[1] = I.getattr(val, 'z1').item() if isinstance(I.getattr(val, 'z1'), Arr) else I.getattr(val, 'z1')
        I.getattr(z, 'z2')[1] = I.getattr(val, 'z2').item() if isinstance(I.getattr(val, 'z2'), Arr) else I.getattr(val, 'z2')
    for wname, write in (('z[1] = v', write_direct), ('z[0:2][1] = v', write_slice), ('z.z1[1], z.z2[1] = v', write_component)):
        for mname, call in (('mod_c', lambda I, z: I.getattr(z, 'mod_c')()), ('log', lambda I, z: I.getattr(z, 'log')()),
                            ('__pow__', lambda I, z: I.call_dunder(z, '__pow__', 3))):
            label = '%s; %s; %s' % (mname, wname, mname)
            I, models = make_interp(ctx.repo, polar_ufunc, oracle=polar_oracle)
            models.hooks['np.where'] = lambda m, cond, a=None, b=None: (b if isinstance(cond, Unk) or
                                                                         (isinstance(cond, Arr) and any(isinstance(v, Unk) for v in cond.items()))
                                                                         else NotImplemented)
            models.hooks['np.clip'] = lambda m, a, *args, **kw: a
            cref = I.get_global('multicomplex', 'Bicomplex')
            try:
                z = cref(Arr((2,), [a0, a1]), Arr((2,), [b0, b1]))
                call(I, z)
                write(I, z, cref(v1, v2))
                got = call(I, z)
                z1n, z2n = I.getattr(z, 'z1'), I.getattr(z, 'z2')
                if not (same(z1n[1], v1) and same(z2n[1], v2)) and write is not write_slice:
                    # (a slice that is a copy, not a view, is no concern of the property: the object is then simply
                    # unchanged, and the comparison with a fresh object below is still the right question)
                    rep.undecided('R-STATE', 'multicomplex.Bicomplex.__setitem__', {'write_not_seen': repr(z1n)[:100]}, label)
                    continue
                fresh = call(I, cref(z1n.copy(), z2n.copy()))

                def flat(r):
                    if isinstance(r, Obj):
                        return list(I.getattr(r, 'z1').items()) + list(I.getattr(r, 'z2').items())
                    return list(r.items()) if isinstance(r, Arr) else [r]
                g, f = flat(got), flat(fresh)
                bad = [k for k in range(len(f)) if len(g) != len(f) or not same(drop_branch(g[k]), drop_branch(f[k]))]
                fact = {'stale_elements': bad[:4], 'got': repr(g[1])[:120] if len(g) > 1 else None,
                        'fresh': repr(f[1])[:120] if len(f) > 1 else None}
            except (AlgebraError, TypeError, AttributeError) as exc:
                rep.undecided('R-STATE', 'multicomplex.Bicomplex.%s' % mname, {'cannot_evaluate': str(exc)[:160]}, label)
                continue
            except InterpRaise as exc:
                bad, fact = True, {'raises': exc.exc_name, 'message': exc.msg[:120]}
            rep.check(not bad, 'R-STATE', 'multicomplex.Bicomplex.%s' % mname, where_of(mc, mname), fact,
                      'the value a fresh object with the same components gives', label, key='state %s' % mname)


def state_pairs(ctx, mc):
    """One elementary function called after another on the same object (scalar components): the second result is what a
    fresh object with the same components gives - nothing one function leaves on the object may steer another."""
    rep = ctx.rep
    names = ('sin', 'cos', 'sinh', 'cosh', 'exp')
    z1s, z2s = Poly.sym('z1'), Poly.sym('z2')

    def comps_of(I, r):
        return [I.getattr(r, 'z1'), I.getattr(r, 'z2')]

    def unwrap(v):
        return v.item() if isinstance(v, Arr) and v.size == 1 else v
    for first in names[:5]:
        for second in names:
            if first == second:
                continue
            label = 'z.%s(); z.%s()' % (first, second)
            try:
                I, models = make_interp(ctx.repo, exppoly_ufunc)
                cref = I.get_global('multicomplex', 'Bicomplex')
                z = cref(z1s, z2s)
                I.getattr(z, first)()
                got = [unwrap(v) for v in comps_of(I, I.getattr(z, second)())]
                I2, models2 = make_interp(ctx.repo, exppoly_ufunc)
                fresh = [unwrap(v) for v in comps_of(I2, I2.getattr(I2.get_global('multicomplex', 'Bicomplex')(z1s, z2s), second)())]
                bad = [k for k in range(2) if not same(got[k], fresh[k])]
                fact = {'components_that_differ': bad, 'after_the_other_call': repr(got[bad[0]])[:120] if bad else None,
                        'fresh': repr(fresh[bad[0]])[:120] if bad else None}
            except (AlgebraError, TypeError, AttributeError, AnalysisError) as exc:
                rep.undecided('R-STATE', 'multicomplex.Bicomplex.%s' % second, {'cannot_evaluate': str(exc)[:160]}, label)
                continue
            except InterpRaise as exc:
                bad, fact = True, {'raises': exc.exc_name, 'message': exc.msg[:120]}
            rep.check(not bad, 'R-STATE', 'multicomplex.Bicomplex.%s' % second, where_of(mc, second), fact,
                      'the value a fresh object with the same components gives', label, key='state pair %s' % second)


def drop_branch(v):
    """Remove k*pi terms whose coefficient is an undetermined boolean (Choice(cond, pi*sign, 0))."""
    if isinstance(v, Choice):
        return drop_branch(v.b) if v.b is not None else v
    if isinstance(v, Poly):
        return Poly({m: c for m, c in v.t.items() if not any(s == 'pi' for s, _ in m)})
    return v


def powers(ctx, mc):
    rep = ctx.rep
    for p in (2, 3, -1, -2, Fr(1, 2)):
        I, models = make_interp(ctx.repo, polar_ufunc, oracle=polar_oracle)
        models.hooks['np.where'] = lambda m, cond, a=None, b=None: (b if isinstance(cond, Unk) or
                                                                     (isinstance(cond, Arr) and any(isinstance(v, Unk) for v in cond.items()))
                                                                     else NotImplemented)
        models.hooks['np.clip'] = lambda m, a, *args, **kw: a
        Z = bic(I, RHO * COS_T, RHO * SIN_T)
        try:
            got = comps(I.binop(ast.Pow(), Z, p))
            got = (drop_branch(got[0]), drop_branch(got[1]))
            want = (RHO ** p * (T ** p + T ** -p) * HALF, RHO ** p * (T ** p - T ** -p) * HALF * (-I_))
            verdict = polar_verdict(got, want)
            fact = {'z1': repr(got[0])[:160], 'z2': repr(got[1])[:160]}
        except (AlgebraError, TypeError, AttributeError) as exc:
            verdict, fact = 'undecided', {'cannot_normalise': str(exc)[:200]}
        except InterpRaise as exc:
            verdict, fact = 'violation', {'raises': exc.exc_name, 'message': exc.msg[:120]}
        if verdict == 'undecided':
            rep.undecided('R-POW', 'multicomplex.Bicomplex.__pow__', fact, 'p=%s' % p)
            continue
        ok = verdict == 'ok'
        rep.check(ok, 'R-POW', 'multicomplex.Bicomplex.__pow__', where_of(mc, '__pow__'), fact,
                  'rho^p (cos p theta, sin p theta)', 'p=%s' % p, key='pow regular')
    # a bicomplex exponent without j-part is the complex number it carries: z ** Bicomplex(p, 0) equals z ** p for a complex p
    # (both evaluated by the code under analysis; the second is the form judged above)
    I, models = make_interp(ctx.repo, polar_ufunc, oracle=polar_oracle)
    models.hooks['np.where'] = lambda m, cond, a=None, b=None: (b if isinstance(cond, Unk) or
                                                                 (isinstance(cond, Arr) and any(isinstance(v, Unk) for v in cond.items()))
                                                                 else NotImplemented)
    models.hooks['np.clip'] = lambda m, a, *args, **kw: a
    try:
        pc = Poly.sym('pr') + Poly.const(Z8.I) * Poly.sym('pi_')
        Z = bic(I, RHO * COS_T, RHO * SIN_T)
        direct = comps(I.binop(ast.Pow(), Z, pc))
        wrapped = comps(I.binop(ast.Pow(), Z, bic(I, pc, 0)))
        same_ = all(repr(drop_branch(a_)) == repr(drop_branch(b_)) for a_, b_ in zip(direct, wrapped))
        rep.check(same_, 'R-POW', 'multicomplex.Bicomplex.__pow__', where_of(mc, '__pow__'),
                  {'z ** p': [repr(v)[:120] for v in direct], 'z ** Bicomplex(p, 0)': [repr(v)[:120] for v in wrapped]},
                  'the same value', 'complex p: z ** Bicomplex(p, 0) against z ** p', key='pow bicomplex exponent')
    except (AlgebraError, TypeError, AttributeError, AnalysisError) as exc:
        rep.undecided('R-POW', 'multicomplex.Bicomplex.__pow__', {'cannot_evaluate': str(exc)[:200]}, 'complex p: z ** Bicomplex(p, 0) against z ** p')
    except InterpRaise as exc:
        rep.violation('R-POW', 'multicomplex.Bicomplex.__pow__', where_of(mc, '__pow__'), {'raises': exc.exc_name, 'message': exc.msg[:120]},
                      'the same value', 'complex p: z ** Bicomplex(p, 0) against z ** p', key='pow bicomplex exponent')
    # singular branch formula with formal powers
    I, models = make_interp(ctx.repo, lambda n, x: NotImplemented)
    z1, z2, p = Poly.sym('z1'), Poly.sym('z2'), Poly.sym('p')
    Z = bic(I, z1, z2)
    try:
        helper = singular_power_helper(mc)
    except AnalysisError as exc:
        rep.undecided('R-POW', 'multicomplex.Bicomplex.__pow__', exc, '_pow_singular')
        return
    try:
        got = comps(I.getattr(Z, helper)(p))
        fm = ndarr.s_pow(z1 - I_ * z2, p)
        fp = ndarr.s_pow(z1 + I_ * z2, p)
        want = ((fm + fp) * HALF, (fm - fp) * HALF * I_)
        ok = same(got[0], want[0]) and same(got[1], want[1])
        fact = {'z1': repr(got[0])[:200], 'z2': repr(got[1])[:200]}
    except (InterpRaise, AlgebraError, TypeError) as exc:
        ok, fact = False, {'cannot_normalise': str(exc)[:200]}
    rep.check(ok, 'R-POW', 'multicomplex.Bicomplex._pow_singular', where_of(mc, '_pow_singular'), fact,
              '((z1 - i z2)^p + (z1 + i z2)^p)/2 , i((z1 - i z2)^p - (z1 + i z2)^p)/2', '_pow_singular', key='pow singular')


# ---- formal field of functions
class FW(object):
    """A value in the formal field Q(i)(w, v, f(args)...) of holomorphic function expressions."""
    is_elem_ = True

    def __init__(self, val):
        self.val = val          # Poly / Rat

    @staticmethod
    def of(x):
        if isinstance(x, FW):
            return x
        if isinstance(x, (int, Fr, Poly, Rat)):
            return FW(x if isinstance(x, (Poly, Rat)) else Poly.const(x))
        raise AnalysisError('cannot lift %r into the formal function field' % (x,))

    def key(self):
        return repr(self.val)

    def fn(self, name, *args):
        return FW(Poly.sym('%s(%s)' % (name, ', '.join([self.key()] + [repr(a) for a in args]))))

    def __add__(self, o): return FW(self.val + FW.of(o).val)
    __radd__ = __add__
    def __sub__(self, o): return FW(self.val - FW.of(o).val)
    def __rsub__(self, o): return FW(FW.of(o).val - self.val)
    def __mul__(self, o): return FW(self.val * FW.of(o).val)
    __rmul__ = __mul__
    def __truediv__(self, o): return FW(self.val / FW.of(o).val)
    def __rtruediv__(self, o): return FW(FW.of(o).val / self.val)
    def __neg__(self): return FW(-self.val)

    def __pow__(self, e):
        if isinstance(e, FW):
            e = e.val
        c = ndarr.concrete_real(e)
        if c is not None and Fr(c).denominator == 1:
            return FW(self.val ** int(c))
        return self.fn('pow', e)

    def __rpow__(self, base):
        return FW.of(base).fn('pow', self.val)

    # primitives (names as numpy ufuncs call them on objects)
    def sin(self): return self.fn('sin')
    def cos(self): return self.fn('cos')
    def sinh(self): return self.fn('sinh')
    def cosh(self): return self.fn('cosh')
    def exp(self): return self.fn('exp')
    def log(self): return self.fn('log')

    @property
    def z1(self): return PV(self, Poly.sym('z1'))

    @property
    def z2(self): return PV(self, Poly.sym('z2'))

    _interp = None
    _ci = None

    def __getattr__(self, name):
        # derived functions calling other derived functions: use the analysed method body
        ci, I = FW._ci, FW._interp
        if ci is None or name.startswith('__') and name not in ('__div__', '__rdiv__'):
            raise AttributeError(name)
        r = ci.lookup(name)
        if r is None:
            # installed on the class at import time?
            ok, fn = I.get_class_member(ci, name, None, raw=True)
            if not ok or not callable(fn):
                raise AttributeError(name)
            return lambda *a, **k: fn(self, *a, **k)
        if r[0] not in ('method', 'static'):
            raise AttributeError(name)
        fn = I.closure_for(r[2].module, r[1], r[2])
        if r[0] == 'static':
            return fn
        return lambda *a, **k: fn(self, *a, **k)


class NonHolomorphic(Exception):
    """components handed to Bicomplex(..) that depend on the complex conjugates of the components of the argument"""


_REAL_PARTS = {'z1': ('z1r', 'z1i'), 'z2': ('z2r', 'z2i')}


class PV(object):
    """A component level expression inside a derived function: an expression in the two components (z1, z2) of one
    formal value `base`.  Lets a method be written through shared component factors (cos(z1), sinh(z2), ..) or through
    rational component formulas: when such expressions are wrapped into a Bicomplex again, the pair is recognised as an
    elementary or rational function of `base`.  Real / imaginary part, conjugate and modulus of a rational component
    expression are formed over the real and imaginary parts of z1 and z2 (four real symbols); a pair that then still depends
    on them in a way no function of z1, z2 alone does is not a function of the bicomplex argument (NonHolomorphic)."""
    is_elem_ = True

    def __init__(self, base, poly):
        self.base, self.poly = base, poly

    def _co(self, o):
        if isinstance(o, PV):
            if o.base is not self.base:
                raise AnalysisError('component expressions of two different values combined')
            return o.poly
        if isinstance(o, (int, Fr, Poly, Rat)):
            return o if isinstance(o, (Poly, Rat)) else Poly.of(o)
        raise AnalysisError('component expression combined with %r' % (o,))

    def __add__(self, o): return PV(self.base, self.poly + self._co(o))
    __radd__ = __add__
    def __sub__(self, o): return PV(self.base, self.poly - self._co(o))
    def __rsub__(self, o): return PV(self.base, self._co(o) - self.poly)
    def __mul__(self, o): return PV(self.base, self.poly * self._co(o))
    __rmul__ = __mul__
    def __truediv__(self, o): return PV(self.base, ndarr.s_div(self.poly, self._co(o)))
    def __rtruediv__(self, o): return PV(self.base, ndarr.s_div(self._co(o), self.poly))
    def __neg__(self): return PV(self.base, -self.poly)

    def __pow__(self, e):
        if isinstance(e, PV):
            raise AnalysisError('component expression as an exponent')
        return PV(self.base, ndarr.s_pow(self.poly, e))

    # ---- non holomorphic operations: over the real and imaginary parts of the components
    def _over_reals(self):
        p = self.poly
        names = p.atoms() if hasattr(p, 'atoms') else set()
        known = {'z1', 'z2', 'z1r', 'z1i', 'z2r', 'z2i'}
        if any(a not in known for a in names):
            raise AnalysisError('real / imaginary part of the component expression %r' % (p,))
        sub = {z: Poly.sym(r) + Poly.const(Z8.I) * Poly.sym(i) for z, (r, i) in _REAL_PARTS.items()}
        return p.subs(sub) if names & set(sub) else p

    def conj_(self):
        return PV(self.base, _conj(self._over_reals()))

    def real_(self):
        p = self._over_reals()
        return PV(self.base, (p + _conj(p)) * HALF)

    def imag_(self):
        p = self._over_reals()
        return PV(self.base, (p - _conj(p)) * HALF * (-Poly.const(Z8.I)))

    def abs_(self):
        p = self._over_reals()
        return PV(self.base, ndarr.s_pow(p * _conj(p), Fr(1, 2)))

    real = property(lambda self: self.real_())
    imag = property(lambda self: self.imag_())

    def conjugate(self):
        return self.conj_()
    conj = conjugate

    def __repr__(self):
        return 'PV(%r)' % (self.poly,)


def _conj(p):
    """conjugate of an expression all of whose symbols are real"""
    if isinstance(p, Rat):
        return Rat.make(p.n.conj(), p.d.conj())
    return Poly.of(p).conj()


def recognise_components(a, b):
    """FW value of Bicomplex(a, b) for component expressions a, b of one base: f(base) for the elementary or rational f whose
    idempotent components they are; None when they are none of the known ones; NonHolomorphic when they are rational but
    no function of the bicomplex value at all."""
    base = a.base
    z1, z2 = Poly.sym('z1'), Poly.sym('z2')
    for name in ('sin', 'cos', 'sinh', 'cosh', 'exp'):
        w1, w2 = oracle_components(name, z1, z2)
        if same(a.poly, w1) and same(b.poly, w2):
            return getattr(base, name)()
    w1, w2 = oracle_components('expm1', z1, z2)
    if same(a.poly, w1) and same(b.poly, w2):
        return base.exp() - 1
    if same(a.poly, z1) and same(b.poly, z2):
        return base
    return recognise_rational(base, a.poly, b.poly)


def recognise_rational(base, A, B):
    """f(w) = e1 f(z1 - i z2) + e2 f(z1 + i z2): with u = z1 - i z2 and v = z1 + i z2 the components (A, B) of a function of
    the bicomplex value satisfy A - iB = g(u) and A + iB = g(v) for one and the same g"""
    names = set()
    for p in (A, B):
        names |= p.atoms() if hasattr(p, 'atoms') else set()
    if not names <= {'z1', 'z2', 'z1r', 'z1i', 'z2r', 'z2i'}:
        return None
    I1 = Poly.const(Z8.I)
    u, v = Poly.sym('u'), Poly.sym('v')
    uc, vc = Poly.sym('uc'), Poly.sym('vc')
    z1, z2 = (u + v) * HALF, (v - u) * HALF * (-I1)
    z1c, z2c = (uc + vc) * HALF, (vc - uc) * HALF * I1           # conjugates: conj(u) = conj(z1) + i conj(z2) ..
    sub = {'z1': z1, 'z2': z2,
           'z1r': (z1 + z1c) * HALF, 'z1i': (z1 - z1c) * HALF * (-I1),
           'z2r': (z2 + z2c) * HALF, 'z2i': (z2 - z2c) * HALF * (-I1)}
    try:
        gu = (A - I1 * B).subs(sub) if hasattr(A - I1 * B, 'subs') else A - I1 * B
        gv = (A + I1 * B).subs(sub) if hasattr(A + I1 * B, 'subs') else A + I1 * B
    except AlgebraError:
        return None
    au = gu.atoms() if hasattr(gu, 'atoms') else set()
    av = gv.atoms() if hasattr(gv, 'atoms') else set()
    if (au | av) & {'uc', 'vc'} or 'v' in au or 'u' in av:
        raise NonHolomorphic('the components depend on %s' % sorted((au | av) - {'u', 'v'} or (au | av)))
    g_from_v = gv.subs({'v': u}) if hasattr(gv, 'subs') else gv
    if not same(gu, g_from_v):
        raise NonHolomorphic('the two idempotent components are different functions: %r and %r' % (gu, g_from_v))
    val = gu.subs({'u': base.val}) if hasattr(gu, 'subs') else gu
    return FW(val)


PRIMS = ('sin', 'cos', 'sinh', 'cosh', 'exp', 'log', '__pow__', '__rpow__', '__add__', '__radd__', '__sub__', '__rsub__',
         '__mul__', '__rmul__', '__neg__', '__truediv__', '__rtruediv__')


def formal_level(ctx, mc):
    rep = ctx.rep
    ci = mc.classes['Bicomplex']
    UNIT = Poly.const(Z8.I)

    def ufunc(name, x):
        if isinstance(x, FW):
            return getattr(x, name)() if hasattr(x, name) else x.fn(name)
        if isinstance(x, PV):
            if name == 'sqrt':
                return PV(x.base, ndarr.s_pow(x.poly, Fr(1, 2)))
            if name in ('abs', 'absolute', 'real', 'imag', 'conj', 'conjugate'):
                return {'abs': x.abs_, 'absolute': x.abs_, 'real': x.real_, 'imag': x.imag_}.get(name, x.conj_)()
            r = exppoly_ufunc(name, x.poly)
            if r is NotImplemented:
                raise AnalysisError('np.%s of a component expression' % name)
            return PV(x.base, r)
        return NotImplemented
    I, models = make_interp(ctx.repo, ufunc)
    FW._interp, FW._ci = I, ci
    orig_scalar = models.scalar_fn

    def scalar_fn(name, x):
        if isinstance(x, FW):
            return getattr(x, name)() if name in ('sin', 'cos', 'sinh', 'cosh', 'exp', 'log') else x.fn(name)
        return orig_scalar(name, x)
    models.scalar_fn = scalar_fn
    cref = I.get_global('multicomplex', 'Bicomplex')

    def factory(fn, args, kwargs, node, fr):
        # Bicomplex(a, b) inside method bodies: constants become a + unit*b, re-wrapping of parts is the identity
        if fn is cref:
            a, b = args[0], args[1]
            if all(isinstance(v, (int, Fr, Poly)) for v in (a, b)):
                return (FW(Poly.of(a) + UNIT * Poly.of(b)),)
            if isinstance(a, PV) and isinstance(b, PV) and a.base is b.base:
                r = recognise_components(a, b)
                if r is not None:
                    return (r,)
            raise AnalysisError('Bicomplex(%r, %r) in a derived function' % (a, b))
        return None
    I.on_call = factory
    w, v = FW(Poly.sym('w')), FW(Poly.sym('v'))
    pi = models.np.pi
    ln = lambda c: models.np.log(c)                                     # noqa: E731

    def run_method(name, *args):
        # the plain function behind Bicomplex.<name>, however the class came by it: a def in the class body, an alias such as
        # __truediv__ = __div__, or an attribute installed on the class when the module is imported
        I.ns(mc)                                   # (import-time statements of the module have run)
        ok, fn = I.get_class_member(ci, name, None, raw=True)
        if not ok:
            raise AnalysisError('anchor vanished: Bicomplex.%s' % name)
        fn = fn[1] if isinstance(fn, tuple) else fn
        return fn(*args)
    table = [
        # name, call, expected, rule
        ('__div__', lambda: run_method('__div__', w, v), w / v, 'R-DIV'),
        ('__truediv__', lambda: run_method('__truediv__', w, v), w / v, 'R-DIV'),
        ('__rdiv__', lambda: run_method('__rdiv__', w, v), v / w, 'R-DIV'),
        ('__rtruediv__', lambda: run_method('__rtruediv__', w, v), v / w, 'R-DIV'),
        ('tan', lambda: run_method('tan', w), w.sin() / w.cos(), 'R-DERIVED'),
        ('cot', lambda: run_method('cot', w), w.cos() / w.sin(), 'R-DERIVED'),
        ('sec', lambda: run_method('sec', w), 1 / w.cos(), 'R-DERIVED'),
        ('csc', lambda: run_method('csc', w), 1 / w.sin(), 'R-DERIVED'),
        ('tanh', lambda: run_method('tanh', w), w.sinh() / w.cosh(), 'R-DERIVED'),
        ('coth', lambda: run_method('coth', w), w.cosh() / w.sinh(), 'R-DERIVED'),
        ('sech', lambda: run_method('sech', w), 1 / w.cosh(), 'R-DERIVED'),
        ('csch', lambda: run_method('csch', w), 1 / w.sinh(), 'R-DERIVED'),
        ('exp2', lambda: run_method('exp2', w), (w * FW.of(ln(2))).exp(), 'R-DERIVED'),
        ('sqrt', lambda: run_method('sqrt', w), w ** Fr(1, 2), 'R-DERIVED'),
        ('log10', lambda: run_method('log10', w), w.log() / FW.of(ln(10)), 'R-DERIVED'),
        ('log2', lambda: run_method('log2', w), w.log() / FW.of(ln(2)), 'R-DERIVED'),
        ('arcsin', lambda: run_method('arcsin', w), None, 'R-DERIVED'),
        ('arccos', lambda: run_method('arccos', w), None, 'R-DERIVED'),
        ('arctan', lambda: run_method('arctan', w), None, 'R-DERIVED'),
        ('arcsinh', lambda: run_method('arcsinh', w), (w + (w * w + 1) ** Fr(1, 2)).log(), 'R-DERIVED'),
        ('arccosh', lambda: run_method('arccosh', w), (w + (w * w - 1) ** Fr(1, 2)).log(), 'R-DERIVED'),
        ('arctanh', lambda: run_method('arctanh', w), ((1 + w) / (1 - w)).log() * Fr(1, 2), 'R-DERIVED'),
        ('__rpow__', lambda: run_method('__rpow__', w, Poly.sym('a')), (FW.of(ln(Poly.sym('a'))) * w).exp(), 'R-DERIVED'),
    ]
    try:
        for name, thunk, want, rule in table:
            try:
                got = thunk()
                if not isinstance(got, FW):
                    raise AnalysisError('%s returned %r' % (name, got))
                if want is None:
                    ok, desc = False, ''
                    # accept either square root of -1 as the unit
                    for u in (FW(UNIT), FW(-UNIT)):
                        if name == 'arcsin':
                            cand = -u * (u * w + (1 - w * w) ** Fr(1, 2)).log()
                        elif name == 'arccos':
                            cand = FW.of(pi) / 2 - (-u * (u * w + (1 - w * w) ** Fr(1, 2)).log())
                        else:
                            cand = u * ((1 - u * w).log() - (1 + u * w).log()) * Fr(1, 2)
                        if same(got.val, cand.val):
                            ok = True
                        desc = repr(cand.val)
                    want_s = desc
                else:
                    ok = same(got.val, want.val)
                    want_s = repr(want.val)
                fact = {'formal_value': repr(got.val)[:240]}
            except InterpRaise as exc:
                ok, fact, want_s = False, {'raises': exc.exc_name, 'message': exc.msg[:100]}, ''
            except NonHolomorphic as exc:
                ok, fact = False, {'not_a_function_of_the_bicomplex_argument': str(exc)[:200]}
                want_s = repr(want.val) if want is not None else 'the inverse function'
            rep.check(ok, rule, 'multicomplex.Bicomplex.%s' % name, where_of(mc, name), fact,
                      'equals %s' % want_s[:200], name, key='derived %s' % name)
    finally:
        I.on_call = None


def aliases(ctx, mc):
    rep = ctx.rep
    # components of different shapes are broadcast against each other (numpy rules), whichever of them is the smaller one
    for name, s1, s2 in (('z2 of shape (2, 1) against z1 of shape (2, 2)', (2, 2), (2, 1)), ('z2 scalar against z1 of shape (3,)', (3,), ()),
                         ('z1 of shape (1, 2) against z2 of shape (2, 2)', (1, 2), (2, 2))):
        try:
            I, models = make_interp(ctx.repo, lambda n, x: NotImplemented)

            def grid(shape, tag):
                n_ = 1
                for d_ in shape:
                    n_ *= d_
                return Arr(shape, [Poly.sym('%s%d' % (tag, k)) for k in range(n_)]) if shape else Poly.sym(tag + '0')
            A, B = grid(s1, 'p'), grid(s2, 'q')
            Z = bic(I, A, B)
            z1, z2 = I.getattr(Z, 'z1'), I.getattr(Z, 'z2')
            shp = ndarr.broadcast_shapes(ndarr.asarr(A).shape, ndarr.asarr(B).shape)
            want1, want2 = ndarr.broadcast_to(ndarr.asarr(A), shp), ndarr.broadcast_to(ndarr.asarr(B), shp)
            ok = isinstance(z1, Arr) and isinstance(z2, Arr) and z1.shape == want1.shape == z2.shape and \
                all(same(a, b) for a, b in zip(z1.items(), want1.items())) and all(same(a, b) for a, b in zip(z2.items(), want2.items()))
            fact = {'z1': repr(z1)[:100], 'z2': repr(z2)[:100]}
        except InterpRaise as exc:
            ok, fact = False, {'raises': exc.exc_name, 'message': exc.msg[:100]}
        except (AnalysisError, AlgebraError, TypeError, AttributeError) as exc:
            rep.undecided('R-ALIASES', 'multicomplex.Bicomplex.__init__', {'cannot_evaluate': str(exc)[:160]}, name)
            continue
        rep.check(ok, 'R-ALIASES', 'multicomplex.Bicomplex.__init__', where_of(mc, '__init__'), fact,
                  'both components broadcast to the common shape, element (i, j) next to element (i, j)', name, key='constructor broadcast')
    I, models = make_interp(ctx.repo, lambda n, x: NotImplemented)
    a, b, c, d = (Poly.sym(s) for s in 'abcd')
    Z = bic(I, a + I_ * b, c + I_ * d)
    for name, want in (('real', a), ('imag', b), ('imag1', b), ('imag2', c), ('imag12', d)):
        try:
            got = I.getattr(Z, name)
            if isinstance(got, Arr) and got.size == 1:
                got = got.item()
            ok = same(got, want)
            fact = {name: repr(got)}
        except InterpRaise as exc:
            ok, fact = False, {'raises': exc.exc_name}
        rep.check(ok, 'R-ALIASES', 'multicomplex.Bicomplex.%s' % name, where_of(mc, name), fact,
                  'component %r of (a + i b) + j (c + i d)' % (want,), name, key='alias %s' % name)
