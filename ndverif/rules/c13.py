"""C13 dea3 recovers the limit of a geometric transient and never produces garbage (formal clauses)."""
import ast
from fractions import Fraction as Fr

from ..srcmodel import AnalysisError
from ..algebra import Poly, Rat, Z8, alg_equal, AlgebraError
from .. import ndarr
from ..ndarr import Arr, Unk, Choice, InterpRaise
from ..absint import Interp
from ..libmodels import Models
from ..dv import DV, tags_of
from ..dvrun import explore

RULES = {
    'R-SHANKS': 'on the regular (non converged, regularisers inactive) branch result(L + a, L + a q, L + a q^2) == L identically '
                'in L, a, q (rational function identity; any algebraically equivalent Aitken form passes)',
    'R-GUARD': 'the convergence / irregular-behaviour guard consists of |e1 - e0| <= tol, |e2 - e1| <= tol and |sss * e_1| <= 1e-4 '
               'with sss the Shanks denominator - the same three tests as its sibling Dea._dea (QUADPACK qelg) uses for three terms; '
               'when the guard holds the last term e_2 is returned',
    'R-NONNEG': 'abserr is provably >= 0 on every branch (sign lattice)',
    'R-NOMUTATE': 'no in-place write reaches the buffers of the three inputs; the result does not share memory with an input',
    'R-ELEMENTWISE': 'output element c depends only on element c of the three inputs; output shape is the (broadcast) input shape; '
                     'symmetric=True only trims one element from each output',
    'R-NORAISE': 'no raise / assert is reachable for array or scalar inputs of equal shape; and the statements that divide, or multiply '
                 'two data dependent quantities (the reciprocal differences and sss * e_1, which overflow or divide by zero for '
                 'tied terms), run inside a context that silences all of divide, over and invalid (warnings.simplefilter("ignore") '
                 'under catch_warnings, or np.errstate covering the three kinds): a leaked RuntimeWarning is an exception for a '
                 'caller that escalates warnings',
}


def eval_cond(e, leaf):
    """Truth value of an undetermined condition when every comparison leaf has the truth value `leaf`."""
    if isinstance(e, Unk):
        return eval_cond(e.expr, leaf)
    if isinstance(e, bool):
        return e
    if isinstance(e, tuple) and e:
        if e[0] == 'not':
            return not eval_cond(e[1], leaf)
        if e[0] == 'and':
            return eval_cond(e[1], leaf) and eval_cond(e[2], leaf)
        if e[0] == 'or':
            return eval_cond(e[1], leaf) or eval_cond(e[2], leaf)
    return leaf


def resolve_choices(v, leaf):
    """Resolve every guarded choice under 'all comparison tests are `leaf`'."""
    if isinstance(v, Choice):
        return resolve_choices(v.a if eval_cond(v.cond, leaf) else v.b, leaf)
    return v


def all_b(v):
    """The regular branch: no test holds (regularisers inactive, not converged)."""
    return resolve_choices(v, False)


def all_a(v):
    return resolve_choices(v, True)


def make(repo, tiny_zero=True):
    models = Models()
    if tiny_zero:
        models.np.finfo = lambda t=None: type('finfo', (), dict(eps=Poly.sym('EPS'), tiny=0, smallest_normal=0,
                                                                 max=Poly.sym('HUGE')))()
    I = Interp(repo, models)
    models.bind(I)
    ndarr.POSITIVE_ATOMS.clear()
    ndarr.POSITIVE_ATOMS.update({'EPS', 'HUGE'})
    return I, models


def cmp_leaves(u):
    return u.comparisons() if isinstance(u, Unk) else []


def norm_cmp(c):
    """('cmp', op, a, b) -> (op, repr(all_b(a)), repr(all_b(b)))"""
    _, op, a, b = c
    return op, all_b(a), all_b(b)


NEEDED_KINDS = {'divide', 'over', 'invalid'}


def silenced_by(item):
    """Floating-point warning kinds a with-item silences: (kinds, needs_simplefilter)."""
    import ast
    call = item.context_expr
    if not isinstance(call, ast.Call):
        return set(), False
    name = ast.unparse(call.func)
    if name.endswith('catch_warnings'):
        return set(), True
    if name.endswith('errstate'):
        kinds = set()
        for kw in call.keywords:
            if isinstance(kw.value, ast.Constant) and kw.value.value == 'ignore':
                kinds |= {'divide', 'over', 'under', 'invalid'} if kw.arg == 'all' else {kw.arg}
        return kinds, False
    return set(), False


def noise_contexts(ctx, ex, fn, where):
    """Every division by a data value and every product of two data values that dea3 performs (in its own body or in a
    helper it calls) must run while the floating-point warnings divide / over / invalid are silenced.  Judged on the
    operations of an abstract run together with the warning state at that moment, not on the layout of the source."""
    rep = ctx.rep
    found, leaks = [], {}

    def is_data(v):
        return isinstance(v, (Poly, Rat, Unk, Choice)) and ndarr.concrete_real(v) is None if not isinstance(v, (Unk, Choice)) else True

    for label, args in (('scalars', [Poly.sym('e%d' % k) for k in range(3)]),
                        ('arrays', [Arr((2,), [Poly.sym('e%d_%d' % (k, t)) for t in range(2)]) for k in range(3)])):
        I, models = make(ctx.repo)

        def hook(kind, x, y, I=I, models=models):
            if (kind == 'div' and is_data(y)) or (kind == 'mul' and is_data(x) and is_data(y)):
                at = I.where()
                found.append(at)
                missing = NEEDED_KINDS - models.fp_silenced[-1]
                if missing:
                    leaks.setdefault(at, {'operation': 'division' if kind == 'div' else 'product', 'at': at,
                                          'not_silenced': sorted(missing)})
        ndarr.OP_HOOK = hook
        try:
            I.get_global('extrapolation', 'dea3')(*args)
        finally:
            ndarr.OP_HOOK = None
    rep.check(bool(found) and not leaks, 'R-NORAISE', 'extrapolation.dea3', where,
              {'noisy_operations': len(found), 'sites': sorted(set(found))[:6], 'outside_a_silencing_context': list(leaks.values())[:3]},
              'every such operation runs with divide, over and invalid silenced', 'floating-point noise', key='noise context')


def run(ctx):
    rep = ctx.rep
    rep.notes['explanation'] = (
        'Rounding bounds and "error estimate not smaller than the true error" are NOT decided. Decided by abstract '
        'interpretation of dea3 on symbolic inputs: the Shanks fixed point identity, the form of the guard (cross-checked '
        'against the sibling implementation Dea._dea), sign of the error estimate, absence of in-place writes to the inputs, '
        'elementwise data dependence and shapes, symmetric trimming, and that nothing raises.')
    for rid, text in RULES.items():
        rep.rule(rid, text, 1)
    ex = ctx.repo.module('extrapolation')
    fn = ctx.repo.func('extrapolation', 'dea3')
    where = ex.where(fn)
    I, models = make(ctx.repo)
    dea3 = I.get_global('extrapolation', 'dea3')
    e0, e1, e2 = Poly.sym('e0'), Poly.sym('e1'), Poly.sym('e2')
    res, err = dea3(e0, e1, e2)
    r = res.item() if isinstance(res, Arr) and res.size == 1 else res
    regular = all_b(r)
    L, a, q = Poly.sym('L'), Poly.sym('a'), Poly.sym('q')
    try:
        val = regular.subs({'e0': L + a, 'e1': L + a * q, 'e2': L + a * q * q}) if isinstance(regular, (Poly, Rat)) else None
        ok = val is not None and alg_equal(val, L)
        fact = {'regular_branch': repr(regular)[:300], 'on_geometric_triple': repr(val)[:120]}
    except (AlgebraError, TypeError) as exc:
        raise AnalysisError('dea3 regular branch could not be normalised: %s' % exc)
    rep.check(ok, 'R-SHANKS', 'extrapolation.dea3', where, fact, 'L', 'symbolic L, a, q', key='shanks')
    noise_contexts(ctx, ex, fn, where)
    # guard
    guard_ok, gfact = False, {}
    if isinstance(r, Choice):
        cmps = [norm_cmp(c) for c in cmp_leaves(r.cond)]
        conv_value = all_b(r.a if eval_cond(r.cond, True) else r.b)
        # expected three tests
        d1, d2 = e1 - e0, e2 - e1
        sss_expected = 1 / d2 - 1 / d1
        found = {'err1': False, 'err2': False, 'irregular': False}
        descr = []
        for op, lhs, rhs in cmps:
            descr.append('%r %s %r' % (lhs, op, rhs))
            if op == '<=' and ndarr.same_magnitude(lhs, ndarr.s_abs(d1)):
                found['err1'] = True
            elif op == '<=' and ndarr.same_magnitude(lhs, ndarr.s_abs(d2)):
                found['err2'] = True
            elif op == '<=' and ndarr.concrete_real(rhs) == Fr(1, 10000):
                # (a magnitude may be written |x*y| or |x|*|y|: compared through the squares)
                if ndarr.same_magnitude(lhs, ndarr.s_abs(Rat.of(sss_expected * e1))):
                    found['irregular'] = True
        guard_ok = all(found.values()) and len(cmps) == 3 and alg_equal(conv_value, e2)
        gfact = {'tests': descr, 'recognised': found, 'value_when_guard_holds': repr(conv_value)}
        # every test must read the same at every scale of the terms ("L, a over 30 orders of magnitude"): both sides of
        # one test have the same degree of homogeneity in (e0, e1, e2); a tolerance with an absolute floor has not
        degrees = []
        for op, lhs, rhs in cmps:
            dl = ndarr.homogeneity_degree(lhs, ('e0', 'e1', 'e2'), ('EPS',))
            dr = ndarr.homogeneity_degree(rhs, ('e0', 'e1', 'e2'), ('EPS',))
            degrees.append((dl, dr))
        gfact['degree_of_homogeneity_per_test'] = [[str(d) for d in pair] for pair in degrees]
        if any(d is None for pair in degrees for d in pair):
            raise AnalysisError('dea3 guard: scale behaviour of a test could not be read: %s' % (descr,))
        if any('mixed' in pair or pair[0] != pair[1] for pair in degrees):
            guard_ok = False
    else:
        gfact = {'result_is_not_a_guarded_choice': repr(r)[:200]}
    sib = sibling_guard(ctx)
    gfact['sibling_Dea._dea_tests'] = sib
    rep.check(guard_ok, 'R-GUARD', 'extrapolation.dea3', where, gfact,
              '|e1-e0| <= tol1 or |e2-e1| <= tol2 or |sss*e_1| <= 1e-4  ->  e_2', 'guard', key='guard')
    dataflow(ctx, ex, where)


def sibling_guard(ctx):
    """The three-term tests of Dea._dea, read from an abstract run of its first iteration (for the evidence)."""
    from .c14 import dea_first_iteration
    try:
        info = dea_first_iteration(ctx.repo)
        return info.get('tests', [])
    except AnalysisError as exc:
        return ['not available: %s' % exc]


def dataflow(ctx, ex, where):
    rep = ctx.rep
    for shape, symmetric in (((), False), ((3,), False), ((3,), True), ((2, 2), False), ((1,), True), ((3, 2), True), ((1, 3), True)):
        holder = {}

        def body(s, shape=shape, symmetric=symmetric):
            I = s.interp
            dea3 = I.get_global('extrapolation', 'dea3')
            n = 1
            for d in shape:
                n *= d
            ins = []
            for k in range(3):
                items = [DV({('v%d' % k, c)}, 'f') for c in range(n)]
                ins.append(Arr(shape, items))
            holder['ins'] = ins
            before = [list(a.buf.data) for a in ins]
            out = dea3(ins[0], ins[1], ins[2], symmetric=symmetric)
            writes = [len(a.buf.writes) for a in ins]
            same = [before[k] == list(ins[k].buf.data) for k in range(3)]
            shares = [isinstance(o, Arr) and any(o.buf is a.buf for a in ins) for o in out]
            return out, writes, same, shares
        exr = explore(ctx.repo, body)
        label = 'shape=%s/symmetric=%s' % (shape, symmetric)
        raised = [(exc.exc_name, exc.msg[:80]) for d, r, exc in exr.paths if exc is not None]
        rep.check(not raised, 'R-NORAISE', 'extrapolation.dea3', where, {'paths': len(exr.paths), 'raised': raised[:2]},
                  'nothing raises', label, key='noraise')
        bad_mut, bad_sign, bad_dep, bad_shape = [], [], [], []
        n = 1
        for d in shape:
            n *= d
        for decisions, res, exc in exr.paths:
            if exc is not None:
                continue
            (result, abserr), writes, same, shares = res
            if any(writes) or not all(same) or any(shares):
                bad_mut.append({'writes': writes, 'unchanged': same, 'result_shares_input_buffer': shares})
            eshape = (max(n, 1),) if shape == () else shape
            want_shape = eshape
            trimmed = symmetric and eshape[0] > 1          # (the trimming is along the first axis, when it has more than one entry)
            if trimmed:
                want_shape = (eshape[0] - 1,) + tuple(eshape[1:])
            for nm, arr in (('result', result), ('abserr', abserr)):
                sh = arr.shape if isinstance(arr, Arr) else ()
                if sh != want_shape:
                    bad_shape.append('%s.shape=%s expected %s' % (nm, sh, want_shape))
            for e in (abserr.items() if isinstance(abserr, Arr) else [abserr]):
                if not (isinstance(e, DV) and e.sign in ('nonneg', 'pos')):
                    bad_sign.append(repr(e))
            if not trimmed:
                for nm, arr in (('result', result), ('abserr', abserr)):
                    for c, e in enumerate(arr.items() if isinstance(arr, Arr) else [arr]):
                        foreign = [t for t in tags_of(e) if t[1] != c]
                        if foreign:
                            bad_dep.append('%s[%d] depends on %s' % (nm, c, sorted(foreign)[:3]))
            else:
                # symmetric: the trimming is along the first axis - result[c] from element c, abserr[c] from the element one
                # row further (flat index c + number of elements per row)
                per_row = 1
                for d_ in eshape[1:]:
                    per_row *= d_
                for c, e in enumerate(result.items() if isinstance(result, Arr) else [result]):
                    if [t for t in tags_of(e) if t[1] != c]:
                        bad_dep.append('result[%d] depends on other elements' % c)
                for c, e in enumerate(abserr.items() if isinstance(abserr, Arr) else [abserr]):
                    if [t for t in tags_of(e) if t[1] != c + per_row]:
                        bad_dep.append('abserr[%d] is not the estimate of element %d' % (c, c + per_row))
        rep.check(not bad_mut, 'R-NOMUTATE', 'extrapolation.dea3', where, {'problems': bad_mut[:2]},
                  'inputs unmodified, result in fresh storage', label, key='nomutate')
        rep.check(not bad_sign, 'R-NONNEG', 'extrapolation.dea3', where, {'not_provably_nonneg': bad_sign[:3]},
                  'abserr >= 0', label, key='nonneg')
        rep.check(not bad_dep and not bad_shape, 'R-ELEMENTWISE', 'extrapolation.dea3', where,
                  {'dependence': bad_dep[:3], 'shape': bad_shape[:3]}, 'elementwise; shapes as stated', label,
                  key='elementwise')
