"""C14 Streaming epsilon algorithms: EpsAlg matches the Shanks table; Dea is total."""
import ast
from fractions import Fraction as Fr

from ..srcmodel import AnalysisError
from ..algebra import Poly, Rat, Z8, alg_equal, AlgebraError
from .. import ndarr
from ..ndarr import Arr, Unk, Choice, InterpRaise
from ..absint import Interp
from ..libmodels import Models
from ..dv import Explorer

RULES = {
    'R-EPSALG': 'abstract run of EpsAlg on a symbolic sequence s_0..s_k: after term n it returns the entry eps_{2m}^{(n-2m)}, '
                'm = n // 2, of the exact Wynn epsilon table (rational function identity), as long as no difference vanishes',
    'R-EPSALG-GUARD': 'the vanishing-difference guard of EpsAlg compares |delta| with a constant that is negligible '
                      '(<= 1e-30): differences of any representable convergent sequence are not treated as vanished',
    'R-DEA-DEA3': 'the first extrapolation of Dea._dea (three terms) equals the Shanks formula of dea3 and uses the same three '
                  'convergence / irregular-behaviour tests',
    'R-DEA-TABLE': 'abstract runs of Dea(limexp) fed symbolic terms with every convergence guard off: each returned value is an '
                   'even-order entry of the exact epsilon table of the terms seen (for limexp = 3: the Shanks transform of the '
                   'last three terms), also after the table is full and shifted',
    'R-DEA-CAP': 'interval invariant of the table index: on every path through _dea / __call__ the stored index satisfies '
                 'n + 2 <= limexp + 1 at the next entry, so epstab[n + 2] never reaches the res3la cells or leaves the array '
                 '(fed more terms than the table holds, on all guard outcomes)',
    'R-DEA-FLOOR': 'from the third term on the reported error is max(abserr, 5*EPS*|result|)',
}


class Inf(object):
    """+infinity stand-in for the _HUGE regulariser of QUADPACK's table (1/(x - HUGE) -> 0)."""
    is_elem_ = True

    def __init__(self, sign=1):
        self.sign = sign

    def __repr__(self):
        return 'INF' if self.sign > 0 else '-INF'

    def __add__(self, o): return self
    __radd__ = __add__
    def __sub__(self, o): return self
    def __rsub__(self, o): return Inf(-self.sign)
    def __neg__(self): return Inf(-self.sign)

    def __mul__(self, o):
        return self
    __rmul__ = __mul__

    def __rtruediv__(self, o):
        return 0

    def __truediv__(self, o):
        return self

    def abs_(self):
        return Inf(1)

    def cmp_(self, op, other):
        if isinstance(other, Inf):
            return Unk(('cmp', op, 'HUGE-scale', 'HUGE-scale'))
        big = self.sign > 0
        return {'>': big, '>=': big, '<': not big, '<=': not big, '==': False, '!=': True}[op]

    def rcmp_(self, op, other):
        if isinstance(other, Inf):
            return Unk(('cmp', op, 'HUGE-scale', 'HUGE-scale'))
        big = self.sign > 0
        return {'<': big, '<=': big, '>': not big, '>=': not big, '==': False, '!=': True}[op]

    def minmax_(self, which, args):
        others = [a for a in args if not isinstance(a, Inf)]
        if (which == 'max') == (self.sign > 0):
            return self
        if len(others) == 1:
            return others[0]
        from ..absint import sym_minmax
        return sym_minmax(which, others)


def make(repo, oracle=None):
    models = Models()
    # _HUGE (marks an empty table cell) is an infinity object: 1/(x - HUGE) -> 0; HUGE vs HUGE*EPS undetermined
    models.np.finfo = lambda t=None: type('finfo', (), dict(eps=Poly.sym('EPS'), tiny=0, smallest_normal=0, max=Inf()))()
    I = Interp(repo, models, branch_oracle=oracle)
    models.bind(I)
    ndarr.POSITIVE_ATOMS.clear()
    ndarr.POSITIVE_ATOMS.update({'EPS'})
    return I, models


def _deg_lead(p, atom):
    """(degree in atom, leading coefficient Poly) of a Poly with integer exponents of atom."""
    best, lead = None, Poly.const(0)
    for mono, c in p.t.items():
        e = dict(mono).get(atom, Fr(0))
        rest = tuple((s, x) for s, x in mono if s != atom)
        if best is None or e > best:
            best, lead = e, Poly({rest: c})
        elif e == best:
            lead = lead + Poly({rest: c})
    return (best if best is not None else Fr(0)), lead


def limit_huge(v, atom='HUGE'):
    """limit of a Poly / Rat for atom -> +infinity (the regulariser _HUGE marks an empty table cell)."""
    if isinstance(v, (int, Fr)):
        return v
    if isinstance(v, Poly):
        if atom not in v.atoms():
            return v
        d, lead = _deg_lead(v, atom)
        if d > 0:
            raise AnalysisError('value diverges with the _HUGE regulariser: %r' % (v,))
        return lead if d == 0 else Poly.const(0)
    if isinstance(v, Rat):
        if atom not in v.atoms():
            return v
        dn, ln = _deg_lead(v.n, atom)
        dd, ld = _deg_lead(v.d, atom)
        if dn > dd:
            raise AnalysisError('value diverges with the _HUGE regulariser')
        if dn < dd:
            return Poly.const(0)
        return Rat.make(ln, ld)
    return v


def eps_table(s):
    """Exact Wynn epsilon table of the sequence s (list of Poly).  eps[k][n], k = -1..; returns dict (k, n) -> value."""
    N = len(s)
    eps = {}
    for n in range(N + 1):
        eps[(-1, n)] = Poly.const(0)
    for n in range(N):
        eps[(0, n)] = s[n]
    for k in range(0, N - 1):
        for n in range(N - k - 1):
            eps[(k + 1, n)] = eps[(k - 1, n + 1)] + 1 / (eps[(k, n + 1)] - eps[(k, n)])
    return eps


def same(a, b):
    try:
        return bool(alg_equal(limit_huge(a), limit_huge(b)))
    except (AlgebraError, TypeError):
        return False


from ..ndarr import same_magnitude      # noqa: E402


def run(ctx):
    rep = ctx.rep
    rep.notes['explanation'] = (
        'Finiteness of Dea for arbitrary finite input is NOT decided (rounding, overflow). Decided: EpsAlg against the exact '
        'epsilon table for symbolic sequences; the first extrapolation of Dea against dea3; Dea values against the exact '
        'table with all guards off, through table shifts; the table index bound on every guard outcome when more terms '
        'than the table holds are fed; the 5*EPS*|result| floor.')
    for rid, text in RULES.items():
        rep.rule(rid, text, 1)
    ex = ctx.repo.module('extrapolation')
    epsalg(ctx, ex)
    dea_vs_dea3(ctx, ex)
    dea_table(ctx, ex)
    dea_floor_all_outcomes(ctx, ex)
    dea_cap(ctx, ex)
    rep.notes['trusted_base'] = ['python ast', 'ndverif abstract interpreter and exact rational-function algebra']


def where_cls(ex, cls, meth):
    ci = ex.classes.get(cls)
    if ci is None:
        raise AnalysisError('anchor vanished: extrapolation.%s' % cls)
    r = ci.lookup(meth) or ci.lookup('__call__')
    if r is None:
        return ex.where(ci.node)            # only the place a report points to: the class itself will do
    return ex.where(r[1])


def epsalg(ctx, ex):
    rep = ctx.rep
    guard_cmps = []

    def oracle(interp, node, fr, value):
        if isinstance(value, Unk):
            guard_cmps.extend(value.comparisons())
        return False          # no difference vanishes
    I, models = make(ctx.repo, oracle)
    E = I.get_global('extrapolation', 'EpsAlg')
    K = 5 if ctx.tier == 'quick' else 6
    s = [Poly.sym('s%d' % k) for k in range(K)]
    table = eps_table(s)
    obj = E()
    where = where_cls(ex, 'EpsAlg', '__call__')
    for n in range(K):
        got = obj(s[n])
        m = n // 2
        want = table[(2 * m, n - 2 * m)]
        rep.check(same(got, want), 'R-EPSALG', 'extrapolation.EpsAlg.__call__', where,
                  {'after_term': n, 'returned': repr(got)[:160], 'expected_entry': 'eps_%d^(%d)' % (2 * m, n - 2 * m)},
                  'highest even-order entry determined by the terms seen', 'term %d' % n, key='epsalg table')
    # a second object of the same process, fed another sequence: its values are entries of the table of ITS terms (nothing
    # of the first object's table is shared between objects)
    # (own interpreter run, the first object fed one term only: were the tables shared, symbolic entries of a long
    # common table would be computed for nothing)
    I2, _m2 = make(ctx.repo, oracle)
    E2 = I2.get_global('extrapolation', 'EpsAlg')
    E2()(Poly.sym('s0'))
    t = [Poly.sym('t%d' % k) for k in range(3)]
    table2 = eps_table(t)
    obj2 = E2()
    for n in range(3):
        got = obj2(t[n])
        m = n // 2
        want = table2[(2 * m, n - 2 * m)]
        rep.check(same(got, want), 'R-EPSALG', 'extrapolation.EpsAlg.__call__', where,
                  {'object': 'second object of the process', 'after_term': n, 'returned': repr(got)[:160],
                   'expected_entry': 'eps_%d^(%d) of its own terms' % (2 * m, n - 2 * m)},
                  'highest even-order entry determined by the terms this object has seen', 'second object, term %d' % n,
                  key='epsalg second object')
    # guard constant
    consts = []
    for c in guard_cmps:
        _, op, a, b = c
        cb = ndarr.concrete_real(b)
        consts.append((op, repr(a)[:60], cb))
    bad = [c for c in consts if not (c[0] in ('<=', '<') and c[2] is not None and 0 <= c[2] <= Fr(1, 10 ** 30)
                                     and c[1].startswith('abs('))]
    rep.check(consts and not bad, 'R-EPSALG-GUARD', 'extrapolation.EpsAlg.__call__', where,
              {'guards': [(op, a, float(c) if c is not None else None) for op, a, c in consts][:4], 'not_negligible': bad[:2]},
              '|delta| <= c with c <= 1e-30', 'vanishing difference guard', key='epsalg guard')


def guards_off(text, prefer_new, value=None):
    """Outcome of an undetermined branch condition in the regime where no convergence / irregular-behaviour guard fires:
    every difference is large against its tolerance (`|d| > tol`, tol a multiple of EPS), the irregularity measure is above
    1e-4, and of two error estimates the new one is preferred or not as `prefer_new` says.  The condition is judged by
    what it compares (the structure of the undetermined value), not by its source text."""
    if isinstance(value, Unk):
        r = _eval_guard(value.expr, prefer_new)
        if r is not None:
            return r
    neg = False
    while text.startswith('not '):
        text, neg = text[4:], not neg
    if 'converged' in text:
        val = False
    elif 'error > abserr' in text:
        val = not prefer_new          # `if not error > abserr` takes the new element
    else:
        val = False
    return val != neg


def _has_eps(x):
    return isinstance(x, (Poly, Rat)) and any('EPS' in a_ for a_ in x.atoms())


def _eval_guard(e, prefer_new):
    if isinstance(e, Unk):
        return _eval_guard(e.expr, prefer_new)
    if isinstance(e, bool):
        return e
    if not (isinstance(e, tuple) and e):
        return None
    if e[0] == 'not':
        r = _eval_guard(e[1], prefer_new)
        return None if r is None else not r
    if e[0] in ('and', 'or'):
        x, y = _eval_guard(e[1], prefer_new), _eval_guard(e[2], prefer_new)
        if x is None or y is None:
            return None
        return (x and y) if e[0] == 'and' else (x or y)
    if e[0] == 'cmp':
        _, op, a_, b_ = e
        if op not in ('<', '<=', '>', '>='):
            return None
        greater = op in ('>', '>=')
        if a_ == 'HUGE-scale' and b_ == 'HUGE-scale':
            return greater                   # |e_1 - HUGE| against max(.., HUGE) * EPS: a difference against its tolerance
        if _has_eps(b_) and not _has_eps(a_):
            return greater                   # |difference| against its tolerance: not converged
        if _has_eps(a_) and not _has_eps(b_):
            return not greater
        cb, ca = ndarr.concrete_real(b_), ndarr.concrete_real(a_)
        if cb is not None and 0 < cb <= Fr(1, 1000):
            return greater                   # irregularity measure against 1e-4: regular
        if ca is not None and 0 < ca <= Fr(1, 1000):
            return not greater
        huge = lambda x: isinstance(x, Poly) and 'HUGE' in x.atoms()       # noqa: E731
        if huge(b_) and not huge(a_):
            return not greater               # anything is below the "no estimate yet" sentinel
        if huge(a_) and not huge(b_):
            return greater
        # two error estimates: `new > old` is false when the new one is preferred
        return (not prefer_new) if greater else prefer_new
    return None


def dea_first_iteration(repo):
    """Abstract run of Dea with three symbolic terms, all guards answered False; returns value and the tests seen."""
    tests = []

    def oracle(interp, node, fr, value):
        if isinstance(value, Unk):
            for c in value.comparisons():
                tests.append(('%r %s %r' % (c[2], c[1], c[3]))[:160])
                cmps.append(c)
            branches.append(value)
        return guards_off(ast.unparse(node), True, value)
    cmps = []
    branches = []
    I, models = make(repo, oracle)
    D = I.get_global('extrapolation', 'Dea')
    D(limexp=3)(Poly.sym('w0'))      # an earlier object of the same process, already used: it shares nothing with the next
    obj = D(limexp=3)
    e = [Poly.sym('e%d' % k) for k in range(3)]
    out = None
    for k in range(3):
        out = obj(e[k])
    return {'value': out[0], 'abserr': out[1], 'tests': tests, 'cmps': cmps, 'branches': branches}


def provably_nonneg(v):
    """A sum of products of abs(..) / max(..positive..) atoms and positive constants with positive coefficients."""
    from ..algebra import Rat
    if isinstance(v, Rat):
        return provably_nonneg(v.n) and provably_nonneg(v.d)
    c = ndarr.concrete_real(v)
    if c is not None:
        return c >= 0
    if not isinstance(v, Poly):
        return False
    for mono, coef in v.t.items():
        if not coef.is_real() or coef.sign_real() < 0:
            return False
        for atom, e in mono:
            if not (atom.startswith('abs(') or atom in ndarr.POSITIVE_ATOMS or e.denominator == 1 and e.numerator % 2 == 0):
                return False
    return True


def dea_vs_dea3(ctx, ex):
    rep = ctx.rep
    from .c13 import make as make13, all_b
    info = dea_first_iteration(ctx.repo)
    # the irregular-behaviour test must compare a magnitude: `x <= 1e-4` for an x that can be negative fires for every
    # negative x (descending sequences) and cuts the table although nothing is irregular
    signed = [t for t in info['cmps'] if ndarr.concrete_real(t[3]) == Fr(1, 10000) and t[1] in ('<=', '<') and not provably_nonneg(t[2])]
    rep.check(not signed and any(ndarr.concrete_real(t[3]) == Fr(1, 10000) for t in info['cmps']), 'R-DEA-DEA3', 'extrapolation.Dea._dea',
              where_cls(ex, 'Dea', '_dea'), {'compared_with_1e-4': [repr(t[2])[:120] for t in info['cmps'] if ndarr.concrete_real(t[3]) == Fr(1, 10000)][:3],
                                             'can_be_negative': [repr(t[2])[:120] for t in signed][:2]},
              'the irregular-behaviour test bounds |sss * e_1| (a magnitude)', 'three terms: irregular-behaviour guard', key='dea-irregular')
    I, models = make13(ctx.repo)
    dea3 = I.get_global('extrapolation', 'dea3')
    e = [Poly.sym('e%d' % k) for k in range(3)]
    r3, _ = dea3(*e)
    r3 = r3.item() if isinstance(r3, Arr) else r3
    # the two translations of the three term rule apply the same irregular-behaviour test: what dea3 compares with 1e-4
    # is (up to the way a magnitude is written) what Dea compares with 1e-4
    from .c13 import cmp_leaves, norm_cmp
    from ..absint import Choice
    irr3 = [c for c in (norm_cmp(c) for c in (cmp_leaves(r3.cond) if isinstance(r3, Choice) else []))
            if ndarr.concrete_real(c[2]) == Fr(1, 10000)]
    irrd = [all_b(t[2]) for t in info['cmps'] if ndarr.concrete_real(t[3]) == Fr(1, 10000)]
    differing = [repr(c[1])[:160] for c in irr3 if not any(same_magnitude(c[1], d) for d in irrd)]
    rep.check(bool(irr3) and not differing, 'R-DEA-DEA3', 'extrapolation.Dea._dea', where_cls(ex, 'Dea', '_dea'),
              {'dea3_compares_with_1e-4': [repr(c[1])[:160] for c in irr3][:2], 'Dea_compares_with_1e-4': [repr(d)[:160] for d in irrd][:2],
               'without_counterpart': differing[:2]},
              'the same irregularity measure in both', 'three terms: the irregular-behaviour test of dea3 and of Dea', key='dea-dea3 guard')
    # ... and nothing else decides whether it applies: the branch of Dea that reads the 1e-4 comparison reads no other test
    # of the data (dea3 applies the measure unconditionally), e.g. no `e_1 != 0 and ...` in front of it
    def leaves(e):
        e = e.expr if isinstance(e, Unk) else e
        if isinstance(e, tuple) and e and e[0] in ('and', 'or'):
            return leaves(e[1]) + leaves(e[2])
        if isinstance(e, tuple) and e and e[0] == 'not':
            return leaves(e[1])
        return [e]
    mixed = []
    for b in info.get('branches', []):
        ls = leaves(b)
        has_measure = any(isinstance(l_, tuple) and l_ and l_[0] == 'cmp' and ndarr.concrete_real(l_[3]) == Fr(1, 10000) for l_ in ls)
        others = [l_ for l_ in ls if not (isinstance(l_, tuple) and l_ and l_[0] == 'cmp' and
                                          (ndarr.concrete_real(l_[3]) == Fr(1, 10000) or _has_eps(l_[3]) or _has_eps(l_[2])))]
        if has_measure and others:
            mixed.append([repr(o)[:100] for o in others][:2])
    rep.check(not mixed, 'R-DEA-DEA3', 'extrapolation.Dea._dea', where_cls(ex, 'Dea', '_dea'),
              {'other_tests_in_the_branch_of_the_irregularity_measure': mixed[:2]},
              'the irregular-behaviour test of Dea is the measure against 1e-4 (and the convergence tests), as in dea3',
              'three terms: what the irregular-behaviour branch of Dea reads', key='dea-dea3 guard')
    r3 = all_b(r3)
    ok = same(info['value'], r3)
    # same three tests: compare the left hand sides |e1-e0|, |e2-e1|, |sss*e1|
    want_irregular = [t for t in info['tests'] if '<= Fraction(1, 10000)' in t or '<= 1/10000' in t]
    rep.check(ok and len(want_irregular) >= 1, 'R-DEA-DEA3', 'extrapolation.Dea._dea', where_cls(ex, 'Dea', '_dea'),
              {'dea_value': repr(info['value'])[:200], 'dea3_value': repr(r3)[:200], 'tests_in__dea': info['tests'][:8]},
              'identical Shanks formula; irregular-behaviour test |sss*e_1| <= 1e-4 present', 'three terms',
              key='dea-dea3')
    # floor
    ab = info['abserr']
    s = repr(ab)
    rep.check(s.startswith('max(') and 'EPS' in s and 'abs(' in s, 'R-DEA-FLOOR', 'extrapolation.Dea._dea',
              where_cls(ex, 'Dea', '_dea'), {'abserr': s[:200]}, 'max(abserr, 5*EPS*|result|)', 'three terms', key='dea-floor')


def dea_table(ctx, ex):
    """All guards off: Dea values are entries of the exact epsilon table (through shifts)."""
    rep = ctx.rep
    where = where_cls(ex, 'Dea', '_dea')
    # (an even limexp stands for the next odd table size, as documented by the limexp setter)
    for limexp, nterms in ((3, 7), (5, 6), (4, 6)) if ctx.tier == 'quick' else ((3, 9), (5, 7), (4, 7), (2, 5)):
        for prefer_new in ((True, False) if limexp == 3 else (True,)):
            def oracle(interp, node, fr, value, prefer_new=prefer_new):
                return guards_off(ast.unparse(node), prefer_new, value)
            I, models = make(ctx.repo, oracle)
            D = I.get_global('extrapolation', 'Dea')
            obj = D(limexp=limexp)
            s = [Poly.sym('s%d' % k) for k in range(nterms)]
            problems = []
            floor_problems = []
            from ..engine import budget
            try:
              with budget(30 if ctx.tier == 'quick' else 90, 'Dea table limexp=%d' % limexp):
                for n in range(nterms):
                    val, err = obj(s[n])
                    if n < 2:
                        if not same(val, s[n]):
                            problems.append('term %d: returned %r' % (n, val))
                        continue
                    if not is_floored(err):
                        floor_problems.append('term %d: error estimate %s' % (n, repr(err)[:80]))
                    # the window of terms the table can hold
                    width = min(n + 1, 2 * (limexp // 2) + 1)
                    cands = []
                    for k in range(2, width, 2):
                        win = s[n - k:n + 1]            # the last k+1 terms determine eps_k
                        cands.append(eps_table(win)[(k, 0)])
                    cands.reverse()
                    if not any(same(val, c) for c in cands):
                        problems.append('term %d: value is not an even-order entry of the epsilon table of the last %d terms'
                                        % (n, width))
                        break
                    if prefer_new and not same(val, cands[0]):
                        # every "is the new element better" test answered yes: the value is the entry of highest order the
                        # table can hold (what EpsAlg returns for these terms)
                        problems.append('term %d: not the entry of highest even order (%d) of the last %d terms'
                                        % (n, 2 * ((width - 1) // 2), width))
                        break
            except InterpRaise as exc:
                problems.append('raises %s: %s' % (exc.exc_name, exc.msg[:80]))
            except AnalysisError as exc:
                if not problems:
                    rep.undecided('R-DEA-TABLE', 'extrapolation.Dea._dea', exc, 'limexp=%d/prefer_new=%s' % (limexp, prefer_new))
                    continue
            rep.check(not floor_problems, 'R-DEA-FLOOR', 'extrapolation.Dea._dea', where,
                      {'limexp': limexp, 'terms_fed': nterms, 'problems': floor_problems[:3]},
                      'from the third term on the reported error is max(.., 5*EPS*|result|), on every call',
                      'limexp=%d/prefer_new=%s' % (limexp, prefer_new), key='dea-floor-later-terms')
            rep.check(not problems, 'R-DEA-TABLE', 'extrapolation.Dea._dea', where,
                      {'limexp': limexp, 'terms_fed': nterms, 'problems': problems[:2]},
                      'every value is an entry of the exact epsilon table of the terms in the table',
                      'limexp=%d/prefer_new=%s' % (limexp, prefer_new), key='dea-table')


def is_floored(err):
    """err is max(.., 5*EPS*|result|) in the normal form of the algebra, or the infinite estimate of an empty table"""
    es = repr(err)
    return es == 'INF' or (es.startswith('max(') and 'EPS' in es and 'abs(' in es)


def dea_floor_all_outcomes(ctx, ex):
    """The floor on every outcome of the convergence / irregular-behaviour guards (explored per site): after a guard
    restarts the table the next calls run through the short-table branches of __call__ again - from the third term on
    those must report a floored estimate as well."""
    from ..engine import budget
    rep = ctx.rep
    where = where_cls(ex, 'Dea', '__call__')
    for limexp, nterms in ((3, 7),) if ctx.tier == 'quick' else ((3, 9), (5, 8)):
        exr = Explorer(max_paths=64, by_value=False)

        def body(oracle, limexp=limexp, nterms=nterms):
            I, models = make(ctx.repo, oracle)
            obj = I.get_global('extrapolation', 'Dea')(limexp=limexp)
            out = []
            try:
                for k in range(nterms):
                    out.append(obj(Poly.sym('s%d' % k)))
            except InterpRaise:
                pass                      # the index bound is R-DEA-CAP's clause; judge the terms returned before
            return out
        try:
            with budget(40, 'Dea floor limexp=%d' % limexp):
                exr.run(body)
        except AnalysisError as exc:
            rep.undecided('R-DEA-FLOOR', 'extrapolation.Dea.__call__', exc, 'limexp=%d/all guard outcomes' % limexp)
            continue
        for decisions, res, exc in exr.paths:
            path = ', '.join('%s=%s' % (d[1][:28], d[0]) for d in decisions)
            label = 'limexp=%d/guards: %s' % (limexp, path or 'none met')
            if exc is not None:
                rep.undecided('R-DEA-FLOOR', 'extrapolation.Dea.__call__', AnalysisError(str(exc)), label)
                continue
            bad = ['term %d: error estimate %s' % (k + 1, repr(e)[:60]) for k, (v, e) in enumerate(res) if k >= 2 and not is_floored(e)]
            rep.check(not bad, 'R-DEA-FLOOR', 'extrapolation.Dea.__call__', where,
                      {'limexp': limexp, 'terms_fed': nterms, 'terms_returned': len(res), 'guard_outcomes': path, 'problems': bad[:3]},
                      'from the third term on every reported error is max(.., 5*EPS*|result|), whatever the guards decide',
                      label, key='dea-floor-guard-outcomes')


def dea_cap(ctx, ex):
    """Index bound on all guard outcomes: feed many terms, explore every outcome of the guards (per site),
    record the fill index that __call__ stores between calls and every subscript used on the table."""
    rep = ctx.rep
    where = where_cls(ex, 'Dea', '_dea')
    # the fill index: the integer state that counts the terms stored so far during the first two calls of a roomy table
    # (found by what it does, no attribute name is used)
    from ..dvrun import DVSession
    from ..dv import DV
    probe = DVSession(ctx.repo, None).interp.get_global('extrapolation', 'Dea')(limexp=9)
    before = []
    for k in range(2):
        probe(DV({('s', k)}, 'f'))
        before.append({a: v for a, v in probe.attrs.items() if isinstance(v, int) and not isinstance(v, bool)})
    fill = [a for a in before[1] if before[0].get(a) == 1 and before[1].get(a) == 2]
    # the table: the public attribute `epstab` of the property record (an attribute or a property), else the one 1-d array
    try:
        probe_table = probe.interp.getattr(probe, 'epstab')
        table = None if isinstance(probe_table, Arr) and probe_table.ndim == 1 else 0
    except (AnalysisError, InterpRaise):
        tables = [a for a, v in probe.attrs.items() if isinstance(v, Arr) and v.ndim == 1]
        table = tables[0] if len(tables) == 1 else 0
    if len(fill) != 1 or table == 0:
        raise AnalysisError('anchor vanished: the fill index / the table of Dea (candidates %r)' % (fill,))
    fill = fill[0]
    for limexp in (3, 5) if ctx.tier == 'quick' else (3, 4, 5, 7):
        nterms = 2 * limexp + 6
        exr = Explorer(max_paths=512, by_value=False)

        def body(oracle, limexp=limexp, nterms=nterms):
            # only the index arithmetic matters here: the terms are opaque data values
            sess = DVSession(ctx.repo, oracle)
            I = sess.interp
            D = I.get_global('extrapolation', 'Dea')
            obj = D(limexp=limexp)
            trace = []
            for k in range(nterms):
                obj(DV({('s', k)}, 'f'))
                trace.append(obj.attrs[fill])
            tab = I.getattr(obj, 'epstab') if table is None else obj.attrs[table]
            return trace, tab.shape[0]
        exr.run(body)
        raised = []
        over = []
        offending = []
        for decisions, res, exc in exr.paths:
            path = ', '.join('%s=%s' % (d[1][:28], d[0]) for d in decisions)
            if exc is not None:
                raised.append({'path': path, 'raises': exc.exc_name, 'message': exc.msg[:60]})
                offending.append(decisions)
                continue
            trace, size = res
            # at the next entry epstab[n + 2] is written: it must stay below the res3la cells (size - 3)
            if any(n + 2 > size - 4 for n in trace):
                over.append({'path': path, 'indices': trace[:14], 'table_cells': size - 3})
                offending.append(decisions)
        # which violation it is: on every offending path the guard "all the entries of the step agreed to machine accuracy"
        # (recognised by what it computes: it holds exactly when every one of its tolerance comparisons holds) was taken -
        # the exit that returns without passing the shift / cap of the table
        def took_all_agreed(decisions):
            for d in decisions:
                info = exr.site_info.get((d[1], d[2]))
                if info is not None and len(info) > 2 and info[2][0] == ('all' if d[0] is True else 'not-all'):
                    return True
            return False
        key = 'dea-cap'
        if offending and all(took_all_agreed(d) for d in offending):
            key = 'dea-cap: index not capped on the all_converged path'
        rep.check(not raised and not over, 'R-DEA-CAP', 'extrapolation.Dea._dea', where,
                  {'limexp': limexp, 'terms_fed': nterms, 'paths': len(exr.paths), 'raised': raised[:2],
                   'index_beyond_table': over[:2]},
                  'n + 2 stays inside the table on every guard outcome', 'limexp=%d' % limexp, key=key)
