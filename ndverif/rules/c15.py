"""C15 fd_weights equal the exact Lagrange-derivative weights for any nodes."""
import itertools
import math
from fractions import Fraction as Fr

from ..srcmodel import AnalysisError
from ..algebra import Poly, Rat, alg_equal, AlgebraError
from .. import ndarr
from ..ndarr import Arr, InterpRaise
from ..absint import Interp
from ..libmodels import Models
from ..engine import budget
from ..paths import approx_paths, path_text, only_negligible, zero_substitution

RULES = {
    'R-LAGRANGE': 'abstract run of fd_weights_all on symbolic distinct nodes x_0..x_{m-1} and a symbolic expansion point: row k, entry v '
                  'equals k! * e_{m-1-k}({x0 - x_u}, u != v) / prod_{u != v}(x_v - x_u), the k-th derivative at x0 of the Lagrange basis '
                  'polynomial of node v (rational function identity), for every ordering hypothesis of the nodes tried',
    'R-ROW': 'fd_weights(x, x0, n) is row n of fd_weights_all(x, x0, n)',
    'R-MEMO': 'a table filled while fd_weights / fd_weights_all run is keyed by the arguments themselves: a key computed with '
              'floating-point arithmetic on them (x - x0, ratios) is not injective in the arguments - node sets whose offsets round to '
              'the same numbers share the key - so a stored row could be returned for other nodes; every dict store of the abstract '
              'runs is examined (none on a memo-free implementation)',
}


def lagrange_weight(xs, c, v, k):
    m = len(xs)
    others = [c - xs[u] for u in range(m) if u != v]
    need = m - 1 - k
    if need < 0:
        return Poly.const(0)
    e = Poly.const(0)
    for comb in itertools.combinations(range(len(others)), need):
        t = Poly.const(1)
        for i in comb:
            t = t * others[i]
        e = e + t
    den = Poly.const(1)
    for u in range(m):
        if u != v:
            den = den * (xs[v] - xs[u])
    return Rat.make(e * math.factorial(k), den)


def stencil_table_keys(repo):
    """(n, len) keys of the literal dict CENTRAL_WEIGHTS_AND_POINTS in fornberg.py, read from the AST (empty when absent)."""
    import ast
    keys = set()
    for node in ast.walk(repo.module('fornberg').tree):
        if isinstance(node, ast.Assign) and any(isinstance(t, ast.Name) and t.id == 'CENTRAL_WEIGHTS_AND_POINTS' for t in node.targets) \
                and isinstance(node.value, ast.Dict):
            for k in node.value.keys:
                try:
                    v = ast.literal_eval(k)
                except (ValueError, TypeError):
                    continue
                if isinstance(v, tuple) and len(v) == 2 and all(isinstance(t, int) for t in v):
                    keys.add(v)
    return keys


def judge(rep, W, xs, c, n, m, where, label, rule='R-LAGRANGE', rows=None):
    problems = []
    rows = list(range(n + 1)) if rows is None else rows
    want_shape = (n + 1, m) if rule == 'R-LAGRANGE' else (m,)
    if not isinstance(W, Arr) or W.shape != want_shape:
        problems.append('shape %r, expected %r' % (getattr(W, 'shape', None), want_shape))
    else:
        for k in rows:
            for v in range(m):
                want = lagrange_weight(xs, c, v, k)
                got = W[k, v] if rule == 'R-LAGRANGE' else W[v]
                if isinstance(got, ndarr.Choice):
                    # the weight depends on a test on the data (a threshold, say): every outcome that some node set realises
                    # must be the exact weight.  Outcomes are realised by concrete node sets x_j = (j + 1/3) * s at several
                    # scales s (a witness each); an outcome no witness reaches stays undecided
                    hit = None
                    for sval in (Fr(1), Fr(1, 10 ** 5), Fr(10 ** 5), Fr(1, 10 ** 10), Fr(10 ** 10)):
                        env = {'EPS': Fr(1, 2 ** 52), 'c': Fr(1, 7) * sval}
                        for j, xj in enumerate(xs):
                            for a_ in (xj.atoms() if hasattr(xj, 'atoms') else ()):
                                env.setdefault(a_, (Fr(j) + Fr(1, 3)) * sval)
                        r = ndarr.resolve_at(got, env)
                        if r is None or isinstance(r[0], ndarr.Choice):
                            continue
                        gv, wv = ndarr.evaluate_concrete(r[0], env), ndarr.evaluate_concrete(want, env)
                        if gv is not None and wv is not None and repr(gv) != repr(wv):
                            hit = (sval, r[1][:2], gv, wv)
                            break
                    if hit is None:
                        raise AnalysisError('weight [%d, %d] depends on a test on the data that could not be resolved: %s' % (k, v, repr(got)[:160]))
                    problems.append('row %d node %d: %s for nodes of scale s = %s (tests: %s), exact %s' % (k, v, repr(hit[2])[:40], hit[0], hit[1], repr(hit[3])[:40]))
                    continue
                if not alg_equal(got, want):
                    problems.append('row %d node %d: %s (exact: %s)' % (k, v, repr(got)[:60], repr(want)[:60]))
    return problems


def generic(ctx, fb, where, m, rank, xs, c, row_rule):
    """Symbolic distinct nodes under one ordering hypothesis; tolerance predicates are explored on both sides."""
    rep = ctx.rep
    n = m - 1
    label0 = 'len(x)=%d/n=%d/order hypothesis=%s' % (m, n, rank)
    where_fw = fb.where(ctx.repo.func('fornberg', 'fd_weights'))

    def run_one(entry, args_of, rule, construct, wh, label, key, rows, nn):
        records = []
        stores = []

        def body(oracle):
            models = Models()
            I = Interp(ctx.repo, models, branch_oracle=oracle)
            models.bind(I)
            ndarr.ORDER_RANK.clear()
            ndarr.ORDER_RANK.update({'x%d' % k: rank[k] for k in range(m)})
            I.on_dict_store = lambda d, key, val: stores.append((key, I.where()))
            try:
                return I.get_global('fornberg', entry)(*args_of())
            finally:
                ndarr.ORDER_RANK.clear()
                I.on_dict_store = None
        try:
            with budget(60, '%s m=%d' % (entry, m)):
                paths = approx_paths(body, records=records, zero_symbols=('c',))
                for (decisions, W, exc), rec in zip(paths, records):
                    lab = label + ('' if not decisions else '/' + path_text(decisions))
                    zero, rec = zero_substitution(rec)
                    if exc is not None:
                        rep.violation(rule, construct, wh, {'raises': exc.exc_name, 'message': exc.msg[:100]},
                                      'weights for distinct nodes', lab, key='raises')
                        continue
                    if rec and any(o for _, o in rec) and only_negligible(rec):
                        # equality up to rounding: covered by the instances with identical operands (uniform grids)
                        rep.notes.setdefault('paths_refining_exact_equality', []).append(lab[:160])
                        continue
                    if zero and isinstance(W, Arr):
                        # the code took the side `x0 == 0`: judge it for that x0
                        W = Arr(W.shape, [(v.subs(zero) if isinstance(v, (Poly, Rat)) else v) for v in W.items()])
                    problems = judge(rep, W, xs, (c.subs(zero) if zero else c), nn, m, wh, lab, rule, rows)
                    rep.check(not problems, rule, construct, wh, {'nodes': m, 'n': nn, 'mismatches': problems[:3]},
                              'k-th derivative at x0 of the Lagrange basis polynomials', lab, key=key)
                lossy = []
                for k_, where_k in stores:
                    for part in (k_ if isinstance(k_, tuple) else (k_,)):
                        if isinstance(part, Rat) or (isinstance(part, Poly) and len(part.t) > 1 and
                                                     any(a.startswith('x') or a == 'c' for a in part.atoms())):
                            lossy.append('%s: key component %s' % (where_k, repr(part)[:60]))
                            break
                rep.check(not lossy, 'R-MEMO', construct, wh, {'dict_stores': len(stores), 'keys_from_rounded_arithmetic': lossy[:2]},
                          'no table keyed by rounded arithmetic on the arguments', label, key='memo')
        except AnalysisError as exc:
            rep.undecided(rule, construct, exc, label)
    run_one('fd_weights_all', lambda: (Arr((m,), list(xs)), c, n), 'R-LAGRANGE', 'fornberg._fd_weights_all', where, label0,
            'lagrange', None, n)
    if row_rule:
        for nn in range(m):
            run_one('fd_weights', lambda nn=nn: (Arr((m,), list(xs)), c, nn), 'R-ROW', 'fornberg.fd_weights', where_fw,
                    'len(x)=%d/n=%d' % (m, nn), 'row', [nn], nn)


def call_sequences(ctx, fb):
    """The wrappers in one process, one after the other on the same nodes: the whole table first, then single rows in
    descending and in scrambled order of n - each answer is the row that was asked for, whatever was computed before."""
    rep = ctx.rep
    where_fw = fb.where(ctx.repo.func('fornberg', 'fd_weights'))
    for m in (3, 4):
        xs = [Poly.sym('x%d' % k) for k in range(m)]
        c = Poly.sym('c')
        label = 'len(x)=%d: fd_weights_all(n=%d), then fd_weights for n = %s' % (m, m - 1, list(range(m - 1, -1, -1)) + [1, m - 1, 0])
        try:
            models = Models()
            I = Interp(ctx.repo, models)
            models.bind(I)
            ndarr.ORDER_RANK.clear()
            ndarr.ORDER_RANK.update({'x%d' % k: k for k in range(m)})
            problems = []
            try:
                with budget(60, 'fd_weights call sequence m=%d' % m):
                    I.get_global('fornberg', 'fd_weights_all')(Arr((m,), list(xs)), c, m - 1)
                    for nn in list(range(m - 1, -1, -1)) + [1, m - 1, 0]:
                        row = I.get_global('fornberg', 'fd_weights')(Arr((m,), list(xs)), c, nn)
                        problems += ['n=%d: %s' % (nn, p) for p in judge(rep, row, xs, c, nn, m, where_fw, label, 'R-ROW', [nn])]
            finally:
                ndarr.ORDER_RANK.clear()
            rep.check(not problems, 'R-ROW', 'fornberg.fd_weights', where_fw, {'nodes': m, 'mismatches': problems[:3]},
                      'each call returns the row it was asked for', label, key='row sequence')
        except InterpRaise as exc:
            rep.violation('R-ROW', 'fornberg.fd_weights', where_fw, {'raises': exc.exc_name, 'message': exc.msg[:100]},
                          'weights for distinct nodes', label, key='raises')
        except AnalysisError as exc:
            rep.undecided('R-ROW', 'fornberg.fd_weights', exc, label)


def uniform(ctx, fb, where, n, m, offs, tag):
    rep = ctx.rep
    S, C = Poly.sym('s'), Poly.sym('c')
    xs = [C + S * k for k in offs]
    ndarr.POSITIVE_ATOMS.add('s')
    where_fw = fb.where(ctx.repo.func('fornberg', 'fd_weights'))
    for x0, x0tag in ((C, 'x0 = c'), (C + S * Fr(1, 3), 'x0 = c + s/3')):
        label = 'uniform grid c + s*%s (%s)/%s/n=%d' % (offs, tag, x0tag, n)
        try:
            models = Models()
            I = Interp(ctx.repo, models)
            models.bind(I)
            with budget(60, 'fd_weights uniform m=%d' % m):
                try:
                    row = I.get_global('fornberg', 'fd_weights')(Arr((m,), list(xs)), x0, n)
                except InterpRaise as exc:
                    rep.violation('R-ROW', 'fornberg.fd_weights', where_fw, {'raises': exc.exc_name, 'message': exc.msg[:100]},
                                  'weights for distinct nodes', label, key='raises')
                    continue
                problems = judge(rep, row, xs, x0, n, m, where_fw, label, 'R-ROW', [n])
                rep.check(not problems, 'R-ROW', 'fornberg.fd_weights', where_fw, {'nodes': m, 'n': n, 'mismatches': problems[:3]},
                          'n-th derivative at x0 of the Lagrange basis polynomials of the equally spaced nodes', label, key='row uniform')
        except AnalysisError as exc:
            rep.undecided('R-ROW', 'fornberg.fd_weights', exc, label)
    ndarr.POSITIVE_ATOMS.discard('s')


def run(ctx):
    rep = ctx.rep
    rep.notes['explanation'] = (
        'Conditioning / rounding is NOT decided. Decided: the recursion of _fd_weights_all and its wrappers compute, in exact '
        'arithmetic, exactly the Lagrange-derivative weights: the functions are interpreted abstractly on symbolic nodes (2..4, '
        'thorough 5) for every n < len(x) and the result is compared with the closed form of the definition. Code that compares or '
        'sorts nodes is interpreted under explicit ordering hypotheses (identity, reversed, rotated, interleaved).')
    for rid, text in RULES.items():
        rep.rule(rid, text, {'R-LAGRANGE': 8, 'R-ROW': 3, 'R-MEMO': 3}[rid])
    fb = ctx.repo.module('fornberg')
    where = fb.where(ctx.repo.func('fornberg', '_fd_weights_all')) if '_fd_weights_all' in fb.funcs else fb.relpath
    sizes = (2, 3, 4) if ctx.tier == 'quick' else (2, 3, 4, 5)
    for m in sizes:
        orders = [tuple(range(m)), tuple(reversed(range(m)))]
        if m >= 3:
            orders.append(tuple(list(range(1, m)) + [0]))            # rotation
            orders.append(tuple(sorted(range(m), key=lambda i: (i % 2, i))))   # interleaved
        if ctx.tier == 'quick' and m == 4:
            orders = orders[:3]
        for rank in orders:
            xs = [Poly.sym('x%d' % k) for k in range(m)]
            generic(ctx, fb, where, m, rank, xs, Poly.sym('c'), row_rule=(rank == orders[0]))
    # uniform grids: the nodes are c + s*k for concrete integers k (any order), so code that recognises equally spaced
    # stencils (tolerance predicates included: identical terms compare close) is analysed on the case it is written for.
    # Sizes and orders follow the stencil table of the module when there is one.
    table_keys = stencil_table_keys(ctx.repo)
    rep.notes['stencil_table_keys'] = sorted(table_keys)
    uni = sorted({(n, m) for n, m in table_keys if m <= (9 if ctx.tier != 'quick' else 7)} | {(1, 3), (2, 3), (1, 5), (2, 5)})
    for n, m in uni:
        half = m // 2
        for offs, tag in ((list(range(-half, m - half)), 'centred'), (list(range(0, m)), 'one-sided'),
                          (list(range(m - half - 1, -half - 1, -1)), 'centred, descending')):
            uniform(ctx, fb, where, n, m, offs, tag)
    call_sequences(ctx, fb)
    rep.notes['trusted_base'] = ['python ast', 'ndverif abstract interpreter and exact rational-function algebra']
