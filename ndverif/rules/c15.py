"""C15 fd_weights equal the exact Lagrange-derivative weights for any nodes."""
import itertools
import math
from fractions import Fraction as Fr

from ..srcmodel import AnalysisError
from ..algebra import Poly, Rat, alg_equal, AlgebraError
from .. import ndarr
from ..ndarr import Arr, InterpRaise
from ..absint import Interp
from ..libmodels import Models
from ..engine import budget

RULES = {
    'R-LAGRANGE': 'abstract run of fd_weights_all on symbolic distinct nodes x_0..x_{m-1} and a symbolic expansion point: row k, entry v '
                  'equals k! * e_{m-1-k}({x0 - x_u}, u != v) / prod_{u != v}(x_v - x_u), the k-th derivative at x0 of the Lagrange basis '
                  'polynomial of node v (rational function identity), for every ordering hypothesis of the nodes tried',
    'R-ROW': 'fd_weights(x, x0, n) is row n of fd_weights_all(x, x0, n)',
}


def lagrange_weight(xs, c, v, k):
    m = len(xs)
    others = [c - xs[u] for u in range(m) if u != v]
    need = m - 1 - k
    if need < 0:
        return Poly.const(0)
    e = Poly.const(0)
    for comb in itertools.combinations(range(len(others)), need):
        t = Poly.const(1)
        for i in comb:
            t = t * others[i]
        e = e + t
    den = Poly.const(1)
    for u in range(m):
        if u != v:
            den = den * (xs[v] - xs[u])
    return Rat.make(e * math.factorial(k), den)


def run(ctx):
    rep = ctx.rep
    rep.notes['explanation'] = (
        'Conditioning / rounding is NOT decided. Decided: the recursion of _fd_weights_all and its wrappers compute, in exact '
        'arithmetic, exactly the Lagrange-derivative weights: the functions are interpreted abstractly on symbolic nodes (2..4, '
        'thorough 5) for every n < len(x) and the result is compared with the closed form of the definition. Code that compares or '
        'sorts nodes is interpreted under explicit ordering hypotheses (identity, reversed, rotated, interleaved).')
    for rid, text in RULES.items():
        rep.rule(rid, text, {'R-LAGRANGE': 8, 'R-ROW': 3}[rid])
    fb = ctx.repo.module('fornberg')
    where = fb.where(ctx.repo.func('fornberg', '_fd_weights_all')) if '_fd_weights_all' in fb.funcs else fb.relpath
    sizes = (2, 3, 4) if ctx.tier == 'quick' else (2, 3, 4, 5)
    for m in sizes:
        orders = [tuple(range(m)), tuple(reversed(range(m)))]
        if m >= 3:
            orders.append(tuple(list(range(1, m)) + [0]))            # rotation
            orders.append(tuple(sorted(range(m), key=lambda i: (i % 2, i))))   # interleaved
        if ctx.tier == 'quick' and m == 4:
            orders = orders[:3]
        for rank in orders:
            models = Models()
            I = Interp(ctx.repo, models)
            models.bind(I)
            ndarr.ORDER_RANK.clear()
            ndarr.ORDER_RANK.update({'x%d' % k: rank[k] for k in range(m)})
            try:
                fwa = I.get_global('fornberg', 'fd_weights_all')
                fw = I.get_global('fornberg', 'fd_weights')
                xs = [Poly.sym('x%d' % k) for k in range(m)]
                c = Poly.sym('c')
                n = m - 1
                label = 'len(x)=%d/n=%d/order hypothesis=%s' % (m, n, rank)
                with budget(60, 'fd_weights_all m=%d' % m):
                    try:
                        W = fwa(Arr((m,), list(xs)), c, n)
                    except InterpRaise as exc:
                        rep.violation('R-LAGRANGE', 'fornberg.fd_weights_all', where, {'raises': exc.exc_name, 'message': exc.msg[:100]},
                                      'weights for distinct nodes', label, key='raises')
                        continue
                    problems = []
                    if not isinstance(W, Arr) or W.shape != (n + 1, m):
                        problems.append('shape %r, expected %r' % (getattr(W, 'shape', None), (n + 1, m)))
                    else:
                        for k in range(n + 1):
                            for v in range(m):
                                want = lagrange_weight(xs, c, v, k)
                                if not alg_equal(W[k, v], want):
                                    problems.append('row %d node %d: %s' % (k, v, repr(W[k, v])[:80]))
                    rep.check(not problems, 'R-LAGRANGE', 'fornberg._fd_weights_all', where,
                              {'nodes': m, 'rows': n + 1, 'mismatches': problems[:3]},
                              'k-th derivative at x0 of the Lagrange basis polynomials', label, key='lagrange')
                    if rank == orders[0]:
                        for nn in range(m):
                            row = fw(Arr((m,), list(xs)), c, nn)
                            ok = isinstance(row, Arr) and row.shape == (m,) and \
                                all(alg_equal(row[v], lagrange_weight(xs, c, v, nn)) for v in range(m))
                            rep.check(ok, 'R-ROW', 'fornberg.fd_weights', fb.where(ctx.repo.func('fornberg', 'fd_weights')),
                                      {'nodes': m, 'n': nn}, 'row n of the all-orders table', 'len(x)=%d/n=%d' % (m, nn),
                                      key='row')
            except AnalysisError as exc:
                rep.undecided('R-LAGRANGE', 'fornberg.fd_weights_all', exc, 'len(x)=%d/%s' % (m, rank))
            finally:
                ndarr.ORDER_RANK.clear()
    rep.notes['trusted_base'] = ['python ast', 'ndverif abstract interpreter and exact rational-function algebra']
