"""C16 fd_derivative is exact on polynomials at every point of any grid (conditional on C15)."""
from fractions import Fraction as Fr

from ..srcmodel import AnalysisError
from ..algebra import Poly, Z8
from .. import ndarr
from ..ndarr import Arr, InterpRaise
from ..absint import Interp
from ..libmodels import Models
from ..paths import approx_paths, path_text, only_negligible, zero_substitution

RULES = {
    'R-WINDOW': 'abstract run of fd_derivative on a symbolic grid with the calls of fd_weights intercepted: every output du[t] is '
                'dot(fd_weights(x[S], x0=x[t], n), fx[S]) with the same index window S on x and fx, expansion point x[t] and the '
                'requested n; S has at least 2*(n//2 + m) + 1 distinct nodes (so, with exact Lagrange weights - C15 - the result is '
                'exact for polynomials of degree <= 2*(n//2 + m))',
    'R-COVER': 'the output has the length of the input and every grid index is written exactly once',
    'R-EXACT': 'unintercepted abstract run on grids c + s*g_k (g uniform, descending uniform and quadratically stretched; c, s symbolic) '
               'with samples of a polynomial of degree 2*(n//2 + m) whose coefficients are symbols: every du[t] equals the n-th '
               'derivative of that polynomial at x_t (exact rational identity), whatever route fd_weights takes for such a stencil',
}


def run(ctx):
    rep = ctx.rep
    rep.notes['explanation'] = (
        'Conditional on C15 (fd_weights are the exact Lagrange-derivative weights, for any nodes). Decided: the index '
        'arithmetic of fd_derivative - which nodes and which samples enter each output, at which expansion point - for '
        'symbolic grids of several lengths including the minimal one, all n in 1..4 (thorough 6) and m in 1..3 (4), by '
        'abstract interpretation with the fd_weights calls intercepted (views of the grid carry their index sets).')
    rep.assume('C15 holds: fd_weights(x[S], x0, n) are the exact weights of the n-th derivative at x0 on the nodes x[S]')
    for rid, text in RULES.items():
        rep.rule(rid, text, 10 if rid != 'R-EXACT' else 6)
    fb = ctx.repo.module('fornberg')
    fn = ctx.repo.func('fornberg', 'fd_derivative')
    where = fb.where(fn)
    ns = (1, 2, 3, 4) if ctx.tier == 'quick' else (1, 2, 3, 4, 5, 6)
    ms = (1, 2, 3) if ctx.tier == 'quick' else (1, 2, 3, 4)
    for n in ns:
        for m in ms:
            mm = n // 2 + m
            size = 2 * mm + 2
            for N in sorted({size, size + 1, size + 4}):
                one(ctx, where, n, m, N)
    for n, m in ((1, 1), (1, 2), (2, 2), (2, 3), (3, 1)) if ctx.tier == 'quick' else ((1, 1), (1, 2), (2, 2), (2, 3), (3, 1), (1, 3), (1, 4), (2, 1), (4, 2)):
        mm = n // 2 + m
        N = 2 * mm + 4
        for gname, g in (('uniform', [Fr(k) for k in range(N)]), ('uniform descending', [Fr(-k) for k in range(N)]),
                         ('stretched', [Fr(k) + Fr(k * k, 7) for k in range(N)]),
                         # spacing 1 on the first half, 1/2 on the second: neighbouring stencils share all but one spacing
                         ('locally refined', [Fr(k) if k <= N // 2 else Fr(N // 2) + Fr(k - N // 2, 2) for k in range(N)])):
            exact(ctx, where, n, m, g, gname)
            if (n, m) in ((1, 1), (2, 2)) and gname in ('stretched', 'locally refined'):
                exact(ctx, where, n, m, g, gname, warm=True)
    rep.notes['trusted_base'] = ['python ast', 'ndverif abstract interpreter (array views with exact index sets)', 'C15']


def exact(ctx, where, n, m, g, gname, warm=False):
    import math
    from ..algebra import alg_equal
    from ..engine import budget
    rep = ctx.rep
    mm = n // 2 + m
    D = 2 * mm
    label = 'n=%d/m=%d/len(x)=%d/%s grid%s' % (n, m, len(g), gname, ' after other calls in the same process' if warm else '')
    C, S = Poly.sym('c'), Poly.sym('s')
    a = [Poly.sym('a%d' % d) for d in range(D + 1)]
    xs = [C + S * gk for gk in g]
    fx = []
    for gk in g:
        v = Poly.const(0)
        for d in range(D + 1):
            v = v + a[d] * (S * gk) ** d
        fx.append(v)
    ndarr.POSITIVE_ATOMS.add('s')
    try:
        records = []

        def body(oracle):
            models = Models()
            I = Interp(ctx.repo, models, branch_oracle=oracle)
            models.bind(I)
            fdd = I.get_global('fornberg', 'fd_derivative')
            if warm:
                # earlier calls in the same process on the same grid: another order, another accuracy, the reversed grid -
                # nothing they leave behind may reach the judged call
                for n0, m0 in ((n + 1, m), (max(n - 1, 1), m + 1)):
                    if len(g) >= 2 * (n0 // 2 + m0) + 2:
                        fdd(Arr((len(g),), list(fx)), Arr((len(g),), list(xs)), n0, m0)
                fdd(Arr((len(g),), list(fx)[::-1]), Arr((len(g),), list(xs)[::-1]), n, m)
            return fdd(Arr((len(g),), fx), Arr((len(g),), xs), n, m)
        with budget(90, 'fd_derivative exact n=%d m=%d' % (n, m)):
            paths = approx_paths(body, records=records, zero_symbols=('c',))
        label0 = label
        for (decisions, du, exc), rec in zip(paths, records):
            label = label0 + ('' if not decisions else '/' + path_text(decisions))
            zero, rec = zero_substitution(rec)
            if exc is not None:
                rep.violation('R-EXACT', 'fornberg.fd_derivative', where, {'raises': exc.exc_name, 'message': exc.msg[:100]},
                              'the exact derivative', label, key='exact raises')
                continue
            if rec and any(o for _, o in rec) and only_negligible(rec):
                continue          # equality up to rounding: a refinement of the runs where the operands are identical
            bad = []
            if not isinstance(du, Arr) or du.shape != (len(g),):
                bad.append('shape %r' % (getattr(du, 'shape', None),))
            else:
                for t, gk in enumerate(g):
                    want = Poly.const(0)
                    for d in range(n, D + 1):
                        want = want + a[d] * (math.factorial(d) // math.factorial(d - n)) * (S * gk) ** (d - n)
                    got = du[t]
                    if zero:
                        # the code took the side "this quantity is 0" (e.g. x0 == 0): judge it for such inputs
                        got = got.subs(zero) if hasattr(got, 'subs') else got
                        want = want.subs(zero)
                    if isinstance(got, ndarr.Choice):
                        # the value depends on a test on the data (a threshold on the weights, say): every outcome that
                        # some grid realises must be the exact derivative.  Outcomes are realised here by concrete scales
                        # of the grid (s = 1, 10^-20, 10^20; a witness each); an outcome no witness reaches stays undecided
                        hit = None
                        for sval in (Fr(1), Fr(1, 10 ** 20), Fr(10 ** 20), Fr(1, 10 ** 6), Fr(10 ** 6)):
                            r = ndarr.resolve_at(got, {'s': sval, 'c': Fr(0), 'EPS': Fr(1, 2 ** 52)})
                            if r is not None and not isinstance(r[0], ndarr.Choice) and not alg_equal(r[0], want):
                                hit = (sval, r)
                                break
                        if hit is None:
                            raise AnalysisError('du[%d] depends on a test on the data that could not be resolved: %s' % (t, repr(got)[:200]))
                        bad.append('du[%d] = %s for a grid of spacing scale s = %s (tests: %s), exact %s'
                                   % (t, repr(hit[1][0])[:70], hit[0], hit[1][1][:2], repr(want)[:70]))
                        continue
                    if not alg_equal(got, want):
                        bad.append('du[%d] = %s, exact %s' % (t, repr(got)[:70], repr(want)[:70]))
            rep.check(not bad, 'R-EXACT', 'fornberg.fd_derivative', where, {'points': len(g), 'degree': D, 'mismatches': bad[:2]},
                      'the n-th derivative of the sampled polynomial at every grid point', label, key='exact')
    except AnalysisError as exc:
        rep.undecided('R-EXACT', 'fornberg.fd_derivative', exc, label)
    finally:
        ndarr.POSITIVE_ATOMS.discard('s')


def one(ctx, where, n, m, N):
    # tolerance predicates (np.allclose on the grid) are explored on both sides with the grid left symbolic
    holder = {}

    def body(oracle):
        return one_path(ctx, where, n, m, N, oracle, holder)
    from ..libmodels import NeedsOrdering
    from ..engine import budget
    try:
      with budget(60, 'fd_derivative windows n=%d m=%d' % (n, m)):
        try:
            runs = [('', approx_paths(body))]
        except NeedsOrdering:
            # the code orders the grid: the property names increasing and decreasing grids, judge it for both
            runs = []
            for hname, sign in (('increasing grid', 1), ('decreasing grid', -1)):
                ndarr.ORDER_RANK.clear()
                ndarr.ORDER_RANK.update({'x%d' % k: sign * k for k in range(N)})
                try:
                    runs.append(('/' + hname, approx_paths(body)))
                finally:
                    ndarr.ORDER_RANK.clear()
    except AnalysisError as exc:
        ctx.rep.undecided('R-WINDOW', 'fornberg.fd_derivative', exc, 'n=%d/m=%d/len(x)=%d' % (n, m, N))
        return
    rep = ctx.rep
    for hname, paths in runs:
      for decisions, res, exc in paths:
        label = 'n=%d/m=%d/len(x)=%d' % (n, m, N) + hname + ('' if not decisions else '/' + path_text(decisions))
        if exc is not None:
            rep.violation('R-COVER', 'fornberg.fd_derivative', where, {'raises': exc.exc_name, 'message': exc.msg[:100]},
                          'a grid of at least 2*(n//2+m)+2 points is accepted', label, key='raises')
            continue
        judge(ctx, where, n, m, N, label, *res)


def one_path(ctx, where, n, m, N, oracle, holder):
    models = Models()
    I = Interp(ctx.repo, models, branch_oracle=oracle)
    models.bind(I)
    fdd = I.get_global('fornberg', 'fd_derivative')
    fw = I.get_global('fornberg', 'fd_weights')
    fwa = I.get_global('fornberg', 'fd_weights_all')
    x = Arr((N,), [Poly.sym('x%d' % k) for k in range(N)])
    fx = Arr((N,), [Poly.sym('f%d' % k) for k in range(N)])
    calls = []

    def on_call(fn, args, kwargs, node, fr):
        if fn is fw:
            xa = args[0] if args else kwargs.get('x')
            x0 = args[1] if len(args) > 1 else kwargs.get('x0', 0)
            nn = args[2] if len(args) > 2 else kwargs.get('n', 1)
            if not isinstance(xa, Arr):
                raise AnalysisError('fd_weights called with a non array')
            nodes = [repr(v) for v in xa.items()]
            cid = len(calls)
            calls.append({'nodes': nodes, 'x0': repr(x0), 'n': nn})
            return (Arr((len(nodes),), [Poly.sym('w%d_%d' % (cid, k)) for k in range(len(nodes))]),)
        if fn is fwa:
            # the whole table asked for directly: row r holds the weights of the r-th derivative
            xa = args[0] if args else kwargs.get('x')
            x0 = args[1] if len(args) > 1 else kwargs.get('x0', 0)
            nn = args[2] if len(args) > 2 else kwargs.get('n', 1)
            if not isinstance(xa, Arr) or not isinstance(nn, int) or isinstance(nn, bool):
                raise AnalysisError('fd_weights_all called with %r, n=%r' % (type(xa).__name__, nn))
            nodes = [repr(v) for v in xa.items()]
            cid = len(calls)
            calls.append({'nodes': nodes, 'x0': repr(x0), 'n': 'row'})
            return (Arr((nn + 1, len(nodes)), [Poly.sym('w%dr%d_%d' % (cid, r, k)) for r in range(nn + 1) for k in range(len(nodes))]),)
        return None
    I.on_call = on_call
    try:
        du = fdd(fx, x, n, m)
    finally:
        I.on_call = None
    return du, calls


def judge(ctx, where, n, m, N, label, du, calls):
    rep = ctx.rep
    mm = n // 2 + m
    ok_len = isinstance(du, Arr) and du.shape == (N,)
    unwritten = [t for t in range(N) if ok_len and ndarr.concrete_real(du[t]) == 0] if ok_len else []
    rep.check(ok_len and not unwritten, 'R-COVER', 'fornberg.fd_derivative', where,
              {'output_shape': list(getattr(du, 'shape', ())), 'indices_never_written': unwritten[:5]},
              'len(du) == len(x) and every index written', label, key='cover')
    if not ok_len:
        return
    problems = []
    for t in range(N):
        v = du[t]
        if not isinstance(v, Poly):
            problems.append('du[%d] = %r' % (t, v))
            continue
        # v must be sum_k w{cid}_k * f{S[k]}
        cid = None
        pairs = {}
        rows = set()
        bad = False
        for mono, c in v.t.items():
            d = dict(mono)
            ws = [s for s in d if s.startswith('w') and '_' in s]
            fs = [s for s in d if s.startswith('f') and s[1:].isdigit()]
            if len(ws) != 1 or len(fs) != 1 or len(d) != 2 or d[ws[0]] != 1 or d[fs[0]] != 1 or c != Z8.ONE:
                bad = True
                break
            ci, k = ws[0][1:].split('_')
            if 'r' in ci:
                ci, row = ci.split('r')
                rows.add(int(row))
            if cid is None:
                cid = int(ci)
            if int(ci) != cid:
                bad = True
                break
            pairs[int(k)] = int(fs[0][1:])
        if bad or cid is None:
            problems.append('du[%d] is not one set of weights applied to samples: %s' % (t, repr(v)[:100]))
            continue
        call = calls[cid]
        nodes = call['nodes']
        if call['x0'] != 'x%d' % t:
            problems.append('du[%d]: weights expanded about %s instead of x%d' % (t, call['x0'], t))
        order_used = call['n'] if call['n'] != 'row' else (rows.pop() if len(rows) == 1 else sorted(rows))
        if order_used != n:
            problems.append('du[%d]: weights of derivative order %r instead of %d' % (t, order_used, n))
        if len(set(nodes)) != len(nodes) or len(nodes) < 2 * mm + 1:
            problems.append('du[%d]: %d distinct nodes, need >= %d' % (t, len(set(nodes)), 2 * mm + 1))
        if sorted(pairs) != list(range(len(nodes))):
            problems.append('du[%d]: %d of the %d weights are used' % (t, len(pairs), len(nodes)))
        else:
            mis = [k for k in range(len(nodes)) if nodes[k] != 'x%d' % pairs[k]]
            if mis:
                problems.append('du[%d]: weight of node %s multiplies sample f%d' % (t, nodes[mis[0]], pairs[mis[0]]))
    rep.check(not problems, 'R-WINDOW', 'fornberg.fd_derivative', where,
              {'outputs': N, 'fd_weights_calls': len(calls), 'min_nodes_required': 2 * mm + 1,
               'window_sizes': sorted({len(c['nodes']) for c in calls}), 'problems': problems[:3]},
              'same window on x and fx, expansion at x[t], enough nodes', label, key='window')
