"""C17 FFT Taylor coefficients (structural clauses: dtype flow, state reset, failed flag, factorial scaling)."""
import ast
import collections
from fractions import Fraction as Fr

from ..srcmodel import AnalysisError
from ..algebra import Poly
from .. import ndarr
from ..ndarr import Arr, Unk, InterpRaise
from ..absint import Interp, Obj, BoundMethod
from ..libmodels import Models
from ..dv import DV, tags_of
from ..dvrun import explore, DVSession

RULES = {
    'R-KIND': 'the FFT output (always complex) flows through richardson / dea3 / _Limit._get_best_estimate without reaching a kernel '
              'that rejects complex input: no TypeError on any path of an abstract run of Taylor.__call__, and the returned '
              'coefficients are those complex values (no projection to a real part, which for complex z0 / complex valued f drops '
              'information)',
    'R-RESET': 'every attribute written while Taylor.__call__ runs (radius-search state machine) is written again before it is read in '
               'the next call of the same object (whichever method does it): a call does not depend on a previous call',
    'R-FAILED': 'on every explored path `failed` is exactly "the loop ended without the convergence test succeeding" (iteration cap '
                'reached), and `degenerate` is the flag of the state machine',
    'R-SELFCHECK': 'the interior self check of the radius search compares f(z0 + r*c) with the power series sum_k b_k c^k of the '
                   'coefficients just computed, for complex b_k, z0 and f (no conjugation, the same check point on both sides): a test '
                   'that is wrong for complex data shrinks the radius on every iteration and ends degenerate',
    'R-EXTRAPOLATE': 'the two-level Richardson step over the circles: for coefficient estimates b(r_i) = a + B r_i^m + C r_i^2m (the '
                     'aliasing terms of the FFT) on symbolic radii, _extrapolate returns one estimate per consecutive triple of circles '
                     '(len(rs) - 2 rows, the newest circle included) and every row equals a exactly',
    'R-FACTORIAL': 'derivative() multiplies the coefficients and their error estimates by the same k!, k = 0..m-1 with m computed from '
                   'the same n, and forwards the other status fields unchanged; without full_output it returns coefficients * k!',
}


def make_f(s, circles=None):
    """the user function; `circles` collects, for every evaluation on a whole circle (an array of points), the record of the
    innermost `for` loop of the analysed code that was running - the radius search loop, whatever it is called"""
    def f(z, *a, **k):
        def one(v):
            return DV(tags_of(v) | {('f',)}, 'c')
        if circles is not None and isinstance(z, Arr) and z.size > 1:
            loops = s.interp.loop_stack
            circles.append(loops[-1] if loops else None)
        return ndarr.ew1(one, z) if isinstance(z, Arr) else one(z)
    return f


def run(ctx):
    rep = ctx.rep
    rep.notes['explanation'] = (
        'Accuracy within the error estimate, the degeneracy promises and the radius search quality are NOT decided, and '
        '_num_taylor_coefficients(n) >= n + 1 is not decided either (its value depends on the last ulp of np.log2 for n - 1 = 3*2^k). '
        'Decided by abstract runs of Taylor.__call__ in the data-abstract domain with every outcome of the convergence tests '
        'explored (iteration cap 4): dtype-kind flow of the complex FFT data, completeness of the per-call state reset, the '
        'meaning of the failed flag; and, in exact algebra, the factorial scaling of derivative().')
    for rid, text in RULES.items():
        rep.rule(rid, text, {'R-KIND': 2, 'R-RESET': 1, 'R-FAILED': 2, 'R-SELFCHECK': 3, 'R-EXTRAPOLATE': 2, 'R-FACTORIAL': 2}[rid])
    fb = ctx.repo.module('fornberg')
    taylor_runs(ctx, fb)
    selfcheck(ctx, fb)
    extrapolate(ctx, fb)
    factorial(ctx, fb)
    rep.notes['trusted_base'] = ['python ast', 'ndverif abstract interpreter and numpy summaries (np.fft.fft returns complex)']


def taylor_runs(ctx, fb):
    rep = ctx.rep
    ci = fb.classes.get('Taylor')
    if ci is None:
        raise AnalysisError('anchor vanished: fornberg.Taylor')
    where = fb.where(ci.node)
    for n, max_iter, num_extrap in ((1, 4, 1), (6, 5, 3)) if ctx.tier == 'quick' else ((1, 4, 1), (6, 5, 3), (12, 6, 2)):
        written = []
        records = []
        stale = []

        def body(s, n=n, max_iter=max_iter, num_extrap=num_extrap):
            I = s.interp
            T = I.get_global('fornberg', 'Taylor')
            circles = []
            obj = T(make_f(s, circles), n=n, max_iter=max_iter, num_extrap=num_extrap, full_output=True)
            log, rets = [], []
            I.loop_log = []
            I.on_setattr = lambda o, a, v: log.append((a, I.stack[-1] if I.stack else '?')) if o is obj else None
            try:
                coefs, info = obj(DV({('z0',)}, 'f', sel={('z0',)}))
            finally:
                I.on_setattr = None
            # a second call on the same object: the reset must be complete on *every* call, not only the first.  What is state:
            # every attribute the first call wrote.  What is a complete reset: in the second call each of them is written
            # before it is read (whichever method does the writing).
            state = {a for a, _ in log}
            del log[:]
            del circles[:]
            I.loop_log = []
            events = []
            I.on_setattr = lambda o, a, v: (log.append((a, I.stack[-1] if I.stack else '?')), events.append(('w', a))) if o is obj else None
            I.on_getattr = lambda o, a: events.append(('r', a)) if o is obj else None
            try:
                coefs, info = obj(DV({('z0',)}, 'f', sel={('z0',)}))
            finally:
                I.on_setattr = None
                I.on_getattr = None
                I.loop_log = None
            # the radius search loop: the `for` loop inside which the circles are evaluated; the cap was reached iff it ran out
            search = [c for c in circles if c is not None]
            if not search or any(c is not search[0] for c in search) or len(search) != len(circles):
                raise AnalysisError('anchor vanished: the circle evaluations of Taylor.__call__ are not made inside one for-loop')
            rets = {'iterations': search[0]['iterations'], 'exit': search[0]['exit'], 'circles': len(circles)}
            first = {}
            for kind, a in events:
                first.setdefault(a, kind)
            stale.append(sorted(a for a in state if first.get(a) == 'r'))
            written.append(log)
            records.append((rets, info))
            return coefs, info, rets
        ex = explore(ctx.repo, body, max_paths=400)
        label = 'Taylor(n=%d, max_iter=%d, num_extrap=%d)' % (n, max_iter, num_extrap)
        bad_kind, bad_failed = [], []
        for decisions, res, exc in ex.paths:
            path = ', '.join('%s=%s' % (d[1][:22], d[0]) for d in decisions)
            if exc is not None:
                bad_kind.append({'raises': exc.exc_name, 'message': exc.msg[:90], 'path': path[:200]})
                continue
            coefs, info, rets = res
            # (a numpy array has one dtype: complex as soon as one element is)
            elems = coefs.items() if isinstance(coefs, Arr) else [coefs]
            lost = sorted({getattr(v, 'note', None) or 'kind %s' % getattr(v, 'kind', '?') for v in elems
                           if not (isinstance(v, DV) and v.kind in ('c', 'z'))})
            if lost and not any(isinstance(v, DV) and v.kind in ('c', 'z') for v in elems):
                bad_kind.append({'coefficients_not_complex': lost[:2], 'path': path[:200]})
            want_failed = rets['exit'] == 'exhausted'
            if info.failed is not want_failed and info.failed != want_failed:
                bad_failed.append({'failed': repr(info.failed), 'search_loop': rets, 'path': path[:160]})
            if want_failed and rets['iterations'] != max_iter:
                bad_failed.append({'loop_iterations': rets['iterations'], 'max_iter': max_iter, 'path': path[:160]})
            if rets['circles'] != rets['iterations']:
                bad_failed.append({'circles_evaluated': rets['circles'], 'loop_iterations': rets['iterations'], 'path': path[:160]})
        rep.check(not bad_kind, 'R-KIND', 'fornberg.Taylor.__call__', where, {'paths': len(ex.paths), 'exceptions': bad_kind[:2]},
                  'no exception on any path', label, key='kind taylor')
        rep.check(not bad_failed, 'R-FAILED', 'fornberg.Taylor.__call__', where, {'paths': len(ex.paths), 'problems': bad_failed[:2]},
                  'failed exactly when the radius search loop ran out of iterations (max_iter of them), one circle per iteration', label, key='failed')
        # reset completeness
        not_reset = sorted({a for lst in stale for a in lst})
        rep.check(written and not not_reset, 'R-RESET', 'fornberg.Taylor.__call__', where,
                  {'state_written_by_a_call': sorted({a for log in written for a, _ in log}), 'read_before_written_in_the_next_call': not_reset},
                  'every attribute a call writes is written again before it is read in the next call', label, key='reset')


def selfcheck(ctx, fb):
    """_poor_convergence in exact algebra: what is compared with what."""
    from .. import algebra
    from ..algebra import alg_equal
    rep = ctx.rep
    if '_poor_convergence' not in fb.funcs:
        raise AnalysisError('anchor vanished: fornberg._poor_convergence')
    where = fb.where(ctx.repo.func('fornberg', '_poor_convergence'))
    m = 4
    names = ['b%d' % k for k in range(m)] + ['z0']
    algebra.COMPLEX_ATOMS.update(names)
    try:
        seen_abs, fcalls = [], []

        def hook(name, x):
            if name in ('abs', 'absolute'):
                seen_abs.append(x)
                nm = 'ABS%d' % len(seen_abs)
                ndarr.POSITIVE_ATOMS.add(nm)
                return Poly.sym(nm)
            return NotImplemented
        models = Models(hooks={'ufunc': hook})
        I = Interp(ctx.repo, models, branch_oracle=lambda i, node, fr, v: False)
        models.bind(I)

        def f(zt, *a, **k):
            fcalls.append(zt)
            nm = 'F%d' % len(fcalls)
            algebra.COMPLEX_ATOMS.add(nm)
            return Poly.sym(nm)
        bn = Arr((m,), [Poly.sym('b%d' % k) for k in range(m)])
        z0, r = Poly.sym('z0'), Poly.sym('r')
        ndarr.POSITIVE_ATOMS.add('r')
        I.get_global('fornberg', '_poor_convergence')(z0, r, f, bn, Arr((m,), list(range(m)), kind='i'))
        diffs = [v for v in seen_abs if isinstance(v, (Poly,)) and any(a.startswith('F') for a in v.atoms())
                 and any(a.startswith('b') or a.startswith('cj:b') for a in v.atoms())]
        rep.check(len(fcalls) >= 1 and len(diffs) == len(fcalls), 'R-SELFCHECK', 'fornberg._poor_convergence', where,
                  {'f_evaluations': len(fcalls), 'differences_compared': len(diffs)},
                  'one difference series - f per check point', 'structure', key='selfcheck structure')
        for i, (zt, d) in enumerate(zip(fcalls, diffs)):
            cpt = (Poly.of(zt) - z0) / r                 # the check point actually used for f
            problems = []
            if not (isinstance(cpt, Poly) and cpt.is_const()):
                problems.append('f is evaluated at %r, not at z0 + r * (a constant check point)' % (zt,))
            else:
                series = Poly.const(0)
                for k in range(m):
                    series = series + Poly.sym('b%d' % k) * cpt ** k
                want = series - Poly.sym('F%d' % (i + 1))
                if not (alg_equal(d, want) or alg_equal(d, -want)):
                    problems.append('compared quantity %s is not sum_k b_k c^k - f(z0 + r c) for c = %r' % (repr(d)[:120], cpt))
            rep.check(not problems, 'R-SELFCHECK', 'fornberg._poor_convergence', where, {'problems': problems[:2]},
                      'series of the computed coefficients at the check point minus f there', 'check point %d' % i,
                      key='selfcheck series')
    except InterpRaise as exc:
        rep.violation('R-SELFCHECK', 'fornberg._poor_convergence', where, {'raises': exc.exc_name, 'message': exc.msg[:100]},
                      'the test is evaluated', 'complex data', key='selfcheck raises')
    finally:
        for nm in list(algebra.COMPLEX_ATOMS):
            if nm in names or nm.startswith('F'):
                algebra.COMPLEX_ATOMS.discard(nm)
        ndarr.POSITIVE_ATOMS.discard('r')


def extrapolate(ctx, fb):
    from ..algebra import alg_equal
    rep = ctx.rep
    if '_extrapolate' not in fb.funcs:
        raise AnalysisError('anchor vanished: fornberg._extrapolate')
    where = fb.where(ctx.repo.func('fornberg', '_extrapolate'))
    for nk, m in ((3, 2), (5, 2), (6, 3)) if ctx.tier == 'quick' else ((3, 2), (4, 2), (5, 2), (6, 3), (7, 4)):
        label = '%d circles, m=%d' % (nk, m)
        models = Models()
        I = Interp(ctx.repo, models)
        models.bind(I)
        rs = [Poly.sym('r%d' % i) for i in range(nk)]
        ndarr.POSITIVE_ATOMS.update('r%d' % i for i in range(nk))
        A, B, C = Poly.sym('a'), Poly.sym('B'), Poly.sym('C')
        bs = [Arr((2,), [A + B * r ** m + C * r ** (2 * m), A * 2 + B * 3 * r ** m - C * r ** (2 * m)]) for r in rs]
        try:
            out = I.get_global('fornberg', '_extrapolate')(list(bs), list(rs), m)
            rows = list(out) if isinstance(out, (list, tuple)) else ([out[i] for i in range(out.shape[0])] if isinstance(out, Arr) else None)
            problems = []
            if rows is None:
                problems.append('result is %r' % (out,))
            else:
                if len(rows) != nk - 2:
                    problems.append('%d rows for %d circles, expected %d (one per consecutive triple)' % (len(rows), nk, nk - 2))
                for j, row in enumerate(rows):
                    vals = row.items() if isinstance(row, Arr) else [row]
                    if len(vals) != 2 or not alg_equal(vals[0], A) or not alg_equal(vals[1], A * 2):
                        problems.append('row %d is %s, not the limit' % (j, repr(vals[0])[:100]))
                        break
            rep.check(not problems, 'R-EXTRAPOLATE', 'fornberg._extrapolate', where, {'problems': problems[:2]},
                      'len(rs) - 2 rows, each free of the r^m and r^2m terms', label, key='extrapolate')
        except InterpRaise as exc:
            rep.violation('R-EXTRAPOLATE', 'fornberg._extrapolate', where, {'raises': exc.exc_name, 'message': exc.msg[:100]},
                          'rows', label, key='extrapolate raises')
        except AnalysisError as exc:
            rep.undecided('R-EXTRAPOLATE', 'fornberg._extrapolate', exc, label)
        finally:
            for i in range(nk):
                ndarr.POSITIVE_ATOMS.discard('r%d' % i)


def factorial(ctx, fb):
    rep = ctx.rep
    models = Models()
    I = Interp(ctx.repo, models)
    models.bind(I)
    deriv = I.get_global('fornberg', 'derivative')
    tay = I.get_global('fornberg', 'taylor')
    ntc = I.get_global('fornberg', '_num_taylor_coefficients')
    INFO = I.get_global('fornberg', '_INFO')
    import math
    for full_output, m, nreq in ((True, 8, 6), (False, 8, 6), (True, 32, 25)):
        seen = {}

        def on_call(fn, args, kwargs, node, fr, full_output=full_output):
            if fn is tay:
                seen['taylor'] = (args, kwargs)
                coefs = Arr((m,), [Poly.sym('c%d' % k) for k in range(m)])
                if kwargs.get('full_output'):
                    info = INFO(Arr((m,), [Poly.sym('e%d' % k) for k in range(m)]), 'DEGEN', final_radius='R',
                                function_count='FC', iterations='IT', failed='FAILED')
                    return ((coefs, info),)
                return (coefs,)
            if fn is ntc:
                seen['ntc'] = args
                return (m,)
            return None
        I.on_call = on_call
        try:
            kw = {'full_output': True} if full_output else {}
            out = deriv('FUN', Poly.sym('z0'), nreq, **kw)
        finally:
            I.on_call = None
        problems = []
        if tuple(seen.get('ntc') or ()) != (nreq,):
            problems.append('number of coefficients computed from %r instead of n' % (seen.get('ntc'),))
        targs = seen.get('taylor')
        if not targs or tuple(targs[0][:2]) != ('FUN', Poly.sym('z0')) or targs[1].get('n', targs[0][2] if len(targs[0]) > 2 else None) != nreq:
            problems.append('taylor not called with (fun, z0, n): %r' % (targs,))
        coefs = out[0] if full_output else out
        if not isinstance(coefs, Arr) or coefs.shape != (m,) or \
                any(not (Poly.of(coefs[k]) - Poly.sym('c%d' % k) * math.factorial(k)).is_zero() for k in range(m)):
            problems.append('coefficients are not c_k * k!')
        if full_output:
            info = out[1]
            err = info.error_estimate
            if not isinstance(err, Arr) or any(not (Poly.of(err[k]) - Poly.sym('e%d' % k) * math.factorial(k)).is_zero() for k in range(m)):
                problems.append('error estimates are not e_k * k!')
            if (info.degenerate, info.final_radius, info.function_count, info.iterations, info.failed) != ('DEGEN', 'R', 'FC', 'IT', 'FAILED'):
                problems.append('status fields changed: %r' % (tuple(info)[1:],))
        rep.check(not problems, 'R-FACTORIAL', 'fornberg.derivative', fb.where(ctx.repo.func('fornberg', 'derivative')),
                  {'problems': problems[:3]}, 'values and error estimates scaled by the same k!', 'full_output=%s/n=%d (%d coefficients)' % (full_output, nreq, m),
                  key='factorial')
