"""C18 Limit and Residue recover removable singularities and poles (structural clauses)."""
import ast
from fractions import Fraction as Fr

from ..srcmodel import AnalysisError
from ..algebra import Poly, Z8
from .. import ndarr
from ..ndarr import Arr, Unk, InterpRaise
from ..absint import Interp
from ..libmodels import Models
from ..stencil import FV
from ..pipeline import ASSUMED_POSITIVE
from ..dv import DV, tags_of, IdxAny, NONZERO_STEPS, is_nonzero_step_test
from ..dvrun import explore, DVSession

RULES = {
    'R-NANMASK': 'Limit.__call__: wherever f itself is finite at the requested point the returned value is f\'s own value, unchanged '
                 '(the very same abstract value); only NaN entries are replaced, each by a limit that depends on its own element only; '
                 'the result has the shape of the input',
    'R-SIGN': 'method above / forward approaches from z0 + h, below / backward from z0 - h, for every generated step h; the function '
              'is evaluated at z0 + d_z with the call arguments forwarded',
    'R-RESIDUE': 'Residue evaluates f(z0 + d_z) * d_z**pole_order with the same d_z as the evaluation point, for pole orders 1, 2, 3, '
                 'from above and below; default order = pole_order + 2; Residue.__call__ extrapolates at every point (no NaN masking)',
    'R-TERMS': 'the Richardson stage of a limit uses the step ratio of the step generator, unit spacing and leading order 1',
    'R-KIND': 'complex z0, complex steps (spiral path) and complex valued f: no real-only kernel receives complex data on any path',
}


class NaNV(object):
    """A value that is NaN (f is singular there)."""
    is_elem_ = True

    def isnan_(self):
        return True

    def kind_(self):
        return 'f'

    def __repr__(self):
        return 'NaN'

    def _b(self, *a):
        return self
    __add__ = __radd__ = __sub__ = __rsub__ = __mul__ = __rmul__ = __truediv__ = __rtruediv__ = __neg__ = _b
    abs_ = real_ = imag_ = _b


def run(ctx):
    rep = ctx.rep
    rep.notes['explanation'] = (
        'Accuracy of the limit is NOT decided. Decided: the NaN-masking of Limit.__call__ (finite values returned unchanged), '
        'direction of approach and evaluation points, the Residue multiplier, the Richardson parameters of the limit, '
        'and the dtype-kind flow for complex points / paths / values.')
    for rid, text in RULES.items():
        rep.rule(rid, text, {'R-NANMASK': 4, 'R-SIGN': 8, 'R-RESIDUE': 8, 'R-TERMS': 2, 'R-KIND': 6}[rid])
    lim = ctx.repo.module('limits')
    nanmask(ctx, lim)
    points(ctx, lim)
    kinds(ctx, lim)
    rep.notes['trusted_base'] = ['python ast', 'ndverif abstract interpreter, data-abstract and exact-algebra domains']


def nanmask(ctx, lim):
    rep = ctx.rep
    for shape, nan_at, full_output in (((4,), {1, 3}, False), ((4,), {0}, True), ((2, 2), {2}, False), ((3,), set(), False),
                                       ((), {0}, False), ((2,), {0, 1}, True), ('T(3, 2)', {1, 4}, False), ('T(2, 2)', {2}, True)):
        transposed = isinstance(shape, str)
        if transposed:
            base_shape = tuple(int(v) for v in shape[2:-1].split(','))[::-1]
            shape = base_shape[::-1]
        n = 1
        for s in shape:
            n *= s
        holder = {}

        def body(s, shape=shape, nan_at=nan_at, full_output=full_output, n=n, transposed=transposed,
                 base_shape=base_shape if transposed else None):
            I = s.interp
            L = I.get_global('limits', 'Limit')
            finite = {}

            def f(z, *a, **k):
                def one(c, v):
                    if getattr(v, 'sel', None) == frozenset({('x', c)}):
                        if c in nan_at:
                            return NaNV()
                        finite.setdefault(c, DV({('x', c)}, 'f', note='finite f(z0)'))
                        return finite[c]
                    return DV(tags_of(v), 'f')
                if isinstance(z, Arr):
                    items = z.items()
                    # the limit is taken on the sub-array of singular points: identify elements by their tags
                    out = []
                    for v in items:
                        cs = [t[1] for t in tags_of(v) if t[0] == 'x']
                        out.append(one(cs[0] if len(cs) == 1 else -1, v))
                    res = Arr(z.shape, out)
                    res.memrank = z.mem_rank()        # an elementwise function keeps the memory layout of its argument
                    return res
                cs = [t[1] for t in tags_of(z) if t[0] == 'x']
                return one(cs[0] if len(cs) == 1 else -1, z)
            holder['finite'] = finite
            d = L(f, full_output=full_output, num_steps=9)
            if transposed:
                x = s.x_array(base_shape).transpose()          # a Fortran ordered view; identities follow logical positions
                for c, p in enumerate(x.pos):
                    x.buf.data[p] = DV({('x', c)}, 'f', 'any', sel={('x', c)})
                return d(x)
            return d(s.x_array(shape))
        # isnan on the finite DV values must be decidable: they are finite by construction
        orig = DV.isnan_
        DV.isnan_ = lambda self: False if self.note == 'finite f(z0)' else orig(self)
        try:
            runs = explore_orderings(ctx, body)
        finally:
            DV.isnan_ = orig
        label0 = 'Limit/z.shape=%s%s/singular at %s/full_output=%s' % (shape, ' (transposed view)' if transposed else '', sorted(nan_at), full_output)
        for hname, ex in runs:
          label = label0 + hname
          for decisions, res, exc in ex.paths:
            path = ', '.join('%s=%s' % (d[1][:30], d[0]) for d in decisions) or 'straight'
            if exc is not None:
                rep.violation('R-NANMASK', 'limits.Limit.__call__', lim.relpath, {'raises': exc.exc_name, 'message': exc.msg[:100], 'path': path},
                              'no exception', label, key='nanmask raises')
                continue
            val = res[0] if full_output else res
            vshape = val.shape if isinstance(val, Arr) else ()
            items = val.items() if isinstance(val, Arr) else [val]
            problems = []
            if vshape != tuple(shape) and not (shape == () and vshape in ((), (1,))):
                problems.append('shape %s for input shape %s' % (vshape, shape))
            elif len(items) == n:
                for c, e in enumerate(items):
                    if c in nan_at:
                        if isinstance(e, NaNV):
                            problems.append('element %d: singular value not replaced' % c)
                        elif [t for t in tags_of(e) if t[0] == 'x' and t[1] != c]:
                            problems.append('element %d: limit depends on other elements %s' % (c, sorted(tags_of(e))))
                        elif ('x', c) not in tags_of(e):
                            problems.append('element %d: the value returned at the singular point does not depend on the function '
                                            'near that point (%r)' % (c, e))
                    else:
                        if not (isinstance(e, DV) and e.note == 'finite f(z0)' and tags_of(e) == frozenset({('x', c)})):
                            problems.append('element %d: finite value of f was not returned unchanged (%r)' % (c, e))
            rep.check(not problems, 'R-NANMASK', 'limits.Limit.__call__', lim.relpath, {'problems': problems[:3], 'path': path},
                      'finite values unchanged, singular ones replaced elementwise', label, key='nanmask')


def explore_orderings(ctx, body):
    """[(label suffix, Explorer)]: one exploration - or, when the code orders the points of the array (np.sort, np.unique, ..),
    one for points given in ascending and one for points given in descending order (an ordering hypothesis on the
    otherwise unordered abstract elements: the property holds for arrays in any order)"""
    from ..libmodels import NeedsOrdering
    try:
        return [('', explore(ctx.repo, body, pinned=NONZERO_STEPS))]
    except NeedsOrdering:
        runs = []

        def rank(v, sign):
            cs = [t[1] for t in tags_of(v) if t[0] == 'x'] if getattr(v, 'sel', None) else []
            return sign * cs[0] if len(cs) == 1 else None
        for hname, sign in (('ascending points', 1), ('descending points', -1)):
            ndarr.ELEMENT_RANK = lambda v, sign=sign: rank(v, sign)
            try:
                runs.append(('/' + hname, explore(ctx.repo, body, pinned=NONZERO_STEPS)))
            finally:
                ndarr.ELEMENT_RANK = None
        return runs


def make_exact(repo):
    models = Models()
    I = Interp(repo, models, branch_oracle=lambda i, node, fr, v: True if is_nonzero_step_test(i, node, fr, v) else None)
    models.bind(I)
    ndarr.POSITIVE_ATOMS.clear()
    ndarr.POSITIVE_ATOMS.update(ASSUMED_POSITIVE)
    return I, models


def points(ctx, lim):
    """Evaluation points, direction, Residue multiplier, Richardson parameters (exact algebra, _extrapolate cut off)."""
    rep = ctx.rep
    for cls in ('Limit', 'Residue'):
        for method in ('above', 'below', 'forward', 'backward'):
            for pole in ((None,) if cls == 'Limit' else (1, 2, 3)):
                I, models = make_exact(ctx.repo)
                C = I.get_global('limits', cls)
                CS = I.get_global('limits', 'CStepGenerator')
                gen = CS(base_step=Poly.sym('h'), step_ratio=Poly.sym('r'), num_steps=4, step_nom=1)
                z0 = Poly.sym('z0')
                seen = []

                def fun(z, *a, **k):
                    if isinstance(z, Arr) and z.size == 1:
                        z = z.item()
                    seen.append((z, a, k))
                    off = Poly.of(z) - z0
                    return FV.atom((off,), 'A')
                kw = dict(step=gen, method=method)
                if pole is not None:
                    kw['pole_order'] = pole
                obj = C(fun, **kw)
                captured = {}

                def on_call(fn, args, kwargs, node, fr, obj=obj):
                    # the hand-over to the extrapolation stage, recognised by what is handed over (the sequence of function
                    # values as a table, the steps, the shape of the point) and not by the name of the method
                    from ..absint import BoundMethod, Closure
                    if isinstance(fn, (BoundMethod, Closure)) and len(args) == 3 and not kwargs and isinstance(args[0], Arr) \
                            and isinstance(args[1], Arr) and isinstance(args[2], tuple) \
                            and any(isinstance(v, FV) for v in args[0].items()):
                        captured['results'] = args
                        return ((Poly.sym('LIMIT'), 'INFO'),)
                    return None
                I.on_call = on_call
                label = '%s/%s%s' % (cls, method, '' if pole is None else '/pole_order=%d' % pole)
                try:
                    out = I.getattr(obj, 'limit')(z0, Poly.sym('arg0'), p=Poly.sym('kwp'))
                except InterpRaise as exc:
                    rep.violation('R-SIGN', 'limits.%s._lim' % cls, lim.relpath, {'raises': exc.exc_name, 'message': exc.msg[:100]},
                                  'the limit is set up', label, key='points raises')
                    continue
                finally:
                    I.on_call = None
                sign = 1 if method in ('above', 'forward') else -1
                problems = []
                offs = [Poly.of(z) - z0 for z, a, k in seen]
                want = [Poly.sym('h') * Poly.sym('r') ** e * sign for e in (3, 2, 1, 0)]
                if len(offs) != 4 or any(not (o - w).is_zero() for o, w in zip(offs, want)):
                    problems.append('evaluation offsets %s, expected %s' % ([repr(o) for o in offs], [repr(w) for w in want]))
                if any(a != (Poly.sym('arg0'),) or k != {'p': Poly.sym('kwp')} for z, a, k in seen):
                    problems.append('call arguments are not forwarded to the function')
                rep.check(not problems, 'R-SIGN', 'limits.%s._lim' % cls, lim.relpath,
                          {'offsets': [repr(o) for o in offs], 'problems': problems[:2]},
                          'z0 %s h for every generated step' % ('+' if sign > 0 else '-'), label, key='sign %s' % cls)
                if 'results' in captured and cls == 'Residue':
                    seq = captured['results'][0]
                    vals = seq.ravel().items() if isinstance(seq, Arr) else list(seq)
                    bad = []
                    for v, o in zip(vals, offs):
                        expect = FV.atom((o,), 'A') * (o ** pole)
                        if repr(v) != repr(expect):
                            bad.append('value %r, expected f(z0 + d)*d**%d with d = %r' % (v, pole, o))
                    rep.check(not bad and len(vals) == len(offs), 'R-RESIDUE', 'limits.Residue._fun', lim.relpath,
                              {'sequence': [repr(v)[:80] for v in vals][:2], 'problems': bad[:2]},
                              'f(z0 + d_z) * d_z**pole_order with one and the same d_z', label, key='residue multiplier')
                if cls == 'Residue' and method == 'above':
                    order = I.getattr(obj, 'order')
                    rep.check(order == pole + 2, 'R-RESIDUE', 'limits.Residue.__init__', lim.relpath,
                              {'pole_order': pole, 'default_order': order}, 'order = pole_order + 2', label, key='residue order')
                # the same object used again at another point with other arguments: the points are around the new z0, the
                # new arguments are forwarded (nothing remembered from the first call)
                if pole in (None, 2):
                    z1 = Poly.sym('z1')
                    del seen[:]
                    I.on_call = on_call
                    try:
                        I.getattr(obj, 'limit')(z1, Poly.sym('arg1'), p=Poly.sym('kwq'))
                        offs2 = [Poly.of(z) - z1 for z, a, k in seen]
                        problems2 = []
                        if len(offs2) != 4 or any(not (o - w).is_zero() for o, w in zip(offs2, want)):
                            problems2.append('evaluation offsets from the new point %s, expected %s' % ([repr(o)[:40] for o in offs2], [repr(w) for w in want]))
                        if any(a != (Poly.sym('arg1'),) or k != {'p': Poly.sym('kwq')} for z, a, k in seen):
                            problems2.append('the arguments of the second call are not the ones forwarded')
                    except InterpRaise as exc:
                        problems2 = ['raises %s: %s' % (exc.exc_name, exc.msg[:80])]
                    finally:
                        I.on_call = None
                    rep.check(not problems2, 'R-SIGN', 'limits.%s._lim' % cls, lim.relpath, {'problems': problems2[:2]},
                              'a second call evaluates around its own point with its own arguments', label + '/second call at another point',
                              key='sign %s' % cls)
                if method == 'above' and pole in (None, 1):
                    rich = obj.attrs.get('richardson')
                    ok = rich is not None and repr(I.getattr(rich, 'step_ratio')) == repr(I.getattr(gen, 'step_ratio')) and \
                        I.getattr(rich, 'step') == 1 and I.getattr(rich, 'order') == 1
                    rep.check(ok, 'R-TERMS', 'limits.Limit._lim', lim.relpath,
                              {k: repr(rich.attrs.get(k)) for k in ('step_ratio', 'step', 'order', 'num_terms')} if rich else {},
                              'Richardson(step_ratio = generator ratio, step = 1, order = 1)', label, key='terms')
    # Residue.__call__ is the limit at every point (no NaN masking: the product is finite or NaN at the pole itself)
    I, models = make_exact(ctx.repo)
    R = I.get_global('limits', 'Residue')
    obj = R(lambda z: z)
    called = []
    I.on_call = lambda fn, args, kwargs, node, fr: ((called.append(getattr(getattr(fn, 'func', None), 'name', '')) or None)
                                                   if getattr(getattr(fn, 'func', None), 'name', '') == 'limit' else None)
    got = []
    orig_limit = I.getattr(obj, 'limit')
    obj.attrs['limit'] = lambda *a, **k: got.append((a, k)) or 'LIMIT'
    try:
        out = obj(Poly.sym('z0'), Poly.sym('arg0'), q=1)
    finally:
        I.on_call = None
    rep.check(out == 'LIMIT' and got == [((Poly.sym('z0'), Poly.sym('arg0')), {'q': 1})], 'R-RESIDUE', 'limits.Residue.__call__',
              lim.relpath, {'delegates_to_limit': out == 'LIMIT', 'arguments': repr(got)[:100]},
              'Residue.__call__(x, *args, **kwds) == self.limit(x, *args, **kwds)', 'Residue.__call__', key='residue call')


def kinds(ctx, lim):
    rep = ctx.rep
    cases = [('Limit', 'complex z0', dict(), 'c', 'f'), ('Limit', 'spiral path', dict(path='spiral'), 'f', 'f'),
             ('Limit', 'complex valued f', dict(), 'f', 'c'), ('Residue', 'complex z0', dict(pole_order=2), 'c', 'f'),
             ('Residue', 'spiral path', dict(path='spiral'), 'f', 'f'), ('Limit', 'complex z0 below', dict(method='below'), 'c', 'c'),
             ('Limit', 'spiral path, complex valued f', dict(path='spiral'), 'f', 'c'),
             ('Residue', 'spiral path, complex valued f', dict(path='spiral', pole_order=2), 'f', 'c')]
    for cls, what, kw, xk, fk in cases:
        def body(s, cls=cls, kw=kw, xk=xk, fk=fk):
            I = s.interp
            C = I.get_global('limits', cls)

            def f(z, *a, **k):
                def one(v):
                    kind = 'c' if (fk == 'c' or getattr(v, 'kind', 'f') in ('c', 'z') or
                                   (isinstance(v, Poly) and not v.is_real())) else 'f'
                    if cls == 'Limit' and getattr(v, 'sel', None) is not None:
                        return NaNV()
                    return DV(tags_of(v), kind)
                return ndarr.ew1(one, z) if isinstance(z, Arr) else one(z)
            d = C(f, num_steps=9, **kw)
            return d(s.x_array((2,), xk))
        paths = [p for hname, ex in explore_orderings(ctx, body) for p in ex.paths]
        ex = type('Paths', (), {'paths': paths})
        bad = [{'raises': exc.exc_name, 'message': exc.msg[:100], 'path': ', '.join('%s=%s' % (d[1][:25], d[0]) for d in dec)}
               for dec, r, exc in ex.paths if exc is not None]
        # the value returned is the complex limit itself (a numpy array is complex as soon as one element is): no projection
        for dec, r, exc in ex.paths:
            if exc is not None or 'c' not in (xk, fk):
                continue          # (only where the data is complex by construction of the case)
            val = r[0] if isinstance(r, tuple) else r
            elems = val.items() if isinstance(val, Arr) else [val]
            if elems and not any(isinstance(v, DV) and v.kind in ('c', 'z') for v in elems):
                bad.append({'result_kind': sorted({getattr(v, 'kind', '?') for v in elems}),
                            'path': ', '.join('%s=%s' % (d[1][:25], d[0]) for d in dec)})
        rep.check(not bad, 'R-KIND', 'limits._Limit._add_error_to_outliers', lim.relpath, {'paths': len(ex.paths), 'exceptions': bad[:2]},
                  'complex data never reaches a real-only kernel and the complex limit is returned as such', '%s/%s' % (cls, what),
                  key='kind %s' % cls)
