"""C19 nd_scipy wrappers return the Jacobian/gradient and respect bounds (forwarding clauses)."""
import ast
import glob
import os
from fractions import Fraction as Fr

from ..srcmodel import AnalysisError
from ..algebra import Poly
from .. import ndarr
from ..ndarr import Arr, InterpRaise
from ..absint import Interp
from ..libmodels import Models

RULES = {
    'R-METHODMAP': "the method names handed to scipy's approx_derivative for central / forward / complex are '3-point' / '2-point' / "
                   "'cs' and belong to the set that approx_derivative accepts (read from the installed SciPy source)",
    'R-KWARGS': "every keyword passed exists in approx_derivative's signature; fun, rel_step (= the constructor's step), args, kwargs, "
                "bounds and sparsity reach it unchanged (bounds for scalar, finite, half-open and mixed boxes); x is at least 1-d",
    'R-GRAD': 'nd_scipy.Gradient passes x flattened and returns the single Jacobian row squeezed ((n,), 0-d for n = 1)',
}


def scipy_signature():
    """(parameter names, accepted method names) of scipy.optimize._numdiff.approx_derivative from its source (never imported)."""
    cands = glob.glob('/venv/lib/python3*/site-packages/scipy/optimize/_numdiff.py')
    if not cands:
        raise AnalysisError('installed SciPy source not found')
    tree = ast.parse(open(cands[0]).read())
    fn = next((n for n in tree.body if isinstance(n, ast.FunctionDef) and n.name == 'approx_derivative'), None)
    if fn is None:
        raise AnalysisError('approx_derivative not found in the installed SciPy')
    params = [a.arg for a in fn.args.args + fn.args.kwonlyargs]
    methods = None
    for node in ast.walk(fn):
        if isinstance(node, ast.Compare) and isinstance(node.left, ast.Name) and node.left.id == 'method' and \
                isinstance(node.ops[0], ast.NotIn) and isinstance(node.comparators[0], (ast.List, ast.Tuple)):
            methods = [e.value for e in node.comparators[0].elts if isinstance(e, ast.Constant)]
    if not methods:
        raise AnalysisError('could not read the accepted method names from the installed SciPy')
    return params, methods, cands[0]


def run(ctx):
    rep = ctx.rep
    rep.notes['explanation'] = (
        'Accuracy and bound handling inside SciPy are trusted. Decided: what the wrappers hand to approx_derivative - by '
        'abstract interpretation of __call__ with approx_derivative replaced by a recording stub, and the signature / accepted '
        'method names parsed from the installed SciPy source with ast.')
    for rid, text in RULES.items():
        rep.rule(rid, text, 3)
    params, methods, path = scipy_signature()
    rep.notes['scipy_source'] = path
    rep.notes['approx_derivative_parameters'] = params
    rep.notes['approx_derivative_methods'] = methods
    mod = ctx.repo.module('nd_scipy')
    captured = []

    def stub(fun, x0, *a, **kw):
        captured.append({'fun': fun, 'x0': x0, 'pos': a, 'kw': kw})
        n = x0.size if isinstance(x0, Arr) else 1
        return Arr((1, n), [Poly.sym('g%d' % k) for k in range(n)])

    def external(modname, name, module, local):
        if name in ('approx_derivative',):
            return stub
        if name == 'approx_fprime':
            return lambda *a, **k: None
        return NotImplemented
    models = Models(hooks={'external': external})
    def distinct_markers(interp, node, fr, value):
        """the marker symbols of the scenarios (first / second, kw1 / kw2, ..) stand for *different* arguments: an equality
        test between two of them is false; anything else undetermined stays undecided"""
        from ..ndarr import Unk
        if not isinstance(value, Unk):
            return None
        cmps = value.comparisons()
        if cmps and all(c[1] == '==' and isinstance(c[2], Poly) and isinstance(c[3], Poly) and len(c[2].atoms()) == 1
                        and len(c[3].atoms()) == 1 and c[2].atoms() != c[3].atoms() for c in cmps):
            try:
                from ..dv import logical_shape
                shape = logical_shape(value, lambda e: (id(e), True))
            except Exception:
                shape = ('other', 0)
            # a conjunction / single comparison of such tests is false when each of them is
            if len(cmps) == 1 or shape[0] in ('all', 'any'):
                return False
        return None
    I = Interp(ctx.repo, models, branch_oracle=distinct_markers)
    models.bind(I)
    J = I.get_global('nd_scipy', 'Jacobian')
    G = I.get_global('nd_scipy', 'Gradient')
    inf = models.np.inf
    a, b = Poly.sym('a'), Poly.sym('b')
    boxes = {
        'default': None,
        'scalar pair': (Fr(-1), Fr(2)),
        'finite arrays': (Arr((2,), [Fr(0), Fr(-3)]), Arr((2,), [Fr(5), Fr(4)])),
        'half open below': (Arr((2,), [Fr(0), Fr(0)]), Arr((2,), [inf, inf])),
        'mixed half open': (Arr((2,), [Fr(0), -inf]), Arr((2,), [inf, Fr(5)])),
    }
    where = mod.where(mod.classes['Jacobian'].lookup('__call__')[1]) if 'Jacobian' in mod.classes else mod.relpath
    fun = lambda x, *aa, **kk: x                                     # noqa: E731
    marker_args = (Poly.sym('arg0'), Poly.sym('arg1'))
    marker_kw = {'p': Poly.sym('kwp')}
    expect = {'central': '3-point', 'forward': '2-point', 'complex': 'cs'}
    for method, want in expect.items():
        for step in (None, Poly.sym('s')):
            for bname, box in boxes.items():
                del captured[:]
                kw = dict(method=method, step=step)
                if box is not None:
                    kw['bounds'] = box
                sp = Poly.sym('sparsity')
                kw['sparsity'] = sp
                x = Arr((2,), [Poly.sym('x0'), Poly.sym('x1')])
                label = '%s/step=%s/bounds=%s' % (method, 'given' if step is not None else None, bname)
                try:
                    obj = J(fun, **kw)
                    out = obj(x, *marker_args, **marker_kw)
                except InterpRaise as exc:
                    rep.violation('R-KWARGS', 'nd_scipy.Jacobian.__call__', where, {'raises': exc.exc_name, 'message': exc.msg[:100]},
                                  'the call is forwarded to approx_derivative', label, key='raises')
                    continue
                if len(captured) != 1:
                    rep.violation('R-KWARGS', 'nd_scipy.Jacobian.__call__', where, {'approx_derivative_calls': len(captured)},
                                  'exactly one call of approx_derivative', label, key='calls')
                    continue
                c = captured[0]
                kws = dict(c['kw'])
                names = ['method', 'rel_step', 'abs_step', 'f0', 'bounds', 'sparsity']
                for k, v in zip(names, c['pos']):
                    kws[k] = v
                if bname == 'default' and step is None:
                    m = kws.get('method')
                    rep.check(m == want and m in methods, 'R-METHODMAP', 'nd_scipy.Jacobian.__call__', where,
                              {'nd_method': method, 'scipy_method': m, 'accepted_by_scipy': methods}, want, method,
                              key='methodmap %s' % method)
                problems = []
                unknown = [k for k in kws if k not in params]
                if unknown:
                    problems.append('keywords not in the signature: %s' % unknown)
                if c['fun'] is not fun:
                    problems.append('fun is not the user function')
                if not (isinstance(c['x0'], Arr) and c['x0'].ndim >= 1 and c['x0'].items() == x.items()):
                    problems.append('x0 is %r' % (c['x0'],))
                if step is not None and kws.get('rel_step') is not step:
                    problems.append('the step is not forwarded as rel_step (rel_step=%r, abs_step=%r)'
                                    % (kws.get('rel_step'), kws.get('abs_step')))
                if step is None and (kws.get('rel_step') is not None or kws.get('abs_step') is not None):
                    problems.append('a step is passed although none was given')
                if tuple(kws.get('args', ())) != marker_args:
                    problems.append('args=%r' % (kws.get('args'),))
                if kws.get('kwargs') != marker_kw:
                    problems.append('kwargs=%r' % (kws.get('kwargs'),))
                if kws.get('sparsity') is not sp:
                    problems.append('sparsity=%r' % (kws.get('sparsity'),))
                if box is not None:
                    got = kws.get('bounds')
                    same = got is box or (isinstance(got, (tuple, list)) and len(got) == 2 and
                                          all(_same_bound(g, w) for g, w in zip(got, box)))
                    if not same:
                        problems.append('bounds changed on the way: %r -> %r' % (box, got))
                elif 'bounds' in kws:
                    got = kws['bounds']
                    if not (isinstance(got, (tuple, list)) and len(got) == 2 and repr(got[0]) == repr(-inf) and repr(got[1]) == repr(inf)):
                        problems.append('default bounds are %r' % (got,))
                rep.check(not problems, 'R-KWARGS', 'nd_scipy.Jacobian.__call__', where,
                          {'keywords': sorted(kws), 'problems': problems[:3]}, 'options forwarded unchanged', label,
                          key='kwargs')
    # reuse of one object with other call arguments: nothing of the first call may reach the second
    rep.rule('R-REUSE', 'a second call on the same object with other *args / **kwds forwards the new ones only (no value computed in '
             'the first call, e.g. f(x), is handed to approx_derivative)', 2)
    for method in ('forward', 'central'):
        del captured[:]
        evals = []

        def fun2(x, *aa, **kk):
            evals.append((aa, tuple(sorted(kk.items()))))
            return Poly.sym('fval%d' % len(evals))
        obj = J(fun2, method=method)
        x = Arr((2,), [Poly.sym('x0'), Poly.sym('x1')])
        obj(x, Poly.sym('first'), p=Poly.sym('kw1'))
        n_evals_first = len(evals)
        obj(x, Poly.sym('second'), p=Poly.sym('kw2'))
        c = captured[-1]
        kws = dict(c['kw'])
        problems = []
        if tuple(kws.get('args', ())) != (Poly.sym('second'),) or kws.get('kwargs') != {'p': Poly.sym('kw2')}:
            problems.append('second call forwards args=%r kwargs=%r' % (kws.get('args'), kws.get('kwargs')))
        f0 = kws.get('f0')
        if f0 is not None:
            stale = [e for e in evals[:n_evals_first]]
            vals = f0.items() if isinstance(f0, Arr) else (list(f0) if isinstance(f0, (list, tuple)) else [f0])
            atoms = set()
            for v in vals:
                if isinstance(v, Poly):
                    atoms |= set(v.atoms())
            if any(('fval%d' % (k + 1)) in atoms for k in range(n_evals_first)):
                problems.append('f0 of the second call is a value computed during the first call')
        rep.check(not problems, 'R-REUSE', 'nd_scipy.Jacobian.__call__', where, {'problems': problems[:2], 'keywords': sorted(kws)},
                  'only the arguments of the current call are forwarded', 'Jacobian(%s) called twice' % method, key='reuse')
        # ... and a third call at the same x with the same positional but another keyword argument
        n_before = len(evals)
        obj(x, Poly.sym('second'), p=Poly.sym('kw3'))
        kws = dict(captured[-1]['kw'])
        problems = []
        if tuple(kws.get('args', ())) != (Poly.sym('second'),) or kws.get('kwargs') != {'p': Poly.sym('kw3')}:
            problems.append('third call forwards args=%r kwargs=%r' % (kws.get('args'), kws.get('kwargs')))
        f0 = kws.get('f0')
        if f0 is not None:
            vals = f0.items() if isinstance(f0, Arr) else (list(f0) if isinstance(f0, (list, tuple)) else [f0])
            atoms = set()
            for v in vals:
                if isinstance(v, Poly):
                    atoms |= set(v.atoms())
            if any(('fval%d' % (k + 1)) in atoms for k in range(n_before)):
                problems.append('f0 of the third call is a value computed for other keyword arguments')
        rep.check(not problems, 'R-REUSE', 'nd_scipy.Jacobian.__call__', where, {'problems': problems[:2], 'keywords': sorted(kws)},
                  'only the arguments of the current call are forwarded',
                  'Jacobian(%s) called again with another keyword argument only' % method, key='reuse')
    # Gradient
    for xshape in ((3,), (1,), (2, 2), ()):
        del captured[:]
        n = 1
        for s in xshape:
            n *= s
        x = Arr(xshape, [Poly.sym('x%d' % k) for k in range(n)])
        try:
            out = G(fun)(x, *marker_args, **marker_kw)
        except InterpRaise as exc:
            rep.violation('R-GRAD', 'nd_scipy.Gradient.__call__', mod.relpath, {'raises': exc.exc_name, 'message': exc.msg[:100]},
                          'gradient of a scalar function', 'x.shape=%s' % (xshape,), key='grad raises')
            continue
        c = captured[-1] if captured else None
        want_shape = (n,) if n > 1 else ()
        shape = out.shape if isinstance(out, Arr) else ()
        ok = c is not None and isinstance(c['x0'], Arr) and c['x0'].shape == (n,) and shape == want_shape and \
            tuple(c['kw'].get('args', ())) == marker_args and c['kw'].get('kwargs') == marker_kw
        rep.check(ok, 'R-GRAD', 'nd_scipy.Gradient.__call__', mod.relpath,
                  {'x0_shape_passed': list(c['x0'].shape) if c and isinstance(c['x0'], Arr) else None, 'result_shape': list(shape),
                   'expected': list(want_shape)}, 'flattened in, squeezed out, arguments forwarded', 'x.shape=%s' % (xshape,),
                  key='grad')
    # Gradient takes the same constructor options and must hand them on like Jacobian does
    for method, want in expect.items():
        del captured[:]
        box = boxes['finite arrays']
        sp, st = Poly.sym('sparsity'), Poly.sym('s')
        x = Arr((2,), [Poly.sym('x0'), Poly.sym('x1')])
        label = 'Gradient/%s/step, bounds, sparsity given' % method
        try:
            G(fun, method=method, step=st, bounds=box, sparsity=sp)(x, *marker_args, **marker_kw)
        except InterpRaise as exc:
            rep.violation('R-GRAD', 'nd_scipy.Gradient.__call__', mod.relpath, {'raises': exc.exc_name, 'message': exc.msg[:100]},
                          'options forwarded', label, key='grad options raise')
            continue
        c = captured[-1] if captured else None
        problems = []
        if c is None:
            problems.append('approx_derivative was not called')
        else:
            kws = dict(c['kw'])
            for k, v in zip(['method', 'rel_step', 'abs_step', 'f0', 'bounds', 'sparsity'], c['pos']):
                kws[k] = v
            if kws.get('method') != want:
                problems.append('method=%r' % (kws.get('method'),))
            if kws.get('rel_step') is not st:
                problems.append('rel_step=%r' % (kws.get('rel_step'),))
            got = kws.get('bounds')
            if not (got is box or (isinstance(got, (tuple, list)) and len(got) == 2 and all(_same_bound(g, w) for g, w in zip(got, box)))):
                problems.append('bounds=%r' % (got,))
            if kws.get('sparsity') is not sp:
                problems.append('sparsity=%r' % (kws.get('sparsity'),))
        rep.check(not problems, 'R-GRAD', 'nd_scipy.Gradient.__call__', mod.relpath, {'problems': problems[:3]},
                  'method, step, bounds and sparsity reach approx_derivative as for Jacobian', label, key='grad options')
    rep.notes['trusted_base'] = ['python ast', 'ndverif abstract interpreter', 'SciPy approx_derivative (its source is only parsed)']


def _same_bound(g, w):
    if g is w:
        return True
    if isinstance(g, Arr) and isinstance(w, Arr):
        return g.shape == w.shape and [repr(v) for v in g.items()] == [repr(v) for v in w.items()]
    return repr(g) == repr(w)
