"""R-E2E: end-to-end abstract run of Derivative._derivative_nonzero_order (first half of the pipeline:
_get_functions, _get_steps, _eval_first, diff per step, set_richardson_rule, fd_rule.apply) and check of
the formal Taylor expansion of every returned estimate row:

    der_init[i] = f^(n)(x) + sum_t e_t * h_i**(method_order + t*richardson_step) * (higher derivatives)

with h_i the step returned next to it, the Richardson object configured with exactly those exponents and
the generator's step ratio.  This covers what the table level rules cannot: _vstack, the convolution
orientation / origin / trimming in _apply, the division by h**n, the step ordering, the wiring of
step_ratio / order / step into Richardson, and the f(x) argument (literal 0.0 when eval_first_condition
is false).
"""
import math
from fractions import Fraction as Fr

from ..srcmodel import AnalysisError
from ..stages import estimates
from ..algebra import Poly, Z8
from .. import ndarr
from ..ndarr import Arr, InterpRaise
from ..pipeline import Pipeline, column_exponents
from ..stencil import FV, taylor_signature

RULE_TEXT = ('end-to-end abstract run of _derivative_nonzero_order: every returned row i equals '
             'f^(n) + sum_t e_t h_i^(order_R + t*step_R) with (order_R, step_R, ratio) the parameters given to '
             'Richardson, h_i the returned step of that row, steps strictly decreasing by the ratio')


def richardson_params(I, obj):
    r = obj.attrs.get('richardson')
    if r is None:
        raise AnalysisError('no Richardson object set by the call')
    return {k: I.getattr(r, k) for k in ('step_ratio', 'step', 'order', 'num_terms')}       # public parameters (may be properties)


def run_one(rep, P, cls, method, n, order, gen_kind, rule_id='R-E2E', dim=None, extra_k=None, complex_valued=False):
    """One configuration.  gen_kind: 'sym-min' | 'sym-max' | 'default'."""
    I = P.interp
    core = P.repo.module('core')
    P.clear_cache()
    label = '%s/%s/n=%s/order=%s/steps=%s%s' % (cls, method, n, order, gen_kind, '/complex valued f' if complex_valued else '')
    construct = 'core.%s._derivative_nonzero_order' % ('Jacobian' if cls in ('Jacobian', 'Gradient') else 'Derivative')
    where = core.relpath
    if gen_kind == 'sym-min':
        step = P.sym_generator('Min', num_extrap=2)
    elif gen_kind == 'sym-max':
        step = P.sym_generator('Max', num_steps=None, num_extrap=3)
    else:
        step = None
    try:
        FV.value_kind = 'c' if complex_valued else 'f'
        obj, x = P.build(cls, method, order, n=n, step=step, dim=dim)
        (der, h, shape), fxi = estimates(I, obj, x)
    except InterpRaise as exc:
        rep.violation(rule_id, construct, where, {'raises': exc.exc_name, 'message': exc.msg[:120]},
                      'a valid configuration does not raise', label, key='e2e-raises %s' % method)
        return
    finally:
        FV.value_kind = 'f'
    rp = richardson_params(I, obj)
    nn = int(I.getattr(obj, 'n'))
    ratio = rp['step_ratio']
    ro, rs = rp['order'], rp['step']
    rows = der.shape[0]
    if not (isinstance(der, Arr) and der.ndim == 2 and isinstance(h, Arr) and h.shape == der.shape):
        rep.violation(rule_id, construct, where, {'der_shape': getattr(der, 'shape', None), 'h_shape': getattr(h, 'shape', None)},
                      'estimates and steps as two tables of the same shape', label, key='e2e-shape')
        return
    problems = []
    observations = set()
    # steps: h[i+1] * ratio == h[i]
    for c in range(der.shape[1]):
        for i in range(rows - 1):
            a, b = Poly.of(h[i, c]), Poly.of(h[i + 1, c])
            if not (b * Poly.of(ratio) - a).is_zero():
                problems.append('steps are not decreasing by the Richardson ratio: h[%d]=%r h[%d]=%r ratio=%r'
                                % (i, a, i + 1, b, ratio))
                break
    if not isinstance(ro, int) or not isinstance(rs, int) or ro < 1 or rs < 1:
        problems.append('Richardson(order=%r, step=%r)' % (ro, rs))
        ro, rs = 1, 1
    kmax = nn + ro + 2 * rs + (extra_k or 0)
    lead = None
    ncols = der.shape[1]
    for c in range(ncols):
        for i in range(rows):
            e = der[i, c]
            hi = Poly.of(h[i, c])
            vdim = dim
            coord = c if dim is not None else 0
            if type(e).__name__ == '_Border':
                problems.append('row %d col %d: the estimate comes from a convolution window that left the array (it depends on '
                                'the boundary mode of convolve1d, not only on the difference quotients)' % (i, c))
                continue
            sigs = [taylor_signature(e, None, vdim, kmax)] if not complex_valued else \
                [taylor_signature(e, None, vdim, kmax, valued='u'), taylor_signature(e, None, vdim, kmax, valued='v')]
            for which, sg in zip(('real part of f', 'imaginary part of f') if complex_valued else ('f',), sigs):
                # (an estimate that does not contain the derivative at all has no entry to be judged below)
                if not any(sum(alpha) == nn and not q.is_zero() for alpha, q in sg.items()):
                    problems.append('row %d col %d: no f^(%d) term of the %s in the estimate' % (i, c, nn, which))
            for alpha, p in [it for sg in sigs for it in sorted(sg.items())]:
                k = sum(alpha)
                res, unres, notes = P.reg.resolve(p)
                pure = (dim is None) or all(a == 0 for j, a in enumerate(alpha) if j != coord)
                if not pure:
                    if not (res.is_zero() and unres.is_zero()):
                        problems.append('row %d col %d: mixed partial derivative D^%s has weight %r' % (i, c, alpha, res + unres))
                    continue
                if k == nn:
                    if not unres.is_zero() or not (res - Poly.const(math.factorial(nn))).is_zero():
                        problems.append('row %d col %d: coefficient of f^(%d)/%d! is %r (+%r unresolved), expected %d'
                                        % (i, c, nn, nn, res, unres, math.factorial(nn)))
                    continue
                tot = res + unres
                if tot.is_zero():
                    continue
                if k < nn:
                    problems.append('row %d col %d: a lower derivative f^(%d) survives with weight %r' % (i, c, k, tot))
                    continue
                # error term: must be  const(r, W) * h_i ** (k - n)  with k - n in the Richardson set
                if not unres.is_zero() and not res.is_zero():
                    problems.append('row %d col %d: f^(%d) partly removed (%r) and partly not' % (i, c, k, res))
                p_err = k - nn
                if method == 'multicomplex':
                    # rule-free method (excluded from C06): the truncation error is h^2, h^4, .. whatever order
                    # is requested; Richardson(order=method_order) then models h^4.. for order=4.  This is
                    # recorded as an observation, not a violation: at the step sizes of the complex-step
                    # generators the h^2 term is far below rounding, so the behaviour C01 states is unaffected.
                    if p_err < 2:
                        problems.append('row %d col %d: multicomplex truncation error h^%d' % (i, c, p_err))
                    elif p_err < ro:
                        observations.add('multicomplex: truncation error h^%d is not modelled by Richardson(order=%d)'
                                         % (p_err, ro))
                    if lead is None or p_err < lead:
                        lead = p_err
                    continue
                if p_err < ro or (p_err - ro) % rs != 0:
                    problems.append('row %d col %d: error term h^%d f^(%d) is not modelled by Richardson(order=%d, step=%d)'
                                    % (i, c, p_err, k, ro, rs))
                    continue
                q = tot / (hi ** p_err)
                if (q.atoms() & {'h', 'x'}) or any(a.startswith('h') and a[1:].isdigit() for a in q.atoms()):
                    problems.append('row %d col %d: error term of f^(%d) is %r, not proportional to h_i^%d (h_i=%r)'
                                    % (i, c, k, tot, p_err, hi))
                if lead is None or p_err < lead:
                    lead = p_err
    fact = {'rows': rows, 'richardson': {k: repr(v) for k, v in rp.items()}, 'leading_error_power': lead,
            'steps_head': [repr(v) for v in h.items()[:3]], 'problems': problems[:4],
            'observations': sorted(observations),
            'f_x_argument': 'f(x)' if isinstance(fxi, FV) or (isinstance(fxi, Arr)) else repr(fxi)}
    rep.check(not problems, rule_id, construct, where, fact,
              'every row: f^(n) exactly, no lower derivative, error powers = Richardson exponents', label,
              key='e2e %s n%%8=%s' % (method, nn % 8))


def sample_configs(tier):
    out = []
    for method in ('central', 'forward', 'backward', 'complex', 'multicomplex'):
        ns = range(1, 10) if method != 'multicomplex' else (1, 2)
        for n in ns:
            for order in ((1, 2, 3, 4) if tier == 'quick' else (1, 2, 3, 4, 5, 6, 8)):
                out.append((method, n, order))
    return out
