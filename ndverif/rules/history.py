"""History independence by abstract runs: an operation sequence on one (or two cooperating) objects is run
in the exact function-value domain and the abstract result of its last call is compared with the abstract
result of the same call on a freshly constructed object in a fresh interpreter (cold cache).  Equal abstract
results for a *symbolic* f mean equal results for every f."""
from fractions import Fraction as Fr

from ..srcmodel import AnalysisError
from ..stages import estimates
from ..algebra import Poly
from .. import ndarr
from ..ndarr import Arr, InterpRaise
from ..pipeline import Pipeline
from ..stencil import FV


def first_half(P, obj, x):
    """Abstract result of the state dependent half of __call__: (estimates, steps, shape, f(x), Richardson
    parameters, evaluation points)."""
    I = P.interp
    n_before = len(P.calls)
    P.set_point(x)
    (res, fxi) = estimates(I, obj, x)
    rich = obj.attrs.get('richardson')
    rp = tuple((k, repr(rich.attrs.get(k))) for k in ('step_ratio', 'step', 'order', 'num_terms')) if rich is not None else None
    calls = tuple(repr(c[0]) for c in P.calls[n_before:])
    return P.canon((res, fxi)), rp, calls


def describe(canon):
    s = repr(canon)
    return s[:300]


class Scenario(object):
    """A named sequence.  build(P) must return (obj, x) after performing the history on Pipeline P;
    fresh(P) must return (obj, x) for a fresh object in the final configuration."""

    def __init__(self, name, history, fresh, what):
        self.name, self.history, self.fresh, self.what = name, history, fresh, what


def run_scenario(rep, repo, sc, rule_id, construct, where):
    try:
        P1 = Pipeline(repo)
        P1.clear_cache()
        obj, x = sc.history(P1)
        got = first_half(P1, obj, x)
        P2 = Pipeline(repo)
        P2.clear_cache()
        obj2, x2 = sc.fresh(P2)
        want = first_half(P2, obj2, x2)
    except InterpRaise as exc:
        rep.violation(rule_id, construct, where, {'raises': exc.exc_name, 'message': exc.msg[:120]},
                      'the operation sequence does not raise', sc.name, key='history-raises %s' % sc.what)
        return
    same = got == want
    fact = {'sequence': sc.name, 'same_as_fresh_object': same}
    if not same:
        for label, a, b in (('estimates/steps/f(x)', got[0], want[0]), ('richardson', got[1], want[1]),
                            ('evaluation points', got[2], want[2])):
            if a != b:
                fact['differs_in'] = label
                fact['after_history'] = describe(a)
                fact['fresh'] = describe(b)
                break
    rep.check(same, rule_id, construct, where, fact,
              'the abstract result of the last call equals that of a fresh object in the same configuration',
              sc.name, key='history %s' % sc.what)


def setter_scenarios(cls='Derivative', dim=None, tier='quick'):
    out = []
    methods = ('central', 'forward', 'backward', 'complex')
    pairs = [(a, b) for a in methods for b in methods if a != b]
    if tier == 'quick':
        pairs = [('central', 'forward'), ('forward', 'backward'), ('central', 'complex'), ('complex', 'central'),
                 ('backward', 'central')]

    def mk(m1, n1, o1, ops, final):
        def history(P, m1=m1, n1=n1, o1=o1, ops=ops):
            gen = P.sym_generator('Min', num_extrap=1)
            obj, x = P.build(cls, m1, o1, n=n1, step=gen, dim=dim)
            I = P.interp
            estimates(I, obj, x)
            for attr, val in ops:
                I.setattr(obj, attr, val)
                if attr == 'call':
                    pass
            return obj, x

        def fresh(P, final=final):
            gen = P.sym_generator('Min', num_extrap=1)
            m, n, o = final
            return P.build(cls, m, o, n=n, step=gen, dim=dim)
        return history, fresh
    n0 = 1 if cls == 'Derivative' else None
    for m1, m2 in pairs:
        h, f = mk(m1, n0, 2, [('method', m2)], (m2, n0, 2))
        out.append(Scenario('%s(%s) ; call ; method=%s ; call' % (cls, m1, m2), h, f, 'method setter'))
    if cls == 'Derivative':
        for n1, seq in ((1, [3]), (2, [0, 2]), (1, [0, 1]), (3, [1]), (1, [2, 4]), (1, [0]), (2, [0]), (0, [2])):
            ops = [('n', v) for v in seq]
            h, f = mk('central', n1, 2, ops, ('central', seq[-1], 2))
            out.append(Scenario('Derivative(n=%d) ; call ; %s ; call' % (n1, ' ; '.join('n=%d' % v for v in seq)), h, f,
                                'n setter'))
        h, f = mk('forward', 2, 1, [('n', 0), ('n', 2)], ('forward', 2, 1))
        out.append(Scenario('Derivative(forward, n=2) ; call ; n=0 ; n=2 ; call', h, f, 'n setter'))
    for o1, o2 in ((2, 4), (4, 2), (1, 3)):
        h, f = mk('central', n0, o1, [('order', o2)], ('central', n0, o2))
        out.append(Scenario('%s(order=%d) ; call ; order=%d ; call' % (cls, o1, o2), h, f, 'order setter'))
    h, f = mk('central', n0, 2, [('method', 'forward'), ('method', 'central')], ('central', n0, 2))
    out.append(Scenario('%s(central) ; call ; method=forward ; method=central ; call' % cls, h, f, 'method restore'))
    if cls == 'Derivative':
        # the complex-step rules switch between a low and a high order family with n and order
        for n1, o1, ops, final in ((1, 2, [('n', 3)], (3, 2)), (3, 2, [('n', 1)], (1, 2)), (1, 2, [('order', 4)], (1, 4)),
                                   (1, 4, [('order', 2)], (1, 2)), (2, 2, [('n', 4)], (4, 2))):
            h, f = mk('complex', n1, o1, ops, ('complex',) + final)
            out.append(Scenario('Derivative(complex, n=%d, order=%d) ; call ; %s ; call'
                                % (n1, o1, ' ; '.join('%s=%d' % op for op in ops)), h, f, 'complex n / order setter'))
    return out


def sequence_scenarios(cls='Derivative', dim=None, tier='quick', seed=0):
    """Operation sequences generated from an alphabet (every op is followed by a call): set n / order / method /
    full_output on one object, from several starting configurations.  The thorough tier runs all sequences of length <= 3
    (central start) resp. <= 2 (other starts) over the alphabet, the quick tier a seeded sample; the last call is compared
    with a fresh object in the final configuration."""
    import itertools
    import random
    ops = [('method', 'forward'), ('method', 'central'), ('method', 'complex'), ('method', 'backward'), ('order', 4), ('order', 2),
           ('order', 3), ('full_output', True), ('full_output', False)]
    if cls == 'Derivative':
        ops += [('n', 2), ('n', 1), ('n', 3), ('n', 0)]
    if cls == 'Hessian':
        ops = [o for o in ops if o[0] != 'order']
    starts = [('central', 2), ('forward', 3), ('backward', 1), ('complex', 4)]
    if cls == 'Hessian':
        starts = [('central', None), ('forward', None)]
    out = []
    n0 = 1 if cls == 'Derivative' else None
    for si, (m0, o0) in enumerate(starts):
        seqs = []
        for L in ((2, 3) if si == 0 else (1, 2)):
            seqs += list(itertools.product(ops, repeat=L))
        seqs = [q for q in seqs if all(q[i] != q[i + 1] for i in range(len(q) - 1)) and q[0] != ('method', m0) and q[0] != ('order', o0)]
        if tier == 'quick':
            rnd = random.Random(1000 + seed + si)
            seqs = rnd.sample(seqs, 10 if si == 0 else 6)
        for q in seqs:
            cfg = {'method': m0, 'order': o0, 'n': n0, 'full_output': False}
            for a, v in q:
                cfg[a] = v

            def history(P, q=q, m0=m0, o0=o0):
                gen = P.sym_generator('Min', num_extrap=1)
                obj, x = P.build(cls, m0, o0, n=n0, step=gen, dim=dim)
                I = P.interp
                estimates(I, obj, x)
                for a, v in q:
                    I.setattr(obj, a, v)
                    estimates(I, obj, x)
                return obj, x

            def fresh(P, cfg=dict(cfg)):
                gen = P.sym_generator('Min', num_extrap=1)
                return P.build(cls, cfg['method'], cfg['order'], n=cfg['n'], step=gen, dim=dim, full_output=cfg['full_output'])
            name = '%s(%s, order=%s) ; call ; %s' % (cls, m0, o0, ' ; '.join('%s=%s ; call' % op for op in q))
            out.append(Scenario(name, history, fresh, 'generated sequence'))
    return out


def other_point_scenarios(cls='Derivative', dim=None):
    """The same object is first called at another point y, then at x."""
    out = []

    def mk(method, n, gen_kind):
        def gen_of(P):
            if gen_kind == 'sym':
                return P.sym_generator('Min', num_extrap=1)
            if gen_kind == 'default':
                return None
            return P.interp.get_global('step_generators', gen_kind)()

        def history(P):
            obj, x = P.build(cls, method, None if cls == 'Hessian' else 2, n=n, step=gen_of(P), dim=dim)
            if dim is None:
                y = Poly.sym('y')
            else:
                y = Arr((dim,), [Poly.sym('y%d' % k) for k in range(dim)])
            P.set_point(y)
            estimates(P.interp, obj, y)
            return obj, x

        def fresh(P):
            return P.build(cls, method, None if cls == 'Hessian' else 2, n=n, step=gen_of(P), dim=dim)
        return history, fresh
    n0 = 1 if cls == 'Derivative' else None
    combos = [('central', n0, 'sym'), ('forward', n0, 'default'), ('complex', n0, 'default'), ('central', n0, 'MinStepGenerator'),
              ('backward', n0, 'MaxStepGenerator')]
    if cls == 'Derivative':
        combos += [('central', 2, 'default'), ('complex', 3, 'MinStepGenerator')]
    for method, n, gk in combos:
        h, f = mk(method, n, gk)
        out.append(Scenario('%s(%s, n=%s, steps=%s) ; call(y) ; call(x)' % (cls, method, n, gk), h, f, 'other point'))
    return out


def earlier_object_scenarios(cls='Derivative', dim=None):
    """Another object of the same process - built with other step options and used - comes first; the object that is judged
    is built afterwards with the default options and must behave like the first object of a process."""
    out = []

    def mk(method, n, earlier_step):
        def history(P):
            I = P.interp
            if earlier_step == 'scalar':
                first_step = Poly.sym('h_fixed')
                ndarr.POSITIVE_ATOMS.add('h_fixed')
            else:
                first_step = P.sym_generator('Min', num_extrap=1)
            o1, x1 = P.build(cls, method, None if cls == 'Hessian' else 2, n=n, step=first_step, dim=dim)
            estimates(I, o1, x1)
            return P.build(cls, method, None if cls == 'Hessian' else 2, n=n, step=None, dim=dim)

        def fresh(P):
            return P.build(cls, method, None if cls == 'Hessian' else 2, n=n, step=None, dim=dim)
        return history, fresh
    n0 = 1 if cls == 'Derivative' else None
    for method in ('central', 'forward'):
        for earlier_step in ('scalar', 'generator'):
            h, f = mk(method, n0, earlier_step)
            out.append(Scenario('%s(%s, step=<%s>) ; call ; then a new %s(%s) with default steps ; call'
                                % (cls, method, earlier_step, cls, method), h, f, 'earlier object'))
    return out


def step_option_scenarios(cls='Derivative', dim=None):
    """Step options given to the constructor as keywords (default generator): they stay in force when an option of the object
    is changed and restored."""
    out = []

    def mk(first, second):
        opts = dict(base_step=Poly.sym('h'), step_ratio=Poly.sym('r'), num_steps=5, step_nom=1)

        def history(P):
            I = P.interp
            obj, x = P.build(cls, first, None if cls == 'Hessian' else 2, n=(1 if cls == 'Derivative' else None), step=None, dim=dim, **opts)
            estimates(I, obj, x)
            I.setattr(obj, 'method', second)
            estimates(I, obj, x)
            I.setattr(obj, 'method', first)
            return obj, x

        def fresh(P):
            return P.build(cls, first, None if cls == 'Hessian' else 2, n=(1 if cls == 'Derivative' else None), step=None, dim=dim, **opts)
        return history, fresh
    for first, second in (('central', 'forward'), ('forward', 'central')):
        h, f = mk(first, second)
        out.append(Scenario('%s(%s, base_step=h, step_ratio=r, num_steps=5) ; call ; method=%s ; call ; method=%s ; call'
                            % (cls, first, second, first), h, f, 'step options kept'))
    return out


def aborted_call_scenarios(cls='Derivative', dim=None):
    """A call is aborted by an exception raised inside the user function; the next call on the same object (and on a new
    object of the same class) must behave like a fresh one."""
    out = []

    def mk(method, n, bomb_at, new_object):
        def history(P):
            I = P.interp
            gen = P.sym_generator('Min', num_extrap=1)
            obj, x = P.build(cls, method, None if cls == 'Hessian' else 2, n=n, step=gen, dim=dim)
            orig = obj.attrs['fun']
            count = [0]

            def bomb(*a, **k):
                count[0] += 1
                if count[0] == bomb_at:
                    raise InterpRaise('user function failed', 'RuntimeError')
                return orig(*a, **k)
            obj.attrs['fun'] = bomb
            try:
                estimates(I, obj, x)
            except InterpRaise:
                pass
            obj.attrs['fun'] = orig
            if new_object:
                gen2 = P.sym_generator('Min', num_extrap=1)
                obj, x = P.build(cls, method, None if cls == 'Hessian' else 2, n=n, step=gen2, dim=dim)
            return obj, x

        def fresh(P):
            gen = P.sym_generator('Min', num_extrap=1)
            return P.build(cls, method, None if cls == 'Hessian' else 2, n=n, step=gen, dim=dim)
        return history, fresh
    n0 = 1 if cls == 'Derivative' else None
    for method in ('central', 'forward', 'complex'):
        for bomb_at in (2, 4):
            for new_object in (False, True):
                h, f = mk(method, n0, bomb_at, new_object)
                out.append(Scenario('%s(%s) ; call aborted by an exception in f (evaluation %d) ; %s ; call'
                                    % (cls, method, bomb_at, 'new object' if new_object else 'same object'), h, f, 'aborted call'))
    return out


def shared_generator_scenarios():
    out = []

    def mk(kind, first, second, explicit_ratio):
        def history(P):
            I = P.interp
            cref = I.get_global('step_generators', kind + 'StepGenerator')
            kw = dict(base_step=Poly.sym('h'), step_nom=1)
            if explicit_ratio:
                kw['step_ratio'] = Poly.sym('r')
            gen = cref(**kw)
            m1, n1, o1 = first
            obj1, x = P.build('Derivative', m1, o1, n=n1, step=gen)
            estimates(I, obj1, x)
            m2, n2, o2 = second
            obj2, x = P.build('Derivative', m2, o2, n=n2, step=gen)
            return obj2, x

        def fresh(P):
            I = P.interp
            cref = I.get_global('step_generators', kind + 'StepGenerator')
            kw = dict(base_step=Poly.sym('h'), step_nom=1)
            if explicit_ratio:
                kw['step_ratio'] = Poly.sym('r')
            gen = cref(**kw)
            m2, n2, o2 = second
            return P.build('Derivative', m2, o2, n=n2, step=gen)
        return history, fresh
    for kind in ('Min', 'Max'):
        for first, second in ((('central', 1, 2), ('central', 2, 2)), (('central', 3, 2), ('central', 1, 2)),
                              (('forward', 1, 2), ('complex', 1, 2)), (('complex', 2, 2), ('central', 1, 4))):
            h, f = mk(kind, first, second, False)
            out.append(Scenario('%sStepGenerator shared: Derivative%s called, then Derivative%s' % (kind, first, second),
                                h, f, 'shared generator'))
    return out


def cache_scenarios(cls='Derivative', dim=None):
    """Warm rule cache: another configuration (and a neighbouring step ratio) is evaluated first in the same
    interpreter."""
    from fractions import Fraction as Fr
    out = []

    def mk(first, second):
        def history(P):
            I = P.interp
            (m1, n1, o1, r1), (m2, n2, o2, r2) = first, second
            g1 = P.sym_generator('Min', ratio=r1, num_extrap=1)
            obj1, x = P.build(cls, m1, o1, n=n1 if cls == 'Derivative' else None, step=g1, dim=dim)
            estimates(I, obj1, x)
            g2 = P.sym_generator('Min', ratio=r2, num_extrap=1)
            return P.build(cls, m2, o2, n=n2 if cls == 'Derivative' else None, step=g2, dim=dim)

        def fresh(P):
            m2, n2, o2, r2 = second
            g2 = P.sym_generator('Min', ratio=r2, num_extrap=1)
            return P.build(cls, m2, o2, n=n2 if cls == 'Derivative' else None, step=g2, dim=dim)
        return history, fresh
    near = Fr(2) + Fr(1, 10 ** 9)
    combos = [
        (('central', 1, 4, Fr(2)), ('central', 2, 4, Fr(2))),            # same ratio/terms, other parity
        (('central', 1, 4, Fr(2)), ('central', 1, 4, near)),             # neighbouring ratio
        (('forward', 1, 2, Fr(8, 5)), ('backward', 2, 1, Fr(8, 5))),     # same parity class, sign flip
        (('central', 3, 2, Fr(2)), ('central', 1, 4, Fr(2))),            # same cache entry, other row
        (('complex', 3, 2, Fr(2)), ('complex', 7, 2, Fr(2))),
        (('central', 1, 4, 'r'), ('forward', 1, 3, 'r')),
    ]
    if cls != 'Derivative':
        near1 = Fr(8, 5) + Fr(3, 100)
        combos = [(('central', None, 4, Fr(2)), ('central', None, 4, near)),
                  (('central', None, 4, Fr(8, 5)), ('central', None, 4, near1)),
                  (('forward', None, 2, Fr(8, 5)), ('backward', None, 2, Fr(8, 5))),
                  (('forward', None, 2, Fr(2)), ('forward', None, 2, Fr(2) + Fr(1, 25))),
                  (('central', None, 6, 'r'), ('forward', None, 3, 'r'))]
    else:
        combos.append((('central', 1, 4, Fr(8, 5)), ('central', 1, 4, Fr(8, 5) + Fr(1, 250))))
        combos.append((('forward', 1, 2, Fr(3)), ('forward', 1, 2, Fr(3) + Fr(1, 250))))
    for first, second in combos:
        h, f = mk(first, second)
        out.append(Scenario('warm cache: %s%s then %s%s' % (cls, first, cls, second), h, f, 'rule cache'))
    return out


def run_cache_scenarios(rep, repo, cls, dim, rule_id='R-CACHE'):
    """Shared by the properties whose behaviour goes through the rule cache."""
    from ..srcmodel import AnalysisError
    rep.rule(rule_id, 'the rule used by a call does not depend on what was computed before in the same process: for each '
             'warm-cache scenario (same parity / terms with another or a neighbouring step ratio, sibling rows of one cache entry) '
             'the abstract result equals that of a cold interpreter', 4)
    fd = repo.module('finite_difference')
    for sc in cache_scenarios(cls, dim):
        try:
            run_scenario(rep, repo, sc, rule_id, 'finite_difference.LogRule.rule', fd.relpath)
        except AnalysisError as exc:
            rep.undecided(rule_id, 'finite_difference.LogRule.rule', exc, sc.name)


def check_cache_seed(rep, repo, rule_id='R-CACHE-SEED'):
    """The rule cache at import time: empty, or every pre-seeded entry is the inverse of the moment matrix of its key."""
    from ..ndarr import concrete_real
    rep.rule(rule_id, 'the process wide rule cache is empty at import or every pre-seeded entry equals '
             'pinv(_fd_matrix(*key)) up to rounding (1e-12 relative to the summands of W*M; decimal literals)', 1)
    fd = repo.module('finite_difference')
    P = Pipeline(repo)
    P.clear_cache()
    init = dict(P._cache_init)
    problems = []
    I = P.interp
    for key, val in init.items():
        try:
            ratio, parity, nterms = key
            M = I.getattr(I.get_global('finite_difference', 'LogRule'), '_fd_matrix')(ratio, parity, nterms)
            W = val if isinstance(val, Arr) else None
            if W is None or W.shape != M.shape:
                problems.append('%r: not a matrix of the shape of its moment matrix' % (key,))
                continue
            n = M.shape[0]
            done = False
            for a in range(n):
                for b in range(n):
                    s_, scale = 0, 0
                    for m in range(n):
                        s_ = s_ + W[a, m] * M[m, b]
                        t = concrete_real(W[a, m] * M[m, b])
                        scale = scale + (abs(t) if t is not None else 0)
                    c = concrete_real(s_)
                    # rounding level: 1e-12 relative to the size of the summands (a 17 digit literal is good to 1e-16,
                    # a table printed with 9 digits is not an inverse "up to rounding")
                    if c is None or abs(c - (1 if a == b else 0)) > Fr(1, 10 ** 12) * max(scale, 1):
                        problems.append('%r: seeded entry is not the inverse of its moment matrix: (W*M)[%d,%d] = %r' % (key, a, b, s_))
                        done = True
                        break
                if done:
                    break
        except (InterpRaise, ValueError, TypeError) as exc:
            problems.append('%r: %s' % (key, exc))
    rep.check(not problems, rule_id, 'finite_difference.FD_RULES', fd.relpath,
              {'entries_at_import': len(init), 'problems': problems[:3]},
              'empty at import, or every entry == pinv(_fd_matrix(*key))', 'import time', key='cache-seed')
