"""E0 source model: parse the package (never import it), class table, MRO, member lookup, digests."""
import ast
import hashlib
import os


class AnalysisError(Exception):
    """The analysis cannot decide (anchor vanished, construct outside an engine's subset).
    Always ends the run with exit code 2, never with a violation."""


class NotAnOffset(AnalysisError):
    """The user function was called at a point that is provably not `x + (offset independent of x)`: evaluated at two
    concrete x the difference point - x is not the same.  A rule about evaluation points reports it as a violation;
    for every other rule it is an analysis error like its base class."""

    def __init__(self, msg, witness):
        AnalysisError.__init__(self, msg)
        self.witness = witness


PKG = 'numdifftools'
MODULES = ('core', 'finite_difference', 'extrapolation', 'limits', 'step_generators',
           'multicomplex', 'fornberg', 'nd_scipy')


class Module(object):
    def __init__(self, repo, name, path):
        self.repo, self.name, self.path = repo, name, path
        with open(path, 'rb') as fh:
            data = fh.read()
        self.sha256 = hashlib.sha256(data).hexdigest()
        self.source = data.decode('utf-8')
        try:
            self.tree = ast.parse(self.source, filename=path)
        except SyntaxError as exc:
            raise AnalysisError('cannot parse %s: %s' % (path, exc))
        self.relpath = os.path.relpath(path, repo.root)
        self.classes, self.funcs, self.assigns, self.imports = {}, {}, {}, {}
        self.toplevel = []
        self.rebound = set()
        for parent in ast.walk(self.tree):
            for child in ast.iter_child_nodes(parent):
                child._parent = parent
        for st in self.tree.body:
            if isinstance(st, ast.ClassDef):
                self.classes[st.name] = ClassInfo(self, st)
            elif isinstance(st, ast.FunctionDef):
                self.funcs[st.name] = st
            elif isinstance(st, ast.Assign):
                for t in st.targets:
                    for nm in _target_names(t):
                        self.assigns[nm] = st
            elif isinstance(st, ast.ImportFrom):
                for a in st.names:
                    self.imports[a.asname or a.name] = (st.module, a.name)
            elif isinstance(st, ast.Import):
                for a in st.names:
                    self.imports[a.asname or a.name.split('.')[0]] = (a.name, None)
            elif isinstance(st, ast.AnnAssign) and isinstance(st.target, ast.Name) and st.value is not None:
                plain = ast.copy_location(ast.Assign(targets=[st.target], value=st.value), st)
                self.assigns[st.target.id] = plain
                continue
            if isinstance(st, ast.Expr) and isinstance(st.value, ast.Constant):
                continue
            if isinstance(st, ast.If) and ast.unparse(st.test).replace('"', "'") == "__name__ == '__main__'":
                continue
            if isinstance(st, (ast.ClassDef, ast.FunctionDef, ast.Import, ast.ImportFrom)) or \
                    (isinstance(st, ast.Assign) and all(_target_names(t) and not _has_store_to_item(t) for t in st.targets)):
                continue
            # everything else runs when the module is imported (stores into module level tables, calls that install
            # attributes, loops, conditional definitions): executed once by the interpreter before the first use of the module
            self.toplevel.append(st)
        # a name bound at module level by statements of different kinds (def f .. ; f = wrap(f)): python keeps the last
        # binding, the lazy resolution of this model would keep the first - refuse instead of guessing
        seen = {}
        for st in self.tree.body:
            names = []
            if isinstance(st, (ast.ClassDef, ast.FunctionDef)):
                names = [st.name]
            elif isinstance(st, ast.Assign):
                names = [nm for t in st.targets for nm in _target_names(t)]
            for nm in names:
                kind = type(st).__name__
                if nm in seen and (seen[nm] != 'Assign' or kind != 'Assign'):
                    self.rebound.add(nm)
                seen[nm] = kind

    def where(self, node):
        return '%s:%d' % (self.relpath, getattr(node, 'lineno', 0))

    def __repr__(self):
        return '<Module %s>' % self.name


def _has_store_to_item(t):
    if isinstance(t, (ast.Subscript, ast.Attribute)):
        return True
    if isinstance(t, (ast.Tuple, ast.List)):
        return any(_has_store_to_item(e) for e in t.elts)
    return False


def _target_names(t):
    if isinstance(t, ast.Name):
        return [t.id]
    if isinstance(t, (ast.Tuple, ast.List)):
        return [n for e in t.elts for n in _target_names(e)]
    return []


class ClassInfo(object):
    def __init__(self, module, node):
        self.module, self.node, self.name = module, node, node.name
        self._members = None

    @property
    def qualname(self):
        return '%s.%s' % (self.module.name, self.name)

    def bases(self):
        out = []
        for b in self.node.bases:
            if isinstance(b, ast.Name):
                ci = self.module.repo.resolve_class(self.module, b.id)
                if ci is not None:
                    out.append(ci)
        return out

    def mro(self):
        out = [self]
        for b in self.bases():
            for c in b.mro():
                if c not in out:
                    out.append(c)
        return out

    def is_subclass_of(self, other):
        return other in self.mro()

    def own_members(self):
        """name -> list of (kind, node) in definition order; kind in
        method | static | classmethod | property | setter | classattr"""
        if self._members is None:
            mem = {}
            for st in self.node.body:
                if isinstance(st, ast.FunctionDef):
                    decos = [ast.unparse(d) for d in st.decorator_list]
                    if any(d.endswith('.setter') for d in decos):
                        kind = 'setter'
                    elif any(d.endswith('.getter') for d in decos):
                        # @Base.<name>.getter: a property with a new getter that keeps the setter of Base.<name>
                        d = [d for d in decos if d.endswith('.getter')][0]
                        if d.split('.')[-2] != st.name:
                            raise AnalysisError('property %s derived from the differently named %s' % (st.name, d))
                        kind = 'getter'
                    elif 'property' in decos:
                        kind = 'property'
                    elif any(d.split('.')[-1] == 'cached_property' for d in decos):
                        kind = 'cachedprop'
                    elif 'staticmethod' in decos:
                        kind = 'static'
                    elif 'classmethod' in decos:
                        kind = 'classmethod'
                    else:
                        kind = 'method'
                    mem.setdefault(st.name, []).append((kind, st))
                elif isinstance(st, ast.Assign):
                    for t in st.targets:
                        for nm in _target_names(t):
                            mem.setdefault(nm, []).append(('classattr', st))
                elif isinstance(st, ast.AnnAssign) and st.value is not None and isinstance(st.target, ast.Name):
                    # `name: type = value` in a class body binds like a plain assignment (seen as one by the interpreter)
                    plain = ast.copy_location(ast.Assign(targets=[st.target], value=st.value), st)
                    plain.annotation = st.annotation
                    mem.setdefault(st.target.id, []).append(('classattr', plain))
            self._members = mem
        return self._members

    def dataclass_options(self):
        """None, or the keyword options of the @dataclass decorator of this class ({} for the bare decorator).
        Any other class decorator is an analysis gap."""
        opts = None
        for d in self.node.decorator_list:
            call = d if isinstance(d, ast.Call) else None
            f = call.func if call is not None else d
            name = f.attr if isinstance(f, ast.Attribute) else (f.id if isinstance(f, ast.Name) else None)
            if name != 'dataclass':
                raise AnalysisError('class decorator %s on %s is not modelled' % (ast.unparse(d), self.qualname))
            opts = {}
            if call is not None:
                if call.args:
                    raise AnalysisError('positional arguments of @dataclass')
                for k in call.keywords:
                    if not isinstance(k.value, ast.Constant):
                        raise AnalysisError('@dataclass(%s=<not a constant>)' % k.arg)
                    opts[k.arg] = k.value.value
        return opts

    def dataclass_fields(self):
        """[(name, default expression or None, owner)] of the dataclass fields through the MRO, in field order; None when
        no class of the MRO is a dataclass."""
        if not any(c.dataclass_options() is not None for c in self.mro()):
            return None
        fields = {}
        for c in reversed(self.mro()):
            if c.dataclass_options() is None:
                continue
            for st in c.node.body:
                if isinstance(st, ast.AnnAssign) and isinstance(st.target, ast.Name):
                    if 'ClassVar' in ast.unparse(st.annotation):
                        continue
                    fields.pop(st.target.id, None) if False else None
                    fields[st.target.id] = (st.target.id, st.value, c)
        return list(fields.values())

    def lookup(self, attr, want_setter=False, after=None):
        """Resolve attr through the MRO.  Returns (kind, node, owner) or None.
        after=ClassInfo starts the search behind that class (super())."""
        mro = self.mro()
        if after is not None:
            mro = mro[mro.index(after) + 1:]
        for c in mro:
            entries = c.own_members().get(attr)
            if not entries:
                continue
            if want_setter:
                for kind, node in entries:
                    if kind == 'setter':
                        return kind, node, c
                if any(kind == 'getter' for kind, node in entries):
                    continue          # the setter is the one of the property this one was derived from
                # property(fget=..., fset=...) class attribute
                for kind, node in entries:
                    if kind == 'classattr' and _is_property_call(node.value):
                        return 'propcall', node, c
                return None
            # last non-setter definition wins (python semantics: later def rebinds, setter keeps getter)
            chosen = None
            for kind, node in entries:
                if kind != 'setter':
                    chosen = (kind, node, c)
            if chosen:
                if chosen[0] == 'classattr' and _is_property_call(chosen[1].value):
                    return 'propcall', chosen[1], c
                return chosen
        return None

    def method(self, name):
        r = self.lookup(name)
        if r is None:
            raise AnalysisError('anchor vanished: %s.%s' % (self.qualname, name))
        return r

    def __repr__(self):
        return '<class %s>' % self.qualname


def _is_property_call(node):
    return isinstance(node, ast.Call) and isinstance(node.func, ast.Name) and node.func.id == 'property'


class Repo(object):
    def __init__(self, root, extra=None):
        """extra: {module name: path} of additional modules analysed as if they were part of the package (used by the
        conformance suite of the interpreter)"""
        self.root = os.path.abspath(root)
        self.pkgdir = os.path.join(self.root, 'src', PKG)
        if not os.path.isdir(self.pkgdir):
            raise AnalysisError('package directory not found: %s' % self.pkgdir)
        self.modules = {}
        for name in MODULES:
            path = os.path.join(self.pkgdir, name + '.py')
            if not os.path.isfile(path):
                raise AnalysisError('anchor vanished: module %s' % path)
            self.modules[name] = Module(self, name, path)
        for name, path in (extra or {}).items():
            self.modules[name] = Module(self, name, path)

    def module(self, name):
        try:
            return self.modules[name]
        except KeyError:
            raise AnalysisError('unknown module %s' % name)

    def resolve_import(self, module, local):
        """Follow `from numdifftools.x import y` -> (Module x, 'y') or None if external."""
        imp = module.imports.get(local)
        if imp is None:
            return None
        modname, name = imp
        if modname and modname.startswith(PKG + '.'):
            sub = modname[len(PKG) + 1:]
            if sub in self.modules:
                return self.modules[sub], name
        return None

    def resolve_class(self, module, name):
        if name in module.classes:
            return module.classes[name]
        r = self.resolve_import(module, name)
        if r and r[1] in r[0].classes:
            return r[0].classes[r[1]]
        return None

    def resolve_global(self, module, name, _depth=0):
        """-> ('class', ClassInfo) | ('func', Module, FunctionDef) | ('assign', Module, Assign) |
        ('external', modname, name) | None"""
        if name in module.rebound:
            raise AnalysisError('%s.%s is bound more than once at module level (by a definition and an assignment)' % (module.name, name))
        if name in module.classes:
            return ('class', module.classes[name])
        if name in module.funcs:
            return ('func', module, module.funcs[name])
        if name in module.assigns:
            return ('assign', module, module.assigns[name])
        if name in module.imports:
            r = self.resolve_import(module, name)
            if r is not None and _depth < 5:
                return self.resolve_global(r[0], r[1], _depth + 1)
            return ('external',) + tuple(module.imports[name])
        return None

    def cls(self, modname, clsname):
        m = self.module(modname)
        if clsname not in m.classes:
            raise AnalysisError('anchor vanished: class %s.%s' % (modname, clsname))
        return m.classes[clsname]

    def func(self, modname, fname):
        m = self.module(modname)
        if fname not in m.funcs:
            raise AnalysisError('anchor vanished: function %s.%s' % (modname, fname))
        return m.funcs[fname]

    def digests(self):
        return [{'path': m.relpath, 'sha256': m.sha256} for m in self.modules.values()]


def enclosing_function(node):
    p = getattr(node, '_parent', None)
    while p is not None and not isinstance(p, (ast.FunctionDef, ast.Lambda)):
        p = getattr(p, '_parent', None)
    return p


def enclosing_class(node):
    p = getattr(node, '_parent', None)
    while p is not None and not isinstance(p, ast.ClassDef):
        p = getattr(p, '_parent', None)
    return p


def qualname_of(module, fn):
    c = enclosing_class(fn)
    name = getattr(fn, 'name', '<lambda>')
    return '%s.%s.%s' % (module.name, c.name, name) if c is not None else '%s.%s' % (module.name, name)


def called_names(fn_node):
    """names of everything a function body calls: `np.nanargmin(..)` -> 'nanargmin', `convolve1d(..)` -> 'convolve1d'"""
    out = set()
    for n in ast.walk(fn_node):
        if isinstance(n, ast.Call):
            f = n.func
            if isinstance(f, ast.Attribute):
                out.add(f.attr)
            elif isinstance(f, ast.Name):
                out.add(f.id)
        elif isinstance(n, ast.Attribute) and isinstance(n.ctx, ast.Load) and isinstance(n.value, ast.Name) and \
                n.value.id in ('np', 'numpy', 'linalg', 'ndimage', 'special', 'scipy'):
            # a kernel picked first and called through a local name (`pick = np.nanmin if .. else np.min; pick(a)`) is used
            # by the function all the same
            out.add(n.attr)
    return out


def functions_calling(module, names):
    """[(qualname, FunctionDef, ClassInfo or None)] of the functions / methods of a module whose body calls one of `names`
    (a stage of the pipeline found by the library kernel it uses, whatever it is called and wherever it was moved)"""
    names = set(names)
    out = []
    for name, node in module.funcs.items():
        if called_names(node) & names:
            out.append(('%s.%s' % (module.name, name), node, None))
    for ci in module.classes.values():
        for name, entries in ci.own_members().items():
            for kind, node in entries:
                if isinstance(node, ast.FunctionDef) and called_names(node) & names:
                    out.append(('%s.%s.%s' % (module.name, ci.name, name), node, ci))
    return out
