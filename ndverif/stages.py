"""Stages of the call pipeline found by what they hand over, not by the names of private methods.

`estimates(I, obj, x)` runs the public entry `obj(x)` of a core.Derivative-like object and stops at the first analysed
function that returns the hand-over of the difference stage to the extrapolation stage:

    ((difference quotients [steps x elements], steps, original shape), f(x) or None)

so the rules that judge evaluation points, the difference table or the paired Richardson rule keep working when the private
methods of the pipeline are renamed, merged, split or turned into properties."""
from .srcmodel import AnalysisError
from .ndarr import Arr


class _Captured(BaseException):
    def __init__(self, value):
        BaseException.__init__(self)
        self.value = value


def _is_handover(v):
    # (the pair may be followed by further items handed to the next stage - the extrapolator object, say)
    return (isinstance(v, tuple) and len(v) >= 2 and isinstance(v[0], tuple) and len(v[0]) == 3
            and isinstance(v[0][0], Arr) and isinstance(v[0][1], Arr) and isinstance(v[0][2], tuple)
            and all(isinstance(k, int) for k in v[0][2]))


def estimates(I, obj, x, args=(), kwds=None):
    def hook(clo, rv):
        if _is_handover(rv):
            raise _Captured(rv)
    prev = I.on_return
    I.on_return = hook
    try:
        obj(x, *args, **(kwds or {}))
    except _Captured as c:
        (der, h, shape), fx = c.value[0], c.value[1]
        return (der, h, shape), fx
    finally:
        I.on_return = prev
    raise AnalysisError('anchor vanished: no stage of %s.__call__ returns ((estimates, steps, shape), f(x))' % obj.cls.name)
