"""E4 stencil extraction: run a difference function of the four *DifferenceFunctions classes in the
abstract interpreter with a symbolic user function and read off

  * every point at which the user function is called (offsets from x, exact, in Q(zeta8)[j][h]),
  * the returned value as a linear combination of projected function values,
  * its Taylor signature: the coefficient of  h^mono * D^alpha f / alpha!  for every multi-index alpha.

The dimension (len(x)) is concretised (1-D scalar mode, or n = 1..4); everything else is symbolic.
"""
import ast
import itertools
from fractions import Fraction as Fr

from .srcmodel import AnalysisError, NotAnOffset
from .algebra import Poly, Rat, Z8, AlgebraError, multi_indices
from . import ndarr
from .ndarr import Arr, Unk, Choice, ew1
from .absint import Interp, Obj, Closure
from .libmodels import Models


class FV(object):
    """sum over projection kinds of  proj( sum coef * f_comp(x + off) ).
    terms: {proj: {(offkey, comp): Poly}}   proj in (None, 're', 'im'); comp in ('A', 'B')
    ('A' = the j-free part of a bicomplex value = the whole value for complex arguments)."""
    is_elem_ = True

    def __init__(self, terms=None):
        self.terms = {}
        for p, inner in (terms or {}).items():
            inner = {k: c for k, c in inner.items() if not c.is_zero()}
            if inner:
                self.terms[p] = inner

    @staticmethod
    def atom(offkey, comp='A'):
        return FV({None: {(offkey, comp): Poly.const(1)}})

    def is_zero(self):
        return not self.terms

    def _scale(self, s):
        s = _as_poly(s)
        out = {}
        for p, inner in self.terms.items():
            if p is not None and not s.is_real() and FV.value_kind != 'c':
                raise AnalysisError('complex scaling of a projected function value')
            out[p] = {k: c * s for k, c in inner.items()}
        return FV(out)

    def __add__(self, o):
        if isinstance(o, (int, Fr, Poly)) and _as_poly(o).is_zero():
            return self
        if type(o).__name__ == '_Border':
            return o                      # a convolution window that left the array: absorbing
        if not isinstance(o, FV):
            raise AnalysisError('adding a number to a function value (affine stencil): %r' % (o,))
        out = {p: dict(inner) for p, inner in self.terms.items()}
        for p, inner in o.terms.items():
            d = out.setdefault(p, {})
            for k, c in inner.items():
                d[k] = d[k] + c if k in d else c
        return FV(out)
    __radd__ = __add__

    def __neg__(self):
        return self._scale(Poly.const(-1))

    def __sub__(self, o):
        if isinstance(o, (int, Fr, Poly)) and _as_poly(o).is_zero():
            return self
        if type(o).__name__ == '_Border':
            return o
        if not isinstance(o, FV):
            raise AnalysisError('subtracting a number from a function value: %r' % (o,))
        return self + (-o)

    def __rsub__(self, o):
        return (-self) + o

    def __mul__(self, o):
        if isinstance(o, FV):
            raise AnalysisError('product of function values (non linear stencil)')
        if isinstance(o, Rat):
            raise AnalysisError('function value times rational function')
        return self._scale(o)
    __rmul__ = __mul__

    def __truediv__(self, o):
        if isinstance(o, FV):
            raise AnalysisError('quotient of function values (non linear stencil)')
        o = _as_poly(o)
        if not o.is_monomial():
            raise AnalysisError('function value divided by a non-monomial %r' % (o,))
        return self._scale(o.inv())

    def __rtruediv__(self, o):
        raise AnalysisError('division by a function value (non linear stencil)')

    def __pow__(self, o):
        raise AnalysisError('power of a function value (non linear stencil)')

    def _project(self, kind):
        if any(p is not None for p in self.terms):
            # real/imag of an already projected (real) value
            if kind == 're':
                return self
            return FV()
        return FV({kind: dict(self.terms.get(None, {}))})

    def real_(self):
        return self._project('re')

    def imag_(self):
        return self._project('im')

    @property
    def real(self):
        return self.real_()

    @property
    def imag(self):
        return self.imag_()

    def conj_(self):
        raise AnalysisError('conjugate of a function value')

    def abs_(self):
        raise AnalysisError('abs of a function value (non linear stencil)')

    def isnan_(self):
        return Unk('isnan(f)')

    def iscomplex_(self):
        if all(p is not None for p in self.terms) or FV.value_kind == 'f':
            return False
        # a complex valued user function: its values have a non zero imaginary part (the generic case the run stands for)
        return True

    value_kind = 'f'      # dtype kind assumed for the user function's values ('f' real, 'c' complex)

    def kind_(self):
        return 'f' if all(p is not None for p in self.terms) else FV.value_kind

    def cmp_(self, op, other):
        return Unk('f-value comparison')
    rcmp_ = cmp_

    def __repr__(self):
        out = []
        for p, inner in self.terms.items():
            s = ' + '.join('(%r)*f%s(x+%s)' % (c, '' if comp == 'A' else '.B', _fmt_off(off))
                           for (off, comp), c in inner.items())
            out.append(s if p is None else '%s[%s]' % (p, s))
        return ' + '.join(out) or '0'


FX_KEY = ('FX',)


def _fmt_off(off):
    if off == FX_KEY:
        return '0 (f_x parameter)'
    return '(' + ', '.join(repr(o) for o in off) + ')'


def _as_poly(x):
    if isinstance(x, Poly):
        return x
    if isinstance(x, (int, Fr)):
        return Poly.const(x)
    raise AnalysisError('expected an exact number, got %r' % (x,))


class StencilResult(object):
    def __init__(self, value, calls, dim, hsyms, errors=None):
        self.value, self.calls, self.dim, self.hsyms = value, calls, dim, hsyms
        self.alternatives = []      # [(decisions text, StencilResult)]: other outcomes of branches on the values of f


class StencilRunner(object):
    """Runs difference functions abstractly.  dim=None: scalar (elementwise) mode."""

    def __init__(self, repo):
        self.repo = repo
        self.models = Models()
        self.interp = Interp(repo, self.models)
        self.models.bind(self.interp)
        self.bicomplex = repo.cls('multicomplex', 'Bicomplex')

    def run(self, fn, dim, h_negated=False):
        """fn: Closure of a staticmethod (f, f_x, x, h) -> StencilResult"""
        I = self.interp
        if dim is None:
            x = Poly.sym('x')
            h = Poly.sym('h')
            hsyms = ['h']
            xs = [x]
        else:
            xs = [Poly.sym('x%d' % k) for k in range(dim)]
            hs = [Poly.sym('h%d' % k) for k in range(dim)]
            hsyms = ['h%d' % k for k in range(dim)]
            x = Arr((dim,), xs)
            h = Arr((dim,), hs)
        bic = self.bicomplex
        xatoms = {'x'} if dim is None else {'x%d' % k for k in range(dim)}
        # A difference function may branch on the *values* of f (isnan tests ..): every outcome is interpreted; the
        # result with the most evaluations is the primary one, the others are kept as alternatives so that a rule
        # about the set of evaluation points can judge each of them.
        from .dv import Explorer
        ex = Explorer(max_paths=16)
        results = []

        owner = getattr(fn, 'interp', None) or I          # the closure is interpreted by the interpreter that made it

        def once(oracle):
            saved = owner.branch_oracle
            owner.branch_oracle = oracle
            try:
                return self._run_once(fn, dim, x, h, xs, hsyms, xatoms)
            finally:
                owner.branch_oracle = saved
        paths = ex.run(once)
        for decisions, res, exc in paths:
            if exc is not None:
                raise AnalysisError('difference function raises %s on a branch that depends on the values of f' % exc.exc_name)
            results.append((', '.join('%s=%s' % (d[1][:40], d[0]) for d in decisions), res))
        results.sort(key=lambda t: -len(t[1].calls))
        primary = results[0][1]
        primary.alternatives = results[1:]
        # a user function may also *raise* instead of returning NaN (math.log, math.sqrt): where the difference function
        # catches that and carries on, the evaluations it then makes are one more outcome to judge
        from .ndarr import InterpRaise
        for k in range(len(primary.calls)):
            self._raise_at = k
            try:
                res = self._run_once(fn, dim, x, h, xs, hsyms, xatoms)
            except InterpRaise:
                continue            # the exception reaches the caller: nothing is returned, nothing to judge
            except AnalysisError:
                continue
            finally:
                self._raise_at = None
            primary.alternatives.append(('f raises ValueError at its evaluation no. %d and the difference function catches it' % (k + 1), res))
        return primary

    def _run_once(self, fn, dim, x, h, xs, hsyms, xatoms):
        I = self.interp
        bic = self.bicomplex
        calls = []

        def user_f(arg, *extra, **kw):
            if extra or kw:
                raise AnalysisError('difference function passes extra arguments to f')
            where = I.where()
            if isinstance(arg, Obj) and arg.cls.is_subclass_of(bic):
                z1, z2 = arg.attrs['z1'], arg.attrs['z2']
                off = self._offset(z1, xs, dim, xatoms, z2)
                key = tuple(off)
                calls.append((key, where, 'bicomplex'))
                if getattr(self, '_raise_at', None) is not None and len(calls) - 1 == self._raise_at:
                    from .ndarr import InterpRaise
                    raise InterpRaise('math domain error', 'ValueError')
                o = Obj(bic)
                o.attrs['z1'] = FV.atom(key, 'A')
                o.attrs['z2'] = FV.atom(key, 'B')
                return o
            off = self._offset(arg, xs, dim, xatoms, None)
            key = tuple(off)
            calls.append((key, where, 'plain'))
            if getattr(self, '_raise_at', None) is not None and len(calls) - 1 == self._raise_at:
                from .ndarr import InterpRaise
                raise InterpRaise('math domain error', 'ValueError')      # the point was evaluated; f has no value there
            return FV.atom(key, 'A')

        f_x = FV.atom(FX_KEY, 'A')
        saved_steps = I.steps
        value = fn(user_f, f_x, x, h)
        return StencilResult(value, calls, dim, hsyms)

    def _offset(self, arg, xs, dim, xatoms, z2):
        if dim is None:
            vals = [arg.item() if isinstance(arg, Arr) and arg.size == 1 else arg]
            z2v = [z2.item() if isinstance(z2, Arr) and z2.size == 1 else z2] if z2 is not None else [0]
        else:
            if not isinstance(arg, Arr) or arg.shape != (dim,):
                raise AnalysisError('f called with an argument of shape %r instead of %r'
                                    % (getattr(arg, 'shape', None), (dim,)))
            vals = arg.items()
            if z2 is not None:
                if not isinstance(z2, Arr) or z2.shape != (dim,):
                    raise AnalysisError('bicomplex second component of unexpected shape')
                z2v = z2.items()
            else:
                z2v = [0] * dim
        off = []
        for v, xk, w in zip(vals, xs, z2v):
            d = _as_poly(v) - xk + Poly.const(Z8.J) * _as_poly(w)
            if d.atoms() & xatoms:
                wit = ndarr.offset_depends_on_point(d, xatoms)
                if wit is not None:
                    raise NotAnOffset('evaluation point is not x + offset: %s' % (repr(v)[:200],), wit)
                raise AnalysisError('evaluation point is not x + offset: %r' % (v,))
            off.append(d)
        return off


# ------------------------------------------------------------------ Taylor signatures
def taylor_signature(fv, hsyms, dim, max_total, min_total=0, valued=None):
    """{alpha (tuple, len = max(dim,1)): Poly with real coefficients in the h symbols}
    such that   value = sum_alpha sig[alpha] * D^alpha f(x) / alpha!   (formal Taylor series, f real analytic,
    x and h real).  Only |alpha| in [min_total, max_total] is returned.

    valued = 'u' / 'v': f = u + i v is complex *valued* with u, v real analytic and every offset real (real-step
    methods); the value is sum sigU[alpha] D^alpha u / alpha! + sum sigV[alpha] D^alpha v / alpha!.  'u' returns sigU,
    'v' returns sigV / i, so both are to be compared with the signature expected for a real valued function."""
    if not isinstance(fv, FV):
        if isinstance(fv, (int, Fr, Poly)) and _as_poly(fv).is_zero():
            return {}
        raise AnalysisError('stencil value is not a combination of function values: %r' % (fv,))
    nvar = 1 if dim is None else dim
    sig = {}
    pow_cache = {}

    def power(off_k, e):
        key = (off_k, e)
        if key not in pow_cache:
            pow_cache[key] = off_k ** e
        return pow_cache[key]

    for proj, inner in fv.terms.items():
        for total in range(min_total, max_total + 1):
            for alpha in multi_indices(nvar, total):
                acc = Poly.const(0)
                for (off, comp), coef in inner.items():
                    if off == FX_KEY:
                        if total != 0:
                            continue
                        term = coef if comp == 'A' else Poly.const(0)
                    else:
                        if off and isinstance(off[-1], tuple) and off[-1] and off[-1][0] == 'args':
                            off = off[:-1]
                        m = Poly.const(1)
                        for k in range(nvar):
                            if alpha[k]:
                                m = m * power(off[k], alpha[k])
                                if m.is_zero():
                                    break
                        if m.is_zero():
                            continue
                        part = m.comp(0) if comp == 'A' else m.comp(1)
                        term = coef * part
                    acc = acc + term
                if acc.is_zero():
                    continue
                if acc.has_j():
                    raise AnalysisError('bicomplex coefficient outside a Bicomplex component')
                if valued is not None:
                    if proj is None:
                        val = acc
                    elif proj == 're':
                        val = acc if valued == 'u' else Poly.const(0)
                    else:
                        val = acc * Poly.const(Z8.I).inv() if valued == 'v' else Poly.const(0)
                    if not val.is_zero():
                        sig[alpha] = sig.get(alpha, Poly.const(0)) + val
                    continue
                if proj is None:
                    if not acc.is_real():
                        raise AnalysisError('difference quotient returns a complex combination without projection')
                    val = acc
                elif proj == 're':
                    val = acc.real()
                else:
                    val = acc.imag()
                if not val.is_zero():
                    sig[alpha] = sig.get(alpha, Poly.const(0)) + val
    return {a: v for a, v in sig.items() if not v.is_zero()}


def offsets_of(result):
    """Distinct evaluation offsets (tuples of Poly), in call order, with where/kind."""
    seen, out = set(), []
    for key, where, kind in result.calls:
        if key not in seen:
            seen.add(key)
            out.append((key, where, kind))
    return out


def n_points(fv):
    pts = set()
    for inner in fv.terms.values():
        for (off, comp) in inner:
            pts.add(off)
    return len(pts)


def fx_weight(fv):
    """Total coefficient carried by the f_x parameter (Poly), summed over projections."""
    tot = Poly.const(0)
    if not isinstance(fv, FV):
        return tot
    for proj, inner in fv.terms.items():
        for (off, comp), coef in inner.items():
            if off == FX_KEY:
                tot = tot + coef
    return tot


def fx_used(fv):
    if not isinstance(fv, FV):
        return False
    return any(off == FX_KEY for inner in fv.terms.values() for (off, comp) in inner)
