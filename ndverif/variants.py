"""Self validation of the checker: single-edit variants of the analysed tree (scratch copies outside /repo
and /verif, removed immediately) that must fire (F) or must stay silent (S).  Filled in per property."""
import os


def self_validate(prop, tier, repo_root, rep, seed):
    return None


def selftest_cli(props, repo_root, jobs):
    print('no variants registered yet')
    return 0
