"""Self validation of the checker (DESIGN.md section 3 / Appendix A).

Each variant is a single textual edit of the analysed tree, applied to a scratch copy (mkdtemp outside /repo and
/verif, removed immediately).  F = the property's check must report a violation (optionally by the named rule),
S = the check must stay silent (behaviour preserving edit).  A variant whose anchor text is not present in the
tree being analysed is skipped, never failed.  The quick tier runs one F variant (rotating with VERIF_SEED) as the
'positive example that must match on every run'; the thorough tier runs the whole table in parallel.
The table is the checker's regression suite - it is not evidence about the repository.
"""
import concurrent.futures
import os
import shutil
import subprocess
import sys
import tempfile

FD = 'finite_difference.py'
CORE = 'core.py'
EXT = 'extrapolation.py'
LIM = 'limits.py'
SG = 'step_generators.py'
MC = 'multicomplex.py'
FB = 'fornberg.py'
SP = 'nd_scipy.py'

# (name, file, old, new, kind, expected rule or None)
V = {}

V['C01'] = [
    ('offset[6] 3->1', FD, 'offset = [1, 1, 2, 2, 4, 1, 3][parity]', 'offset = [1, 1, 2, 2, 4, 1, 1][parity]', 'F', None),
    ('c_0[4] 24->12', FD, 'c_0 = [1.0, 1.0, 1.0, 2.0, 24.0, 1.0, 6.0][parity]', 'c_0 = [1.0, 1.0, 1.0, 2.0, 12.0, 1.0, 6.0][parity]', 'F', 'R-RULEROW'),
    ('flip list loses n%8==6', FD, '(self.n % 8 in [3, 4, 5, 6])', '(self.n % 8 in [3, 4, 5])', 'F', 'R-RULEROW'),
    ('complex_odd_higher .real->.imag', FD, 'return ((3 * _SQRT_J) * (f(x + i_h) - f(x - i_h))).real', 'return ((3 * _SQRT_J) * (f(x + i_h) - f(x - i_h))).imag', 'F', None),
    ('complex_even_higher drops 2*f_x', FD, 'return 12.0 * (f(x + i_h) + f(x - i_h) - 2 * f_x).real', 'return 12.0 * (f(x + i_h) + f(x - i_h)).real', 'F', None),
    ('h**n -> h**(n-1)', FD, 'der_init = f_diff / (h ** self.n)', 'der_init = f_diff / (h ** (self.n - 1))', 'F', 'R-E2E'),
    ('convolution origin', FD, 'f_diff = convolve(f_del, fd_rule[::-1], axis=0, origin=n_r // 2)', 'f_diff = convolve(f_del, fd_rule[::-1], axis=0, origin=(n_r + 1) // 2)', 'F', 'R-E2E'),
    ('eval_first_condition drops central', FD, "return ((even_derivative and self.method in ('central', 'central2')) or", "return ((even_derivative and self.method in ('central2',)) or", 'F', 'R-E2E'),
    ('richardson order = self.order', CORE, '        order = self.method_order\n        step = self.fd_rule.richardson_step', '        order = self.order\n        step = self.fd_rule.richardson_step', 'F', 'R-E2E'),
    ('rule_index off by one', FD, 'rule_index = order // step', 'rule_index = (order + 1) // step', 'F', None),
    ('_fd_matrix exponent', FD, 'inv_sr ** (i * (step * j + offset))', 'inv_sr ** (i * (step * j) + offset)', 'F', None),
    ('zero order evaluates at x+1', CORE, 'results = [self.fun(x_i, *args, **kwds)]', 'results = [self.fun(x_i + 1, *args, **kwds)]', 'F', 'R-ZERO'),
    ('central written as 0.5*', FD, 'return (f(x0i + h) - f(x0i - h)) / 2.0', 'return 0.5 * (f(x0i + h) - f(x0i - h))', 'S', None),
    ('tables as tuples', FD, 'step = [1, 2, 2, 4, 4, 4, 4][parity]', 'step = (1, 2, 2, 4, 4, 4, 4)[parity]', 'S', None),
    ('i_h inlined', FD, '        i_h = h * _SQRT_J\n        return (f(x + i_h) + f(x - i_h)).imag', '        return (f(x + h * _SQRT_J) + f(x - h * _SQRT_J)).imag', 'S', None),
    ('flip list as a set', FD, '(self.n % 8 in [3, 4, 5, 6])', '(self.n % 8 in {3, 4, 5, 6})', 'S', None),
    ('_vstack ravels in memory order', FD, "        f_del = np.vstack([np.ravel(r) for r in sequence])\n        one = np.ones(original_shape)\n        h = np.vstack([np.ravel(one * step) for step in steps])\n        _assert(f_del.size == h.size, 'fun did not return data of correct '\n                'size (it must be vectorized)')\n        return f_del, h, original_shape\n\n    def apply", "        f_del = np.vstack([np.ravel(r, order='K') for r in sequence])\n        one = np.ones(original_shape)\n        h = np.vstack([np.ravel(one * step, order='K') for step in steps])\n        _assert(f_del.size == h.size, 'fun did not return data of correct '\n                'size (it must be vectorized)')\n        return f_del, h, original_shape\n\n    def apply", 'F', 'R-ARRAY'),
    ('convolve drops kwds for the imaginary part', EXT, "return convolve1d(seq.real, rule, **kwds) + 1j * convolve1d(seq.imag, rule, **kwds)", "return convolve1d(seq.real, rule, **kwds) + 1j * convolve1d(seq.imag, rule)", 'F', 'R-E2E'),
]
V['C06'] = [v for v in V['C01'] if v[0] in ('offset[6] 3->1', 'c_0[4] 24->12', 'flip list loses n%8==6', 'complex_odd_higher .real->.imag',
                                             'rule_index off by one', '_fd_matrix exponent', 'central written as 0.5*', 'tables as tuples',
                                             'flip list as a set')] + [
    ('richardson_step complex always 2', FD, 'complex_step = 4 if self._complex_high_order else 2', 'complex_step = 2', 'F', None),
    ('cache key without parity', FD, 'fd_rules = FD_RULES.get((step_ratio, parity, num_terms))\n        if fd_rules is None:\n            fd_mat = self._fd_matrix(step_ratio, parity, num_terms)\n            fd_rules = linalg.pinv(fd_mat)\n            FD_RULES[(step_ratio, parity, num_terms)] = fd_rules',
     'fd_rules = FD_RULES.get((step_ratio, num_terms))\n        if fd_rules is None:\n            fd_mat = self._fd_matrix(step_ratio, parity, num_terms)\n            fd_rules = linalg.pinv(fd_mat)\n            FD_RULES[(step_ratio, num_terms)] = fd_rules', 'F', 'R-CACHE'),
    ('complex high order flag frozen at construction', FD, "    @property\n    def _complex_high_order(self):\n        return self.method == 'complex' and (self.n > 1 or self.order >= 4)", "    @property\n    def _complex_high_order(self):\n        if not hasattr(self, '_cho'):\n            self._cho = self.method == 'complex' and (self.n > 1 or self.order >= 4)\n        return self._cho", 'F', 'R-SETTER'),
]
V['C02'] = [
    ('_eval_first drops full_output', CORE, 'if self.fd_rule.eval_first_condition or self.full_output:', 'if self.fd_rule.eval_first_condition:', 'F', 'R-FVALUE'),
    ('final_step from arithmetic', LIM, 'final_step = steps.flat[idx].reshape(shape)', 'final_step = (0.5 * steps).flat[idx].reshape(shape)', 'F', 'R-GATHER'),
    ('abs removed from error', EXT, '        err = np.abs(np.diff(new_sequence, axis=0)) * fact', '        err = np.diff(new_sequence, axis=0) * fact', 'F', 'R-NONNEG'),
    ('info fields swapped', LIM, 'return der.flat[idx].reshape(shape), _Limit.info(err, final_step, idx)', 'return der.flat[idx].reshape(shape), _Limit.info(final_step, err, idx)', 'F', 'R-INFO'),
    ('dea3 abserr sign', EXT, 'abserr = err1 + err2 + np.where(converged, tol2 * 10, np.abs(result - e_2))', 'abserr = err1 + err2 - np.where(converged, tol2 * 10, np.abs(result - e_2))', 'F', 'R-NONNEG'),
    ('gathers reordered', LIM, '        final_step = steps.flat[idx].reshape(shape)\n        err = errors.flat[idx].reshape(shape)', '        err = errors.flat[idx].reshape(shape)\n        final_step = steps.flat[idx].reshape(shape)', 'S', None),
    ('single estimate error proportional to the value', EXT, 'return (np.abs(new_sequence) * EPS + steps) * fact', 'return np.abs(new_sequence) * (EPS + steps) * fact', 'F', 'R-FLOOR'),
    ('single estimate error: terms commuted', EXT, 'return (np.abs(new_sequence) * EPS + steps) * fact', 'return (steps + EPS * np.abs(new_sequence)) * fact', 'S', None),
    ('Jacobian steps laid out (m, n)', CORE, '        if np.ndim(fxi) == 0:\n            return steps', '        if np.ndim(fxi) == 0:\n            return steps\n        if np.ndim(fxi) == 1:\n            return [np.outer(np.ones(np.shape(fxi)), h) for h in steps]', 'F', 'R-GATHER'),
]
V['C03'] = [
    ('central Jacobian differences on one work copy of x', FD, '        return np.array([(f(x + hi) - f(x - hi)) / 2.0 for hi in steps])',
     '        x_k = np.array(x, dtype=float)\n        out = []\n        for k in range(n):\n            x_k[k] = x[k] + h[k]\n            f_plus = f(x_k)\n            x_k[k] = x[k] - h[k]\n            f_minus = f(x_k)\n            x_k[k] = x[k]\n            out.append((f_plus - f_minus) / 2.0)\n        return np.array(out)', 'F', 'R-ARGVIEW'),
    ('central Jacobian differences on fresh copies of x', FD, '        return np.array([(f(x + hi) - f(x - hi)) / 2.0 for hi in steps])',
     '        out = []\n        for k in range(n):\n            x_p, x_m = np.array(x, dtype=float), np.array(x, dtype=float)\n            x_p[k] = x[k] + h[k]\n            x_m[k] = x[k] - h[k]\n            out.append((f(x_p) - f(x_m)) / 2.0)\n        return np.array(out)', 'S', None),
    ('increments uses h[0]', FD, '            e_i[k] = h[k]\n            yield e_i', '            e_i[k] = h[0]\n            yield e_i', 'F', None),
    ('increments not reset', FD, '            yield e_i\n            e_i[k] = 0', '            yield e_i', 'F', None),
    ('original_shape swap removed', FD, '            original_shape[:2] = original_shape[1::-1]\n', '', 'F', 'R-AXES'),
    ('steps not transposed', FD, '            h = np.vstack([np.atleast_1d(r).transpose(axes).ravel() for r in steps])', '            h = np.vstack([np.atleast_1d(r).ravel() for r in steps])', 'F', 'R-AXES'),
    ('Gradient squeeze dropped', CORE, '        return result.squeeze()', '        return result', 'F', 'R-GRAD'),
    ('directionaldiff not normalised', CORE, 'vec = np.reshape(vec / np.linalg.norm(vec.ravel()), x0.shape)', 'vec = np.reshape(vec, x0.shape)', 'F', 'R-DIRDIFF'),
    ('revert fix 5d6c82e (_expand_steps)', CORE, '        if np.ndim(fxi) == 0:\n            return steps', '        if np.size(fxi) == 1:\n            return steps', 'F', 'R-AXES'),
    ('Jacobian central as 0.5*', FD, 'return np.array([(f(x + hi) - f(x - hi)) / 2.0 for hi in steps])', 'return np.array([0.5 * (f(x + hi) - f(x - hi)) for hi in steps])', 'S', None),
]
V['C04'] = [
    ('f(x) no longer evaluated first for backward', FD, "                self.method in ['forward', 'backward'] or", "                self.method in ['forward'] or", 'F', None),
    ('central_even diag divisor', FD, '(4. * hess[i, i])', '(2. * hess[i, i])', 'F', 'R-HESS-SIGNATURE'),
    ('central_even sign slip', FD, '- f(x - e_i + e_j) + f(x - e_i - e_j)) / (4. * hess[j, i])', '- f(x + e_i + e_j) + f(x - e_i - e_j)) / (4. * hess[j, i])', 'F', 'R-HESS-SIGNATURE'),
    ('forward uses g[i] twice', FD, '- g[i] - g[j] + f_x) / hess[j, i]', '- 2 * g[i] + f_x) / hess[j, i]', 'F', 'R-HESS-SIGNATURE'),
    ('mirror removed in complex_even', FD, '- f(x + 1j * eee[i] - eee[j])).imag / hess[j, i]\n                hess[j, i] = hess[i, j]', '- f(x + 1j * eee[i] - eee[j])).imag / hess[j, i]', 'F', 'R-MIRROR'),
    ('Hessian default order table', CORE, '            order = dict(backward=1, forward=1).get(method, 2)', '            order = dict(backward=2, forward=2).get(method, 2)', 'S', None),
    ('Hessdiag central2 coefficient', FD, '+ 2 * f_x - 2 * f(x + hi) - 2 * f(x - hi)) / 4.0', '+ 2 * f_x - 2 * f(x + hi) - 2 * f(x - hi)) / 2.0', 'F', None),
    ('revert fix 6259e14 (length-1 value)', CORE, '            if np.ndim(f_x) == 1 and np.size(f_x) == 1:\n                return f_x[0]\n', '', 'F', 'R-HESS-SHAPE'),
    ('eee[i, :] -> eee[i]', FD, 'hess[i, j] = (f(x + eee[i, :] + eee[j, :]) - g[i] - g[j] + f_x) / hess[j, i]', 'hess[i, j] = (f(x + eee[i] + eee[j]) - g[i] - g[j] + f_x) / hess[j, i]', 'S', None),
    ('forward buffer takes the dtype of f(x)', FD, "        g = np.empty(n, dtype=dtype)\n        for i in range(n):\n            g[i] = f(x + eee[i, :])\n\n        hess = np.empty((n, n), dtype=dtype)\n        np.outer(h, h, out=hess)\n        for i in range(n):\n            for j in range(i, n):\n                hess[i, j] = (f(x + eee[i, :] + eee[j, :]) - g[i] - g[j] + f_x)", "        g = np.full(n, f_x)\n        for i in range(n):\n            g[i] = f(x + eee[i, :])\n\n        hess = np.empty((n, n), dtype=dtype)\n        np.outer(h, h, out=hess)\n        for i in range(n):\n            for j in range(i, n):\n                hess[i, j] = (f(x + eee[i, :] + eee[j, :]) - g[i] - g[j] + f_x)", 'F', 'R-INTDTYPE'),
    ('length-1 value kept as a view', CORE, '            if np.ndim(f_x) == 1 and np.size(f_x) == 1:\n                return f_x[0]', '            if np.ndim(f_x) >= 1 and np.size(f_x) == 1:\n                return np.squeeze(f_x)', 'F', 'R-HESS-SHAPE'),
]
V['C05'] = [
    ('Bicomplex constructor clips the real part of the first component', MC, '        self.z1 = np.asanyarray(z1, dtype=dtype)', '        z1 = np.asanyarray(z1, dtype=dtype)\n        self.z1 = np.clip(z1.real, -1e150, 1e150) + 1j * z1.imag', 'F', 'R-ADMISSIBLE'),
    ('Hessian backward passes +h', FD, 'return HessianDifferenceFunctions._forward(f, f_x, x, -h)', 'return HessianDifferenceFunctions._forward(f, f_x, x, h)', 'F', 'R-ADMISSIBLE'),
    ('Hessdiag backward above x', FD, '        partials = [f_x - f(x - hi) for hi in increments]', '        partials = [f_x - f(x + hi) for hi in increments]', 'F', 'R-ADMISSIBLE'),
    ('Jacobian forward below x', FD, 'return np.array([f(x + hi) - f_x for hi in steps])', 'return np.array([f_x - f(x - hi) for hi in steps])', 'F', 'R-ADMISSIBLE'),
    ('multicomplex shifts the real part', FD, '        z = Bicomplex(x + 1j * h, 0)', '        z = Bicomplex(x + h + 1j * h, 0)', 'F', 'R-ADMISSIBLE'),
    ('central not symmetric', FD, 'return (f(x0i + h) - f(x0i - h)) / 2.0', 'return (f(x0i + h) - f(x0i - 2 * h)) / 2.0', 'F', 'R-ADMISSIBLE'),
    ('zero filter removed', SG, '            if (np.abs(step) > 0).all():\n                yield step', '            yield step', 'F', 'R-STEPSIGN'),
    ('operands swapped', FD, 'return f(x0i + h) - f_x0i', 'return f(h + x0i) - f_x0i', 'S', None),
    ('central skips f(x-h) when f(x+h) is NaN', FD, '        return (f(x0i + h) - f(x0i - h)) / 2.0', '        f_plus = f(x0i + h)\n        if np.all(np.isnan(f_plus)):\n            return f_plus\n        return (f_plus - f(x0i - h)) / 2.0', 'F', 'R-ADMISSIBLE'),
    ('central evaluates both points before the NaN test', FD, '        return (f(x0i + h) - f(x0i - h)) / 2.0', '        f_plus, f_minus = f(x0i + h), f(x0i - h)\n        if np.all(np.isnan(f_plus)):\n            return f_plus\n        return (f_plus - f_minus) / 2.0', 'S', None),
    ('central falls back to a one-sided formula when f raises', FD, '        return (f(x0i + h) - f(x0i - h)) / 2.0', '        try:\n            return (f(x0i + h) - f(x0i - h)) / 2.0\n        except ValueError:\n            return (4 * f(x0i + h) - f(x0i + 2 * h) - 3 * f(x0i)) / 2.0', 'F', 'R-ADMISSIBLE'),
]
V['C07'] = [
    ('revert fix 4fd4c6c (signed step in the single-estimate error)', EXT, '            return (np.abs(new_sequence) * EPS + np.abs(steps)) * fact', '            return (np.abs(new_sequence) * EPS + steps) * fact', 'F', 'R-NONNEG'),
    ('rule memo keyed before the term count is clamped', EXT, '        num_terms = min(self.num_terms, sequence_length - 1)\n        if num_terms > 0:\n            r_mat = self._r_matrix(self.step_ratio, self.step, num_terms, self.order)\n            return linalg.pinv(r_mat)[0]\n        return np.ones((1,))', "        key = (self.step_ratio, self.step, self.num_terms, self.order)\n        memo = getattr(self, '_memo', None)\n        if memo is not None and memo[0] == key:\n            return memo[1].copy()\n        num_terms = min(self.num_terms, sequence_length - 1)\n        if num_terms > 0:\n            r_mat = self._r_matrix(self.step_ratio, self.step, num_terms, self.order)\n            rule = linalg.pinv(r_mat)[0]\n        else:\n            rule = np.ones((1,))\n        self._memo = (key, rule)\n        return rule.copy()", 'F', 'R-REUSE'),
    ('rule memo keyed by the clamped term count', EXT, '        num_terms = min(self.num_terms, sequence_length - 1)\n        if num_terms > 0:\n            r_mat = self._r_matrix(self.step_ratio, self.step, num_terms, self.order)\n            return linalg.pinv(r_mat)[0]\n        return np.ones((1,))', "        num_terms = min(self.num_terms, sequence_length - 1)\n        key = (self.step_ratio, self.step, num_terms, self.order)\n        memo = getattr(self, '_memo', None)\n        if memo is not None and memo[0] == key:\n            return memo[1].copy()\n        if num_terms > 0:\n            r_mat = self._r_matrix(self.step_ratio, self.step, num_terms, self.order)\n            rule = linalg.pinv(r_mat)[0]\n        else:\n            rule = np.ones((1,))\n        self._memo = (key, rule)\n        return rule.copy()", 'S', None),
    ('r_matrix exponent shifted', EXT, 'r_mat[:, 1:] = (1.0 / step_ratio) ** (i * (step * j + order))', 'r_mat[:, 1:] = (1.0 / step_ratio) ** (i * (step * (j + 1) + order))', 'F', 'R-EXTRAP'),
    ('rule takes last row', EXT, 'return linalg.pinv(r_mat)[0]', 'return linalg.pinv(r_mat)[-1]', 'F', 'R-EXTRAP'),
    ('short sequences not handled', EXT, 'num_terms = min(self.num_terms, sequence_length - 1)', 'num_terms = self.num_terms', 'F', None),
    ('steps trimmed at the wrong end', EXT, 'return new_sequence[:m], abserr[:m], steps[:m]', 'return new_sequence[:m], abserr[:m], steps[n_r:]', 'F', 'R-SHORT'),
    ('imaginary part with reversed rule', EXT, '+ 1j * convolve1d(seq.imag, rule, **kwds)', '+ 1j * convolve1d(seq.imag, rule[::-1], **kwds)', 'F', 'R-EXTRAP'),
    ('abs removed', EXT, '        err = np.abs(np.diff(new_sequence, axis=0)) * fact', '        err = np.diff(new_sequence, axis=0) * fact', 'F', 'R-NONNEG'),
    ('ratio power rewritten', EXT, 'r_mat[:, 1:] = (1.0 / step_ratio) ** (i * (step * j + order))', 'r_mat[:, 1:] = step_ratio ** (-i * (step * j + order))', 'S', None),
    ('1-d sequence promoted to one row', EXT, '    def __call__(self, sequence, steps):\n        num_steps = sequence.shape[0]', '    def __call__(self, sequence, steps):\n        sequence, steps = np.atleast_2d(sequence, steps)\n        num_steps = sequence.shape[0]', 'F', 'R-AXIS0'),
    ('error scale from dot(rule, rule)', EXT, 'cov1 = np.sum(np.abs(rule) ** 2)', 'cov1 = np.dot(rule, rule)', 'F', 'R-NONNEG'),
    ('error scale from vdot(rule, rule)', EXT, 'cov1 = np.sum(np.abs(rule) ** 2)', 'cov1 = np.real(np.vdot(rule, rule))', 'S', None),
]
V['C08'] = [
    ('nanmin over the whole table', LIM, 'min_errors = np.nanmin(errors, axis=0)', 'min_errors = np.nanmin(errors)', 'F', None),
    ('percentile without axis', LIM, 'p25, median, p75 = np.percentile(der, [25,50, 75], axis=0)', 'p25, median, p75 = np.percentile(der, [25,50, 75])', 'F', 'R-COLSEP'),
    ('kwds not forwarded', CORE, '            return fun(x, *args, **kwds)', '            return fun(x, *args)', 'F', 'R-FORWARD'),
    ('shape from the last row', FD, "        original_shape = np.shape(sequence[0])\n        f_del = np.vstack([np.ravel(r) for r in sequence])\n        one = np.ones(original_shape)\n        h = np.vstack([np.ravel(one * step) for step in steps])\n        _assert(f_del.size == h.size, 'fun did not return data of correct '\n                'size (it must be vectorized)')\n        return f_del, h, original_shape\n\n    def apply",
     "        original_shape = np.shape(sequence[0])\n        f_del = np.vstack([np.ravel(r) for r in sequence])\n        one = np.ones(original_shape)\n        h = np.vstack([np.ravel(one * step) for step in steps])\n        _assert(f_del.size == h.size, 'fun did not return data of correct '\n                'size (it must be vectorized)')\n        return f_del, h, np.shape(np.ravel(sequence[0]))\n\n    def apply", 'F', 'R-SHAPE'),
    ('revert fix ae04deb (all-NaN column)', LIM, "        all_nan = np.all(np.isnan(errors), axis=0)\n        if np.any(all_nan):\n            # an element without any valid estimate must not affect the other elements\n            warnings.warn('All-NaN slice encountered')\n            errors = np.where(all_nan, 0.0, errors)\n", '        all_nan = np.zeros(shape[1], dtype=bool)\n', 'F', 'R-ARGMIN'),
    ('np.abs -> abs', LIM, '        a_median = np.abs(median)', '        a_median = abs(median)', 'S', None),
    ('steps with NaN dropped for the whole array', CORE, "        fxi = self._eval_first(f, x_i)\n        results = [diff(f, fxi, x_i, h) for h in steps]\n", "        fxi = self._eval_first(f, x_i)\n        results = [diff(f, fxi, x_i, h) for h in steps]\n        if bool(np.isnan(results[0]).any()) and len(results) > self.n + self.order + 2:\n            results, steps = results[1:], steps[1:]\n", 'F', 'R-COLSEP'),
    ('every NaN error neutralised', LIM, '            errors = np.where(all_nan, 0.0, errors)', '            errors = np.where(np.isnan(errors), 0.0, errors)', 'F', 'R-ARGMIN'),
]
V['C09'] = [
    ('n setter forgets _set_derivative', CORE, '        self.fd_rule.n = value\n        self._set_derivative()', '        self.fd_rule.n = value', 'F', 'R-HISTORY'),
    ('cache key without parity', FD, V['C06'][-1][2], V['C06'][-1][3], 'F', None),
    ('_state assigned after use', SG, "        self._state = _STATE(np.asarray(x), method, n, order)\n        base_step, step_ratio = self.base_step * self.step_nom, self.step_ratio",
     "        base_step, step_ratio = self.base_step * self.step_nom, self.step_ratio\n        self._state = _STATE(np.asarray(x), method, n, order)", 'F', 'R-HISTORY'),
    ('rule row negated in place', FD, '        if self._flip_fd_rule:\n            return -fd_rules[rule_index]\n        return fd_rules[rule_index]', '        if self._flip_fd_rule:\n            fd_rules[rule_index] *= -1\n        return fd_rules[rule_index]', 'F', 'R-HISTORY'),
    ('richardson only set once', CORE, '        self.set_richardson_rule(step_ratio, self.richardson_terms)\n\n        return self.fd_rule.apply(results, steps, step_ratio), fxi',
     "        if not hasattr(self, '_rich_done'):\n            self.set_richardson_rule(step_ratio, self.richardson_terms)\n            self._rich_done = True\n\n        return self.fd_rule.apply(results, steps, step_ratio), fxi", 'F', 'R-HISTORY'),
    ('cache via setdefault', FD, '            FD_RULES[(step_ratio, parity, num_terms)] = fd_rules', '            FD_RULES.setdefault((step_ratio, parity, num_terms), fd_rules)', 'S', None),
    ('base step scaled in place', SG, 'base_step, step_ratio = self.base_step * self.step_nom, self.step_ratio', 'base_step, step_ratio = self.base_step, self.step_ratio\n        base_step *= self.step_nom', 'F', 'R-NOMUTATE'),
    ('cache entry inverted in place after the store', FD, '            fd_mat = self._fd_matrix(step_ratio, parity, num_terms)\n            fd_rules = linalg.pinv(fd_mat)\n            FD_RULES[(step_ratio, parity, num_terms)] = fd_rules', '            fd_rules = self._fd_matrix(step_ratio, parity, num_terms)\n            FD_RULES[(step_ratio, parity, num_terms)] = fd_rules\n            fd_rules[...] = linalg.pinv(fd_rules)', 'F', 'R-CACHEKEY'),
    ('method setter normalises the order', CORE, '    def method(self, method):\n        self.fd_rule.method = method\n', '    def method(self, method):\n        self.fd_rule.method = method\n        self.fd_rule.order = self.fd_rule.method_order\n', 'F', 'R-HISTORY'),
]
V['C10'] = [
    ('MaxStepGenerator: its defaults override the options of the caller', SG, '                             use_exact_steps=use_exact_steps,\n                             check_num_steps=check_num_steps, scale=scale)',
     '                             use_exact_steps=False,\n                             check_num_steps=check_num_steps, scale=500)', 'F', 'R-OPTIONS'),
    ('zero filter keeps a step when any element is non zero', SG, '            if (np.abs(step) > 0).all():', '            if np.any(step != 0):', 'F', 'R-ZEROFILTER'),
    ('zero filter through np.all', SG, '            if (np.abs(step) > 0).all():', '            if np.all(np.abs(step) > 0):', 'S', None),
    ('Min generator ascending', SG, '        return range(self.num_steps - 1, -1, -1)', '        return range(self.num_steps)', 'F', None),
    ('offset inside the sign', SG, 'step = base_step * step_ratio ** (sgn * i + offset)', 'step = base_step * step_ratio ** (sgn * (i + offset))', 'F', 'R-CLOSEDFORM'),
    ('num_steps check always applied', SG, '            if self.check_num_steps:\n                num_steps = max(num_steps, min_num_steps)', '            num_steps = max(num_steps, min_num_steps)', 'F', 'R-OPTIONS'),
    ('default ratio for n=1', SG, 'step_ratio = {1: 2.0}.get(self._state.n, 1.6)', 'step_ratio = {1: 1.6}.get(self._state.n, 1.6)', 'F', 'R-DEFAULTS'),
    ('exact steps ignored', SG, '        if self.use_exact_steps:\n            base_step = make_exact(base_step)', '        if True:\n            base_step = make_exact(base_step)', 'F', 'R-OPTIONS'),
    ('min_num_steps too small', SG, '        num_steps = int(n + order - 1)\n        divisor', '        num_steps = int(n + order - 1) // 3\n        divisor', 'F', None),
    ('ratio default as conditional', SG, 'step_ratio = {1: 2.0}.get(self._state.n, 1.6)', 'step_ratio = 2.0 if self._state.n == 1 else 1.6', 'S', None),
    ('zero test on the base step only', SG, '        for i in self._range():\n            step = base_step * step_ratio ** (sgn * i + offset)\n            if (np.abs(step) > 0).all():\n                yield step', '        if not (np.abs(base_step) > 0).all():\n            return\n        for i in self._range():\n            yield base_step * step_ratio ** (sgn * i + offset)', 'F', 'R-ZEROFILTER'),
    ('make_exact before the nominal step', SG, 'base_step, step_ratio = self.base_step * self.step_nom, self.step_ratio', 'base_step, step_ratio = self.base_step, self.step_ratio', 'F', None),
]
V['C11'] = [
    ('path names canonicalised by their first letter', LIM, "        self.path = options.pop('path', 'radial')", "        self.path = options.pop('path', 'radial')\n        self.path = dict(r='radial', s='spiral').get(self.path[:1].lower(), self.path)", 'F', 'R-MISUSE'),
    ('revert fix 4107309 (Jacobian guard)', CORE, "        if self.method in ['complex', 'multicomplex']:\n            self._raise_error_if_any_is_complex(x_i, fxi)\n        results = [diff(f, fxi, x_i, h) for h in steps]", '        results = [diff(f, fxi, x_i, h) for h in steps]', 'F', 'R-COMPLEXGUARD'),
    ('guard only for complex', CORE, "        if self.method in ['complex', 'multicomplex']:\n            f_x = f(x)", "        if self.method in ['complex']:\n            f_x = f(x)", 'F', 'R-COMPLEXGUARD'),
    ('_assert raises TypeError', CORE, 'def _assert(cond, msg):\n    if not cond:\n        raise ValueError(msg)', 'def _assert(cond, msg):\n    if not cond:\n        raise TypeError(msg)', 'F', None),
    ('steps guard weakened', FD, "        _assert(n_r < num_steps, 'num_steps", "        _assert(n_r <= num_steps + 5, 'num_steps", 'F', 'R-MISUSE'),
    ('residue guard weakened', LIM, "        _assert(pole_order < order, 'order must be at least pole_order+1.')", "        _assert(pole_order <= order, 'order must be at least pole_order+1.')", 'F', 'R-MISUSE'),
    ('fd_derivative length guard dropped', FB, "    _assert(num_x == len(fx), 'len(x) must be equal len(fx)')\n", '', 'F', 'R-MISUSE'),
    ('guard as if/raise', FB, "    _assert(n < num_x, 'len(x) must be larger than n')\n    _assert(num_x == len(fx)", "    if not n < num_x:\n        raise ValueError('len(x) must be larger than n')\n    _assert(num_x == len(fx)", 'S', None),
    ('complex guard after the f(x) shortcut', CORE, "        if self.method in ['complex', 'multicomplex']:\n            f_x = f(x)\n            self._raise_error_if_any_is_complex(x, f_x)\n            return f_x\n        if self.fd_rule.eval_first_condition or self.full_output:\n            return f(x)", "        if self.fd_rule.eval_first_condition or self.full_output:\n            return f(x)\n        if self.method in ['complex', 'multicomplex']:\n            f_x = f(x)\n            self._raise_error_if_any_is_complex(x, f_x)\n            return f_x", 'F', 'R-COMPLEXGUARD'),
    ('Residue order default by truthiness', LIM, '        if order is None:\n            # MethodOrder will always = pole_order + 2\n            order = pole_order + 2', '        order = order or pole_order + 2', 'F', 'R-MISUSE'),
    ('limit steps resized to the data', LIM, '        one = np.ones(original_shape)\n        h = np.vstack([np.ravel(one * step) for step in steps])\n        _assert(f_del.size == h.size', '        h = np.vstack([np.ravel(np.resize(step, original_shape)) for step in steps])\n        _assert(f_del.size == h.size', 'F', 'R-MISUSE'),
]
V['C12'] = [
    ('sec through a reciprocal with the Euclidean norm', MC, '    def sec(self):\n        return 1. / self.cos()\n', '    def reciprocal(self):\n        den = self.norm() ** 2\n        return Bicomplex(self.z1 / den, -self.z2 / den)\n\n    def sec(self):\n        return self.cos().reciprocal()\n', 'F', 'R-DERIVED'),
    ('sec through a reciprocal with the complex modulus', MC, '    def sec(self):\n        return 1. / self.cos()\n', '    def reciprocal(self):\n        den = self.mod_c() ** 2\n        return Bicomplex(self.z1 / den, -self.z2 / den)\n\n    def sec(self):\n        return self.cos().reciprocal()\n', 'S', None),
    ('revert fix 2b04784 (log1p)', MC, '        z1, z2 = self.z1, self.z2\n        # log(mod_c(1 + z)) = 0.5 * log((1 + z1)**2 + z2**2)\n        return Bicomplex(0.5 * np.log1p(z1 * (2 + z1) + z2 * z2), self.arg_c1p())', '        return Bicomplex(np.log1p(self.mod_c()), self.arg_c1p())', 'F', None),
    ('revert fix cf4bd22 (expm1)', MC, '(expm1z1 + 1) * np.sin(self.z2))', 'expm1z1 * np.sin(self.z2))', 'F', 'R-EXPPOLY'),
    ('sin sign', MC, '        z2 = np.sinh(self.z2) * np.cos(self.z1)\n        return Bicomplex(z1, z2)', '        z2 = -np.sinh(self.z2) * np.cos(self.z1)\n        return Bicomplex(z1, z2)', 'F', 'R-EXPPOLY'),
    ('cosh uses cosh(z2)', MC, '        z1 = np.cosh(self.z1) * np.cos(self.z2)', '        z1 = np.cosh(self.z1) * np.cosh(self.z2)', 'F', 'R-EXPPOLY'),
    ('mul sign', MC, 'return Bicomplex(self.z1 * other.z1 - self.z2 * other.z2,', 'return Bicomplex(self.z1 * other.z1 + self.z2 * other.z2,', 'F', 'R-RING'),
    ('mod_c minus', MC, '        r = np.sqrt(r11 + r22)', '        r = np.sqrt(r11 - r22)', 'F', None),
    ('sec uses sin', MC, '        return 1. / self.cos()', '        return 1. / self.sin()', 'F', 'R-DERIVED'),
    ('arctanh inverted', MC, 'return 0.5 * (((1 + self) / (1 - self)).log())', 'return 0.5 * (((1 - self) / (1 + self)).log())', 'F', 'R-DERIVED'),
    ('imag12 alias', MC, '    def imag12(self):\n        return self.z2.imag', '    def imag12(self):\n        return self.z2.real', 'F', 'R-ALIASES'),
    ('factors commuted', MC, '        z1 = np.cosh(self.z2) * np.sin(self.z1)', '        z1 = np.sin(self.z1) * np.cosh(self.z2)', 'S', None),
    ('tan via power', MC, '        return self.sin() / self.cos()', '        return self.sin() * self.cos() ** -1', 'S', None),
    ('revert fix c501130 (arg_c at Re z1 = 0)', MC, '* np.pi * (z1.real < 0)', '* np.pi * (z1.real <= 0)', 'F', 'R-BRANCH'),
    ('arg_c sign via np.sign', MC, 'sign = np.where((z1.real == 0) * (z2.real == 0), 0, np.where(0 <= z2.real, 1, -1))', 'sign = np.sign(z2.real)', 'F', 'R-BRANCH'),
    ('arg_c lower half plane at the axis', MC, 'np.where(0 <= z2.real, 1, -1))', 'np.where(0 < z2.real, 1, -1))', 'S', None),
    ('mod_c memoised', MC, "        r11, r22 = self.z1 * self.z1, self.z2 * self.z2\n        r = np.sqrt(r11 + r22)\n        return r", "        if getattr(self, '_r', None) is None:\n            r11, r22 = self.z1 * self.z1, self.z2 * self.z2\n            self._r = np.sqrt(r11 + r22)\n        return self._r", 'F', None),
    ('singular fallback only when all elements are singular', MC, '        out = (self.log() * other).exp()\n        non_invertible = np.abs(self.mod_c()) < 1e-15\n        if non_invertible.any():\n            out[non_invertible] = self[non_invertible]._pow_singular(other)\n        return out', '        non_invertible = np.abs(self.mod_c()) < 1e-15\n        if non_invertible.all():\n            return self._pow_singular(other)\n        return (self.log() * other).exp()', 'F', 'R-ELEMENTWISE'),
    ('singular fallback for the whole array', MC, '        out = (self.log() * other).exp()\n        non_invertible = np.abs(self.mod_c()) < 1e-15\n        if non_invertible.any():\n            out[non_invertible] = self[non_invertible]._pow_singular(other)\n        return out', '        non_invertible = np.abs(self.mod_c()) < 1e-15\n        if non_invertible.any():\n            return self._pow_singular(other)\n        return (self.log() * other).exp()', 'F', 'R-ELEMENTWISE'),
    ('constructor fills the common shape by repetition (np.resize)', MC, '        z1, z2 = np.broadcast_arrays(z1, z2)', '        z1, z2 = np.asarray(z1), np.asarray(z2)\n        shape = np.broadcast(z1, z2).shape\n        z1, z2 = np.resize(z1, shape), np.resize(z2, shape)', 'F', 'R-ALIASES'),
    ('constructor broadcasts with broadcast_to', MC, '        z1, z2 = np.broadcast_arrays(z1, z2)', '        z1, z2 = np.asarray(z1), np.asarray(z2)\n        shape = np.broadcast(z1, z2).shape\n        z1, z2 = np.broadcast_to(z1, shape), np.broadcast_to(z2, shape)', 'S', None),
]
V['C13'] = [
    ('Shanks sign', EXT, 'sss = 1.0 / delta2 - 1.0 / delta1 + _TINY', 'sss = 1.0 / delta2 + 1.0 / delta1 + _TINY', 'F', 'R-SHANKS'),
    ('abserr sign', EXT, V['C02'][4][2], V['C02'][4][3], 'F', 'R-NONNEG'),
    ('input modified in place', EXT, '        delta2, delta1 = e_2 - e_1, e_1 - e_0', '        e_1 -= 0 * e_0\n        delta2, delta1 = e_2 - e_1, e_1 - e_0', 'F', 'R-NOMUTATE'),
    ('symmetric trims two', EXT, '        return result[:-1], abserr[1:]', '        return result[:-2], abserr[1:]', 'F', 'R-ELEMENTWISE'),
    ('guard on e_2', EXT, 'smalle2 = abs(sss * e_1) <= 1.0e-4', 'smalle2 = abs(sss * e_2) <= 1.0e-4', 'F', 'R-GUARD'),
    ('np.abs -> abs', EXT, 'err2, err1 = np.abs(delta2), np.abs(delta1)', 'err2, err1 = abs(delta2), abs(delta1)', 'S', None),
    ('overflow no longer silenced', EXT, '    with warnings.catch_warnings():\n        warnings.simplefilter("ignore")  # ignore division by zero and overflow\n        delta2, delta1', "    with np.errstate(divide='ignore', invalid='ignore'):\n        delta2, delta1", 'F', 'R-NORAISE'),
    ('noise silenced with errstate(all)', EXT, '    with warnings.catch_warnings():\n        warnings.simplefilter("ignore")  # ignore division by zero and overflow\n        delta2, delta1', "    with np.errstate(all='ignore'):\n        delta2, delta1", 'S', None),
    ('tolerances with an absolute floor (max_abs never below 1)', EXT, '    return np.maximum(np.abs(a), np.abs(b))', '    return np.maximum(np.maximum(np.abs(a), np.abs(b)), 1.0)', 'F', 'R-GUARD'),
    ('irregularity measure of dea3 written as a product of magnitudes', EXT, 'smalle2 = abs(sss * e_1) <= 1.0e-4', 'smalle2 = abs(sss) * abs(e_1) <= 1.0e-4', 'S', None),
    ('irregularity measure of dea3 against the differences', EXT, 'smalle2 = abs(sss * e_1) <= 1.0e-4', 'smalle2 = abs(sss) * np.maximum(err1, err2) <= 1.0e-4', 'F', 'R-GUARD'),
]
V['C14'] = [
    ('EpsAlg returns the other diagonal', EXT, 'estlim = epstab[n % 2]', 'estlim = epstab[(n + 1) % 2]', 'F', 'R-EPSALG'),
    ('EpsAlg loop short', EXT, 'for i in range(n, 0, -1):', 'for i in range(n, 1, -1):', 'F', 'R-EPSALG'),
    ('Dea floor dropped', EXT, '        abserr = max(abserr, 5.0*_EPS*abs(result))\n', '', 'F', 'R-DEA-FLOOR'),
    ('Dea sss sign', EXT, 'sss = 1.0 / delta1 + 1.0 / delta2 - 1.0 / delta3', 'sss = 1.0 / delta1 + 1.0 / delta2 + 1.0 / delta3', 'F', None),
    ('shift parity', EXT, 'i_0 = old_n % 2', 'i_0 = n % 2', 'F', 'R-DEA-TABLE'),
    ('EpsAlg guard EPS', EXT, 'if np.abs(delta) <= 1.0e-60:', 'if np.abs(delta) <= _EPS:', 'F', 'R-EPSALG-GUARD'),
    ('Dea irregular test loses abs', EXT, 'epsinf = abs(sss*e_1)', 'epsinf = sss * e1abs', 'F', 'R-DEA-DEA3'),
    ('revert fix 145ed5d (short-table branch without the floor)', EXT, 'abserr = max(6.0 * abs(result - epstab[0]), 5.0 * _EPS * abs(result))', 'abserr = 6.0 * abs(result - epstab[0])', 'F', 'R-DEA-FLOOR'),
    ('floor of the short-table branch applied after the branches', EXT, '            abserr = max(6.0 * abs(result - epstab[0]), 5.0 * _EPS * abs(result))\n        else:\n            result, abserr, n = self._dea(epstab, n)\n', '            abserr = 6.0 * abs(result - epstab[0])\n        else:\n            result, abserr, n = self._dea(epstab, n)\n        abserr = max(abserr, 5.0 * _EPS * abs(result))\n', 'S', None),
    ('Dea irregular test as a product of magnitudes', EXT, 'epsinf = abs(sss*e_1)', 'epsinf = abs(sss) * e1abs', 'S', None),
    ('EpsAlg table as a shared default argument', EXT, '    def __init__(self):\n        self.epstab = []', '    def __init__(self, epstab=[]):\n        self.epstab = epstab', 'F', 'R-EPSALG'),
    ('EpsAlg table from an optional argument, fresh list per object', EXT, '    def __init__(self):\n        self.epstab = []', '    def __init__(self, epstab=None):\n        self.epstab = [] if epstab is None else list(epstab)', 'S', None),
    ('dea3 irregularity measure differs from the one of Dea', EXT, 'smalle2 = abs(sss * e_1) <= 1.0e-4', 'smalle2 = abs(sss) * np.maximum(err1, err2) <= 1.0e-4', 'F', 'R-DEA-DEA3'),
]
V['C15'] = [
    ('fd_weights from a memoised table, last cached row', FB, '    return fd_weights_all(x, x0, n)[-1]', "    key = (tuple(np.asarray(x).tolist()), x0)\n    tab = _TABLES.get(key)\n    if tab is None or tab.shape[0] < n + 1:\n        tab = _TABLES[key] = fd_weights_all(x, x0, n)\n    return tab[-1]\n\n\n_TABLES = {}", 'F', 'R-ROW'),
    ('fd_weights from a memoised table, row n', FB, '    return fd_weights_all(x, x0, n)[-1]', "    key = (tuple(np.asarray(x).tolist()), x0)\n    tab = _TABLES.get(key)\n    if tab is None or tab.shape[0] < n + 1:\n        tab = _TABLES[key] = fd_weights_all(x, x0, n)\n    return tab[n].copy()\n\n\n_TABLES = {}", 'S', None),
    ('weights[v, j] instead of j-1', FB, 'c_2, c_6, c_7 = c_2 * c_3, j * weights[v, j - 1], weights[v, j]', 'c_2, c_6, c_7 = c_2 * c_3, j * weights[v, j], weights[v, j]', 'F', 'R-LAGRANGE'),
    ('new row uses c_4', FB, 'weights[i, j] = c_1 * (c_6 - c_5 * c_7) / c_2', 'weights[i, j] = c_1 * (c_6 - c_4 * c_7) / c_2', 'F', 'R-LAGRANGE'),
    ('inner loop short', FB, '        for v in range(i):\n            c_3 = x[i] - x[v]', '        for v in range(max(i - 1, 1)):\n            c_3 = x[i] - x[v]', 'F', 'R-LAGRANGE'),
    ('fd_weights takes row 0', FB, '    return fd_weights_all(x, x0, n)[-1]', '    return fd_weights_all(x, x0, n)[0]', 'F', 'R-ROW'),
    ('c_1 .. renamed', FB, '        c_1 = c_2\n', '        c_1 = c_2 * 1\n', 'S', None),
    ('fd_weights memoised by offsets', FB, '    return fd_weights_all(x, x0, n)[-1]', "    key = (n,) + tuple(np.subtract(x, x0).tolist())\n    if key not in _MEMO:\n        _MEMO[key] = fd_weights_all(x, x0, n)[-1]\n    return _MEMO[key].copy()\n\n\n_MEMO = {}", 'F', 'R-MEMO'),
    ('fd_weights tolerant table fast path', FB, '    return fd_weights_all(x, x0, n)[-1]', "    tab = CENTRAL_WEIGHTS_AND_POINTS.get((n, len(x)))\n    if tab is not None:\n        step = (x[-1] - x[0]) / (len(x) - 1)\n        if np.allclose(x, x0 + step * tab[1]):\n            return tab[0] / step ** n\n    return fd_weights_all(x, x0, n)[-1]", 'F', 'R-ROW'),
    ('fd_weights_all x0 default by truthiness', FB, '    m = len(x)\n    _assert(n < m', '    x0 = x0 or np.mean(x)\n    m = len(x)\n    _assert(n < m', 'F', None),
]
V['C16'] = [
    ('weight table chopped against its largest entry', FB, '    return weights.T\n', '    weights[np.abs(weights) <= 100 * EPS * np.abs(weights).max()] = 0.0\n    return weights.T\n', 'F', 'R-EXACT'),
    ('interior window one short', FB, 'fx[i - mm:i + mm + 1])', 'fx[i - mm:i + mm])', 'F', None),
    ('right boundary expansion point', FB, 'du[-i - 1] = np.dot(fd_weights(x[-size:], x0=x[-i - 1], n=n), fx[-size:])', 'du[-i - 1] = np.dot(fd_weights(x[-size:], x0=x[-i], n=n), fx[-size:])', 'F', 'R-WINDOW'),
    ('interior range short', FB, '    for i in range(mm, num_x - mm):', '    for i in range(mm, num_x - mm - 1):', 'F', 'R-COVER'),
    ('derivative order dropped', FB, 'du[i] = np.dot(fd_weights(x[:size], x0=x[i], n=n), fx[:size])', 'du[i] = np.dot(fd_weights(x[:size], x0=x[i]), fx[:size])', 'F', 'R-WINDOW'),
    ('interior weights reused when spacing is close', FB, "    for i in range(mm, num_x - mm):\n        du[i] = np.dot(fd_weights(x[i - mm:i + mm + 1], x0=x[i], n=n),\n                       fx[i - mm:i + mm + 1])", "    step = np.diff(x)\n    weights = step0 = None\n    for i in range(mm, num_x - mm):\n        step_i = step[i - mm:i + mm]\n        if weights is None or not np.allclose(step_i, step0):\n            weights = fd_weights(x[i - mm:i + mm + 1], x0=x[i], n=n)\n            step0 = step_i\n        du[i] = np.dot(weights, fx[i - mm:i + mm + 1])", 'F', None),
    ('fd_weights_all x0 default by truthiness', FB, '    m = len(x)\n    _assert(n < m', '    x0 = x0 or np.mean(x)\n    m = len(x)\n    _assert(n < m', 'F', 'R-EXACT'),
]
V['C17'] = [
    ('reset of _num_changes removed', FB, '        self._num_changes = 0\n        return m, self._mvec', '        return m, self._mvec', 'F', None),
    ('failed from the loop index', FB, '            failed = not converged', '            failed = i > self.max_iter', 'F', 'R-FAILED'),
    ('error estimate not scaled', FB, 'info = _INFO(info_.error_estimate * fact, *info_[1:])', 'info = _INFO(info_.error_estimate, *info_[1:])', 'F', 'R-FACTORIAL'),
    ('revert fix d717abd (complex percentile)', LIM, "        if np.iscomplexobj(der):\n            # percentiles are not defined for complex data: treat real and imaginary parts separately\n            return (_Limit._add_error_to_outliers(der.real, trim_fact)\n                    + _Limit._add_error_to_outliers(der.imag, trim_fact))\n", '', 'F', 'R-KIND'),
    ('_previous_direction reset only once', FB, '        self._previous_direction = None\n        self._degenerate = self._failed = False', "        if not hasattr(self, '_m'):\n            self._previous_direction = None\n        self._degenerate = self._failed = False", 'F', 'R-RESET'),
    ('coefficients through real_if_close', FB, "        coefs, errors = _get_best_taylor_coefficients(bs, rs, m, lambda: self._get_max_m1m2(bn, m))\n", "        coefs, errors = _get_best_taylor_coefficients(bs, rs, m, lambda: self._get_max_m1m2(bn, m))\n        coefs = np.real_if_close(coefs)\n", 'F', 'R-KIND'),
    ('k! by int64 cumprod', FB, 'fact = factorial(np.arange(m))', 'fact = np.cumprod(np.maximum(np.arange(m), 1))', 'F', 'R-FACTORIAL'),
    ('self check through vdot', FB, 'comp = np.sum(bn * np.power(check_point, mvec))', 'comp = np.vdot(bn, np.power(check_point, mvec))', 'F', 'R-SELFCHECK'),
    ('second Richardson level drops the newest row', FB, '    for k in range(1, nk - 1):\n        extrap.append', '    for k in range(1, len(extrap0) - 1):\n        extrap.append', 'F', 'R-EXTRAPOLATE'),
    ('self check through dot', FB, 'comp = np.sum(bn * np.power(check_point, mvec))', 'comp = np.dot(bn, np.power(check_point, mvec))', 'S', None),
]
V['C18'] = [
    ('np.put replaced by assignment', LIM, '            np.put(f_z, k, lim_fz)\n            if self.full_output:', '            f_z = lim_fz\n            if self.full_output:', 'F', 'R-NANMASK'),
    ('below sign', LIM, 'sign = dict(forward=1, above=1, backward=-1, below=-1)[self.method]', 'sign = dict(forward=1, above=1, backward=-1, below=1)[self.method]', 'F', 'R-SIGN'),
    ('residue power', LIM, 'return self.fun(z + d_z, *args, **kwds) * (d_z ** self.pole_order)', 'return self.fun(z + d_z, *args, **kwds) * (d_z ** (self.pole_order - 1))', 'F', 'R-RESIDUE'),
    ('residue default order', LIM, '            order = pole_order + 2', '            order = pole_order + 1', 'F', 'R-RESIDUE'),
    ('revert fix d717abd (complex percentile)', LIM, V['C17'][3][2], '', 'F', 'R-KIND'),
    ('args not forwarded', LIM, '    def _fun(self, z, d_z, args, kwds):\n        return self.fun(z + d_z, *args, **kwds)\n\n    def _get_steps', '    def _fun(self, z, d_z, args, kwds):\n        return self.fun(z + d_z, *args)\n\n    def _get_steps', 'F', 'R-SIGN'),
    ('limits written through ravel()', LIM, '            np.put(f_z, k, lim_fz)\n            if self.full_output:', '            f_z.ravel()[k] = lim_fz\n            if self.full_output:', 'F', 'R-NANMASK'),
]
V['C19'] = [
    ("central mapped to 2-point", SP, "central='3-point'", "central='2-point'", 'F', 'R-METHODMAP'),
    ('bounds dropped', SP, "kwargs=kwds, bounds=self.bounds, sparsity=self.sparsity)", "kwargs=kwds, sparsity=self.sparsity)", 'F', 'R-KWARGS'),
    ('kwargs dropped', SP, 'kwargs=kwds, bounds=self.bounds', 'kwargs=None, bounds=self.bounds', 'F', 'R-KWARGS'),
    ('step as abs_step', SP, 'rel_step=self.step', 'abs_step=self.step', 'F', 'R-KWARGS'),
    ('gradient squeeze dropped', SP, '*args, **kwds).squeeze()', '*args, **kwds)', 'F', 'R-GRAD'),
    ('f0 cached by x only', SP, "kwargs=kwds, bounds=self.bounds, sparsity=self.sparsity)\n", "kwargs=kwds, bounds=self.bounds, sparsity=self.sparsity)\n        if getattr(self, '_x0', None) is None or not np.array_equal(x, self._x0):\n            self._x0, self._f0 = np.array(x, dtype=float), np.atleast_1d(self.fun(x, *args, **kwds))\n        options['f0'] = self._f0\n", 'F', 'R-REUSE'),
]


V['C02'] += [
    ('Gradient value in the shape of x, record left flat', CORE, "return result[0].squeeze(), result[1]", "return result[0].squeeze().reshape(np.shape(x)), result[1]", 'F', 'R-GATHER'),
    ('Gradient value and record unpacked first', CORE, "return result[0].squeeze(), result[1]", "value, info = result\n            return value.squeeze(), info", 'S', None),
]
V['C08'] += [
    ('selection masks NaN with +inf and uses argmin', LIM, "            arg_mins = np.nanargmin(errors, axis=0)\n            min_errors = np.nanmin(errors, axis=0)", "            masked = np.where(np.isnan(errors), np.inf, errors)\n            arg_mins = np.argmin(masked, axis=0)\n            min_errors = np.min(masked, axis=0)", 'S', None),
    ('selection masks NaN with -inf', LIM, "            arg_mins = np.nanargmin(errors, axis=0)\n            min_errors = np.nanmin(errors, axis=0)", "            masked = np.where(np.isnan(errors), -np.inf, errors)\n            arg_mins = np.argmin(masked, axis=0)\n            min_errors = np.min(masked, axis=0)", 'F', 'R-ARGMIN'),
]
V['C09'] += [
    ('method setter resets the step generator', CORE, "        self.fd_rule.method = method\n", "        self.fd_rule.method = method\n        self.step = None\n", 'F', 'R-HISTORY'),
]
V['C10'] += [
    ('CStepGenerator swallows use_exact_steps', LIM, "self.path = options.pop('path', 'radial')", "self.path = options.pop('path', 'radial')\n        options.pop('use_exact_steps', None)", 'F', 'R-OPTIONS'),
]
V['C14'] += [
    ('floor as if statement', EXT, "        abserr = max(abserr, 5.0*_EPS*abs(result))", "        floor = 5.0*_EPS*abs(result)\n        if floor > abserr:\n            abserr = floor", 'S', None),
    ('floor as conditional expression', EXT, "        abserr = max(abserr, 5.0*_EPS*abs(result))", "        floor = 5.0*_EPS*abs(result)\n        abserr = abserr if abserr >= floor else floor", 'S', None),
    ('floor turned into a cap', EXT, "        abserr = max(abserr, 5.0*_EPS*abs(result))", "        floor = 5.0*_EPS*abs(result)\n        abserr = abserr if abserr <= floor else floor", 'F', 'R-DEA-FLOOR'),
    ('floor statement with the test turned around', EXT, "        abserr = max(abserr, 5.0*_EPS*abs(result))", "        floor = 5.0*_EPS*abs(result)\n        if floor < abserr:\n            abserr = floor", 'F', 'R-DEA-FLOOR'),
]

V['C10'] += [
    ('nominal step through np.where', SG, "    return np.log(1.718281828459045 + np.abs(x)).clip(min=1)", "    nominal = np.log(1.718281828459045 + np.abs(x))\n    return np.where(nominal > 1, nominal, 1)", 'S', None),
    ('nominal step through np.maximum', SG, "    return np.log(1.718281828459045 + np.abs(x)).clip(min=1)", "    return np.maximum(np.log(1.718281828459045 + np.abs(x)), 1)", 'S', None),
    ('nominal step through a masked store', SG, "    return np.log(1.718281828459045 + np.abs(x)).clip(min=1)", "    nominal = np.asarray(np.log(1.718281828459045 + np.abs(x)))\n    nominal[nominal < 1] = 1\n    return nominal", 'S', None),
]

def apply_variant(root, fname, old, new):
    """-> scratch dir or None when the anchor is not present"""
    src = os.path.join(root, 'src', 'numdifftools', fname)
    with open(src, newline='') as fh:
        text = fh.read()
    crlf = '\r\n' in text
    o, n = (old.replace('\n', '\r\n'), new.replace('\n', '\r\n')) if crlf else (old, new)
    if text.count(o) != 1:
        return None
    d = tempfile.mkdtemp(prefix='ndverif_var_')
    shutil.copytree(os.path.join(root, 'src'), os.path.join(d, 'src'),
                    ignore=shutil.ignore_patterns('tests', '__pycache__', '*.pyc'))
    with open(os.path.join(d, 'src', 'numdifftools', fname), 'w', newline='') as fh:
        fh.write(text.replace(o, n))
    return d


def run_variant(args):
    prop, root, var = args
    name, fname, old, new, kind, rule = var
    d = apply_variant(root, fname, old, new)
    if d is None:
        return name, kind, 'skipped', ''
    try:
        verif = os.path.dirname(os.path.dirname(os.path.abspath(__file__)))
        r = subprocess.run([sys.executable, '-m', 'ndverif', 'check', prop, '--tier', 'quick', '--repo', d,
                            '--no-evidence', '--no-selfcheck'], cwd=verif, capture_output=True, text=True,
                           env=dict(os.environ, NDVERIF_BUDGET='400'))
        rules = sorted({ln.split('rule=')[1].split()[0] for ln in r.stdout.splitlines() if ln.strip().startswith('rule=')})
        if kind == 'F':
            ok = r.returncode == 1 and (rule is None or rule in rules)
        else:
            ok = r.returncode == 0
        detail = 'exit %d rules %s' % (r.returncode, ','.join(rules))
        if r.returncode == 2:
            detail += ' ' + ' '.join(ln for ln in r.stdout.splitlines() if 'ANALYSIS-ERROR' in ln)[:160]
        return name, kind, 'ok' if ok else 'FAILED', detail
    finally:
        shutil.rmtree(d, ignore_errors=True)


def self_validate(prop, tier, repo_root, rep, seed):
    """Run variants of this property.  Records counts in the evidence; in the thorough tier a must-fire variant
    that stays silent or a benign one that fires ends the run as ANALYSIS-ERROR (the checker is broken)."""
    from .srcmodel import AnalysisError
    table = V.get(prop, [])
    if not table:
        return
    if rep.unlisted_violations():
        return      # the tree itself is reported; variants on top of it say nothing
    fs = [v for v in table if v[4] == 'F']
    ss = [v for v in table if v[4] == 'S']
    if tier == 'quick':
        chosen = [fs[seed % len(fs)]] if fs else []
        jobs = 1
    else:
        chosen = list(table)
        jobs = min(16, os.cpu_count() or 4)
    results = []
    if jobs == 1:
        results = [run_variant((prop, repo_root, v)) for v in chosen]
    else:
        with concurrent.futures.ThreadPoolExecutor(jobs) as ex:
            results = list(ex.map(run_variant, [(prop, repo_root, v) for v in chosen]))
    summary = {'must_fire': sum(1 for r in results if r[1] == 'F' and r[2] != 'skipped'),
               'fired': sum(1 for r in results if r[1] == 'F' and r[2] == 'ok'),
               'benign': sum(1 for r in results if r[1] == 'S' and r[2] != 'skipped'),
               'silent': sum(1 for r in results if r[1] == 'S' and r[2] == 'ok'),
               'skipped': sum(1 for r in results if r[2] == 'skipped'),
               'variants': [{'name': r[0], 'kind': r[1], 'result': r[2], 'detail': r[3]} for r in results],
               'table_size': len(table)}
    rep.self_validation = summary
    failed = [r for r in results if r[2] == 'FAILED']
    base_clean = not rep.unlisted_violations()
    if failed and base_clean and tier == 'thorough':
        raise AnalysisError('self validation failed: %s' % '; '.join('%s [%s] %s' % (r[0], r[1], r[3]) for r in failed[:3]))


def selftest_cli(props, repo_root, jobs):
    todo = [(p, repo_root, v) for p in props for v in V.get(p, [])]
    bad = 0
    with concurrent.futures.ThreadPoolExecutor(jobs or min(16, os.cpu_count() or 4)) as ex:
        for (p, _, v), r in zip(todo, ex.map(run_variant, todo)):
            flag = '' if r[2] in ('ok', 'skipped') else '   <<<<<<'
            if flag:
                bad += 1
            print('%-4s %-1s %-45s %-8s %s%s' % (p, r[1], r[0][:45], r[2], r[3][:110], flag), flush=True)
    print('%d variants, %d failed' % (len(todo), bad))
    return 1 if bad else 0
