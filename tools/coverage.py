#!/usr/bin/env python3
"""Which statements of /repo/src/numdifftools does any check interpret?  (a map of blind spots, not a verdict)
usage: /venv/bin/python tools/coverage.py [tier]   -> per module: executable statements never reached by an abstract run"""
import ast
import os
import sys
sys.path.insert(0, '/verif')
from ndverif import absint, engine                     # noqa: E402
from ndverif.srcmodel import AnalysisError             # noqa: E402

tier = sys.argv[1] if len(sys.argv) > 1 else 'quick'
absint.COVERAGE = set()
for k in range(1, 20):
    pid = 'C%02d' % k
    try:
        engine.analyse(pid, tier, '/repo', 0)
    except AnalysisError as exc:
        print('!!', pid, exc)
cov = absint.COVERAGE
src = '/repo/src/numdifftools'
for fn in sorted(os.listdir(src)):
    if not fn.endswith('.py') or fn in ('__init__.py', 'info.py', 'testing.py', 'profiletools.py', 'example_functions.py', 'run_benchmark.py', 'nd_algopy.py', 'nd_statsmodels.py', '_find_default_scale.py'):
        continue
    mod = fn[:-3]
    tree = ast.parse(open(os.path.join(src, fn)).read())
    missing = []
    total = 0
    for fdef in ast.walk(tree):
        if isinstance(fdef, (ast.FunctionDef,)):
            if fdef.name.startswith('test') or fdef.name in ('main', '_example'):
                continue
            for st in ast.walk(fdef):
                if isinstance(st, ast.stmt) and not isinstance(st, (ast.FunctionDef, ast.ClassDef, ast.Import, ast.ImportFrom)) and \
                        not (isinstance(st, ast.Expr) and isinstance(st.value, ast.Constant)):
                    total += 1
                    if (mod, st.lineno) not in cov:
                        missing.append((st.lineno, fdef.name))
    by_fn = {}
    for ln, name in missing:
        by_fn.setdefault(name, []).append(ln)
    print('%-22s %4d statements, %4d never interpreted' % (mod, total, len(missing)))
    for name, lns in sorted(by_fn.items(), key=lambda t: t[1][0]):
        print('      %-34s lines %s' % (name, ','.join(map(str, sorted(set(lns))[:14]))))
