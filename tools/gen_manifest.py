#!/usr/bin/env python3
"""Regenerates /verif/MANIFEST.json from the table below (single source of truth) and validates it."""
import json
import os
import sys

HERE = os.path.dirname(os.path.dirname(os.path.abspath(__file__)))
sys.path.insert(0, HERE)
from ndverif.manifest_table import CHECKS, NOT_APPLICABLE, NOTES  # noqa


def main():
    checks = []
    for pid in sorted(CHECKS):
        c = CHECKS[pid]
        checks.append({
            'property_id': pid,
            'quick_cmd': '/venv/bin/python -m ndverif check %s --tier quick' % pid,
            'thorough_cmd': '/venv/bin/python -m ndverif check %s --tier thorough' % pid,
            'evidence_file': '/verif/evidence/%s.json' % pid,
            'replay_cmd_template': '/venv/bin/python -m ndverif replay {path}',
            'engine': 'ndverif',
            'level_claimed': {'category': 'other', 'text': c['level'], 'design_ref': c.get('design_ref', 'DESIGN.md section 4 / %s' % pid)},
            'level_note': c['note'],
            'technique': c['technique'],
        })
    man = {
        'version': 1,
        'setup_cmd': 'cd /verif && /venv/bin/python -m ndverif list',
        'hooks': {'guard': 'NUMDIFFTOOLS_VERIF', 'enable': 'none needed: the checks never execute the package, they parse /repo/src/numdifftools/*.py',
                  'baseline_off_cmd': 'cd /repo && /venv/bin/python -m pytest -ra -q -p no:cacheprovider --timeout=900 --continue-on-collection-errors',
                  'source_commits': [], 'add_only': True},
        'engines': [{'name': 'ndverif', 'path': '/verif/ndverif', 'serves_properties': sorted(CHECKS),
                     'kind_free_text': 'repository specific static analysis on python ast: abstract interpretation of the '
                                       'package source over exact algebraic / stencil / provenance domains plus syntactic flow rules; '
                                       'the package is never imported or run'}],
        'checks': checks,
        'notes': NOTES,
        'not_applicable': [{'property_id': p, 'reason': r} for p, r in sorted(NOT_APPLICABLE.items())],
    }
    path = os.path.join(HERE, 'MANIFEST.json')
    with open(path, 'w') as fh:
        json.dump(man, fh, indent=1)
    try:
        import jsonschema
        jsonschema.validate(man, json.load(open('/root/.vp/MANIFEST.schema.json')))
        print('MANIFEST.json valid, %d checks, %d not_applicable' % (len(checks), len(man['not_applicable'])))
    except ImportError:
        print('MANIFEST.json written (jsonschema not available here)')


if __name__ == '__main__':
    main()
