#!/usr/bin/env python3
"""Confirm sub-agent refactorings (behaviour preserving edits) independently and store them as /verif/benign/<prop>-r<k>/.

For every /tmp/wt/<prop>/out/ref<k>/{patch.diff,demo.py,notes.md}:
  1. fresh scratch worktree of /repo HEAD (under /tmp/harvest), patch must apply with `git apply`
  2. the 104 pinned tests still pass with the patch
  3. demo.py (a check of the property on many inputs) exits 0 with the patch and without it
Only then it is copied to /verif/seeded/ with meta.json recording what was run."""
import concurrent.futures
import glob
import json
import os
import shutil
import subprocess
import sys
import xml.etree.ElementTree as ET

STABLE = set(json.load(open('/root/.vp/BASELINE.json'))['stable_pass'])
PROPS = {json.loads(l)['id']: json.loads(l) for l in open('/verif/properties.jsonl')}


def sh(cmd, cwd=None, timeout=1500, env=None):
    return subprocess.run(cmd, shell=True, cwd=cwd, capture_output=True, text=True, timeout=timeout, env=env)


def suite_ok(wt):
    sh('/venv/bin/python -m pytest -q -p no:cacheprovider --timeout=900 --continue-on-collection-errors '
       '--junitxml=%s/.junit.xml > %s/.pytest.log 2>&1' % (wt, wt), cwd=wt)
    passed = set()
    for tc in ET.parse(wt + '/.junit.xml').iter('testcase'):
        if not any(c.tag in ('failure', 'error', 'skipped') for c in tc):
            passed.add(tc.get('classname', '') + '::' + tc.get('name', ''))
    missing = sorted(s for s in STABLE if s not in passed)
    return not missing, missing


def one(src):
    prop = src.split('/')[3]
    k = os.path.basename(src).replace('ref', '')
    if prop.startswith('R'):
        # second round: worktrees /tmp/wt/R<nn>, stored as <prop>-r4..r6
        prop, k = 'C' + prop[1:], str(int(k) + 3)
    elif prop.startswith('S'):
        # third round: worktrees /tmp/wt/S<nn>, stored as <prop>-r7, r8
        prop, k = 'C' + prop[1:], str(int(k) + 6)
    elif prop.startswith('W'):
        # sixth round: worktrees /tmp/wt/W<nn>, stored as <prop>-r13, r14
        prop, k = 'C' + prop[1:], str(int(k) + 12)
    elif prop.startswith('Y'):
        # eighth round: worktrees /tmp/wt/Y<nn>, one re-implementation each, stored as <prop>-r17
        prop, k = 'C' + prop[1:], str(int(k) + 16)
    elif prop.startswith('X'):
        # seventh round: worktrees /tmp/wt/X<nn>, stored as <prop>-r15, r16
        prop, k = 'C' + prop[1:], str(int(k) + 14)
    elif prop.startswith('U'):
        # fifth round: worktrees /tmp/wt/U<nn>, stored as <prop>-r11, r12
        prop, k = 'C' + prop[1:], str(int(k) + 10)
    elif prop.startswith('T'):
        # fourth round: worktrees /tmp/wt/T<nn>, stored as <prop>-r9, r10
        prop, k = 'C' + prop[1:], str(int(k) + 8)
    name = '%s-r%s' % (prop, k)
    dest = '/verif/benign/%s' % name
    if os.path.isdir(dest):
        return name, 'already harvested'
    wt = '/tmp/harvestb/%s' % name
    sh('git -C /repo worktree remove --force %s' % wt)
    shutil.rmtree(wt, ignore_errors=True)
    os.makedirs('/tmp/harvestb', exist_ok=True)
    r = sh('git -C /repo worktree add -q --detach %s HEAD' % wt)
    if r.returncode:
        return name, 'worktree failed: ' + r.stderr[-200:]
    try:
        env = dict(os.environ, PYTHONPATH=wt + '/src')
        demo = os.path.join(src, 'demo.py')
        base = sh('/venv/bin/python %s' % demo, cwd=src, env=env, timeout=1200)
        if base.returncode != 0:
            return name, 'REJECT demo fails on the unchanged tree (exit %d): %s' % (base.returncode, (base.stdout + base.stderr)[-300:])
        r = sh('git apply %s/patch.diff' % src, cwd=wt)
        if r.returncode:
            r = sh('patch -p1 -s < %s/patch.diff' % src, cwd=wt)      # /repo moved on by a fix: commit meanwhile
            if r.returncode:
                return name, 'REJECT patch does not apply: ' + (r.stdout + r.stderr)[-300:]
        changed = sh('git diff --stat', cwd=wt).stdout
        mut = sh('/venv/bin/python %s' % demo, cwd=src, env=env, timeout=1200)
        if mut.returncode != 0:
            return name, 'REJECT the property demo fails with the refactoring applied: ' + (mut.stdout + mut.stderr)[-300:]
        ok, missing = suite_ok(wt)
        if not ok:
            return name, 'REJECT pinned tests broken: %s' % missing[:3]
        os.makedirs(dest, exist_ok=True)
        for fn in ('patch.diff', 'demo.py', 'notes.md'):
            if os.path.isfile(os.path.join(src, fn)):
                shutil.copy(os.path.join(src, fn), os.path.join(dest, fn))
        meta = {'property': prop, 'title': PROPS[prop]['title'], 'source': 'independent sub-agent given only the property record and a scratch worktree',
                'notes': open(os.path.join(src, 'notes.md')).read()[:1500] if os.path.isfile(os.path.join(src, 'notes.md')) else '',
                'confirmed': {'patch_applies_to': sh('git -C /repo rev-parse HEAD').stdout.strip(),
                              'files_changed': changed.strip().splitlines(),
                              'pinned_suite_with_patch': '104 of 104 pass',
                              'demo_exit_unchanged': base.returncode, 'demo_exit_refactored': mut.returncode},
                'commands': ['git worktree add --detach <scratch> HEAD', 'PYTHONPATH=<scratch>/src /venv/bin/python demo.py  (exit 0)',
                             'git apply patch.diff', 'PYTHONPATH=<scratch>/src /venv/bin/python demo.py  (exit 0)',
                             '/venv/bin/python -m pytest ... --junitxml (all 104 pinned tests pass)']}
        json.dump(meta, open(os.path.join(dest, 'meta.json'), 'w'), indent=1)
        return name, 'OK'
    finally:
        sh('git -C /repo worktree remove --force %s' % wt)
        shutil.rmtree(wt, ignore_errors=True)


def main():
    srcs = sorted(glob.glob('/tmp/wt/C*/out/ref*') + glob.glob('/tmp/wt/R*/out/ref[0-9]') + glob.glob('/tmp/wt/S*/out/ref[0-9]') + glob.glob('/tmp/wt/T*/out/ref[0-9]') + glob.glob('/tmp/wt/U*/out/ref[0-9]') + glob.glob('/tmp/wt/W*/out/ref[0-9]') + glob.glob('/tmp/wt/X*/out/ref[0-9]') + glob.glob('/tmp/wt/Y*/out/ref[0-9]'))
    if len(sys.argv) > 1:
        srcs = [s for s in srcs if any(a in s for a in sys.argv[1:])]
    with concurrent.futures.ThreadPoolExecutor(6) as ex:
        for name, res in ex.map(one, srcs):
            print(name, res, flush=True)


if __name__ == '__main__':
    main()
