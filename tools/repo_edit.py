"""edit(path, old, new): exact single replacement that preserves the file's line endings (core.py is CRLF)."""
import sys


def edit(p, old, new, count=1):
    s = open(p, newline='').read()
    if '\r\n' in s:
        old = old.replace('\n', '\r\n')
        new = new.replace('\n', '\r\n')
    assert s.count(old) == count, (p, s.count(old))
    open(p, 'w', newline='').write(s.replace(old, new))
