#!/usr/bin/env python3
"""Run the registered quick checks against every benign refactoring (scratch copy of /repo/src with the patch applied):
every check is expected to stay silent (exit 0).
usage: run_seeded.py [name-filter ...] [--all-props]   -> table: mutant, property check result, other checks that fire"""
import concurrent.futures
import glob
import json
import os
import shutil
import subprocess
import sys
import tempfile

CLAIMED = [c['property_id'] for c in json.load(open('/verif/MANIFEST.json'))['checks']]


def one(args):
    name, props = args
    d = tempfile.mkdtemp(prefix='seed_')
    try:
        subprocess.run('git -C /repo archive HEAD src | tar -x -C %s' % d, shell=True, check=True)
        r = subprocess.run(['git', 'apply', '--directory=' + d.lstrip('/'), '--unsafe-paths', '/verif/benign/%s/patch.diff' % name],
                           cwd='/', capture_output=True, text=True)
        if r.returncode:
            r = subprocess.run('cd %s && patch -p1 -s < /verif/benign/%s/patch.diff' % (d, name), shell=True, capture_output=True, text=True)
            if r.returncode:
                return name, {'apply': 'FAILED ' + r.stderr[-200:]}
        out = {}
        for p in props:
            r = subprocess.run(['/venv/bin/python', '-m', 'ndverif', 'check', p, '--tier', 'quick', '--repo', d,
                                '--no-evidence', '--no-selfcheck'], cwd='/verif', capture_output=True, text=True,
                               env=dict(os.environ, NDVERIF_BUDGET='150'))
            rules = sorted({ln.split('rule=')[1].split()[0] for ln in r.stdout.splitlines() if ln.strip().startswith('rule=')})
            msg = ''
            if r.returncode == 2:
                msg = [ln for ln in r.stdout.splitlines() if 'ANALYSIS-ERROR' in ln][-1:][0][:160] if 'ANALYSIS-ERROR' in r.stdout else r.stderr[-160:]
            out[p] = (r.returncode, rules, msg)
        return name, out
    finally:
        shutil.rmtree(d, ignore_errors=True)


def main():
    args = [a for a in sys.argv[1:] if not a.startswith('--')]
    allprops = '--all-props' in sys.argv
    names = sorted(os.path.basename(p) for p in glob.glob('/verif/benign/C*'))
    if args:
        names = [n for n in names if any(a in n for a in args)]
    jobs = []
    for n in names:
        own = n.split('-')[0]
        props = CLAIMED if allprops else ([own] if own in CLAIMED else [])
        jobs.append((n, props))
    with concurrent.futures.ThreadPoolExecutor(int(os.environ.get('JOBS', '8'))) as ex:
        for name, out in ex.map(one, jobs):
            own = name.split('-')[0]
            cells = []
            for p, v in sorted(out.items()):
                if p == 'apply':
                    cells.append(str(v))
                    continue
                code, rules, msg = v
                tag = {0: 'silent', 1: 'VIOLATION', 2: 'analysis-error'}.get(code, str(code))
                if code == 0:
                    continue
                cells.append('%s:%s%s%s' % (p, tag, (' ' + ','.join(rules)) if rules else '', (' ' + msg) if msg else ''))
            print('%-8s %s' % (name, ' | '.join(cells) if cells else 'all silent'), flush=True)


if __name__ == '__main__':
    main()
